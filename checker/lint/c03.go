package lint

import (
	"fmt"
	"strings"

	"golang.org/x/tools/go/ssa"
)

const (
	gWatch     = "(pkg/state.CoreState).Watch"
	gCSDestroy = "(pkg/state.CoreState).Destroy"
	gWTeardown = wrapT + ".Teardown"
	gWaitFin   = wrapT + ".waitFinalizersEmpty"
	gSend      = "github.com/siderolabs/gen/channel.SendWithContext"
)

func init() {
	register(&PropertyInfo{
		ID: "C03",
		Explanation: "R03.1: the store removes a resource only behind the Finalizers().Empty() edge, inside the collection's critical section (lockset + path-cut). " +
			"R03.2: a plain Watch builds its initial event (deep copy of storage[id] or a tombstone) in the same critical section that fixes its start position, and the delivery goroutine sends it before entering the loop, so a watcher started after a write cannot miss that write. " +
			"R03.3: WatchFor, waitFinalizersEmpty and ContextWithTeardown call Watch without options (so the first event is the current state) and inspect every received event before the next receive. " +
			"R03.4: TeardownAndDestroy: Teardown first; Destroy only behind ready==true or (wait ok ∧ not destroyed); success only via Destroy's result or destroyed==true; the owner option reaches both calls. " +
			"R03.5 / R03.7: the event decision tables of waitFinalizersEmpty and ContextWithTeardown, row by row, as path-cuts on the event-type comparisons. " +
			"R03.6: Teardown marks via UpdateWithConflicts (not a raw Update) with the owner option, only when not already tearing down, and reports Finalizers().Empty() of the value the committed update returned.",
		NotCovered: "'always completes when finalizers end up empty' as a liveness statement over interleavings (R03.2/R03.3 are its necessary mechanism); combinations of WatchForCondition options beyond the matcher's guard order.",
		Assumptions: []string{
			"the wrapped CoreState's Watch delivers the current state first (R03.2 for inmem; R11 for remote)",
			"UpdateWithConflicts returns the committed object (C04 R04.1)",
		},
		Run: runC03,
	})
}

func runC03(c *Ctx) {
	p := c.P

	evType := func(name string) string { return "eq(*var:pkg/state.Event.Type," + p.ConstVal(pkgState, name) + ")" }

	// ---------- R03.1
	c.Rule("R03.1", "E1", "store Destroy: removal only behind Finalizers().Empty(), under the collection mutex", 2)
	storeDestroyGuard(c, "R03.1")

	li := p.Lockset(collectionLock, pkgInmem)
	fDestroy := p.Method(pkgInmem, "ResourceCollection", "Destroy")

	if c.NeedFunc("R03.1", fDestroy, collT+".Destroy") {
		ok := true

		for _, in := range Find(fDestroy, OrInstr(MapWriteOnField("ResourceCollection", "storage"), p.CallTo("(*pkg/resource.Finalizers).Empty", "(pkg/resource.Finalizers).Empty"))) {
			if li.HeldAt(in) <= 0 {
				ok = false
			}
		}

		c.Check(ok, "R03.1", FuncName(fDestroy)+" :: finalizer test and removal in the same critical section", fpos(fDestroy), "lock held at both", "lock not held at the finalizer test or at the removal")
	}

	// ---------- R03.2 initial event
	c.Rule("R03.2", "E1", "collection.Watch: initial event = deep copy of storage[id] or tombstone, built under the lock that fixes the start position; sent before the delivery loop", 5)

	fWatch := p.Method(pkgInmem, "ResourceCollection", "Watch")
	if c.NeedFunc("R03.2", fWatch, collT+".Watch") {
		n := 0
		ok := true
		detail := ""

		for _, in := range Find(fWatch, StoreToField("Event", "Resource")) {
			// (every state.Event built in Watch itself is the initial event, whether it is filled in place
			// or returned as a literal by a helper; stream events are read in the delivery goroutine)
			st := in.(*ssa.Store)
			if !Glob("var:*.Resource", p.Desc(st.Addr)) {
				continue
			}

			n++
			d := p.DescN(st.Val, 6)

			if !(Glob("call:"+gDeepCopy+"(lookup(*param#0.storage,param#2))", d) || Glob("call:pkg/resource.NewTombstone(*", d)) {
				ok = false
				detail = d
			}

			if li.HeldAt(in) <= 0 {
				ok = false
				detail = "lock not held"
			}
		}

		c.Check(ok && n >= 2, "R03.2", FuncName(fWatch)+" :: initialEvent.Resource ∈ {DeepCopy(storage[id]), tombstone}, set under the lock", fpos(fWatch), "2 stores", fmt.Sprintf("%d stores; %s", n, detail))

		// the tombstone branch is taken only when the id is absent; the copy branch only when present
		c.MustCut("R03.2", "tombstone ⊣ {storage[id] == nil}", fWatch, p.CallTo("pkg/resource.NewTombstone"), CutSpec{Edges: FactEdge("nil(lookup(*param#0.storage,param#2))")}, 1)

		// start position read under the same lock, exactly one Lock / deferred Unlock in the body
		locks := 0

		for _, in := range Find(fWatch, p.PlainCallTo("(*sync.Mutex).Lock", "(*sync.Mutex).Unlock")) {
			_ = in
			locks++
		}

		c.Check(locks == 1, "R03.2", FuncName(fWatch)+" :: one critical section covers start position and initial event", fpos(fWatch), "1 Lock, deferred Unlock", fmt.Sprintf("%d plain Lock/Unlock calls in the body", locks))

		gos := GoClosures(fWatch)

		var deliver *ssa.Function

		for _, g := range gos {
			if len(p.Calls(g, gSend)) > 0 {
				deliver = g
			}
		}

		if c.NeedFunc("R03.2", deliver, "Watch delivery goroutine") {
			c.MustCut("R03.2", "delivery loop ⊣ {initial event sent, tail/bookmark mode}", deliver, p.PlainCallTo("(*sync.Mutex).Lock"),
				CutSpec{Edges: FactEdge("true(call:"+gSend+"(free:param#1,free:param#3,*free:var:pkg/state.Event))", "gt(*var:pkg/state.Watch*Options.TailEvents,const:0)", "nonnil(*var:pkg/state.Watch*Options.StartFromBookmark)")}, 1)
			// the goroutines are spawned after the snapshot
			c.MustCut("R03.2", "go delivery ⊣ {storage lookup / bookmark / tail position computed}", fWatch,
				func(in ssa.Instruction) bool { g, ok := in.(*ssa.Go); return ok && StaticOrClosureCallee(g) == deliver },
				CutSpec{Nodes: OrInstr(
					func(in ssa.Instruction) bool {
						l, ok := in.(*ssa.Lookup)
						return ok && LoadsField(l.X, "ResourceCollection", "storage")
					},
					p.CallTo(pkgInmem+".decodeBookmark")), Edges: FactEdge("gt(*var:pkg/state.Watch*Options.TailEvents,const:0)")}, 1)
		}
	}

	// ---------- R03.3 helpers see the first event
	c.Rule("R03.3", "E5", "WatchFor / waitFinalizersEmpty / ContextWithTeardown: Watch without options on the caller's target; each received event is examined before the next receive", 6)

	for _, name := range []string{"WatchFor", "waitFinalizersEmpty", "ContextWithTeardown"} {
		f := p.Method(pkgState, "coreWrapper", name)
		if !c.NeedFunc("R03.3", f, wrapT+"."+name) {
			continue
		}

		ws := p.Calls(f, gWatch)
		ok := len(ws) == 1
		d := ""

		if ok {
			a := CallArgs(ws[0])
			d = p.Desc(a[2]) + " opts=" + p.Desc(a[4])
			ok = p.Desc(a[2]) == "param#2" && p.Desc(a[4]) == "nil"
		}

		c.Check(ok, "R03.3", FuncName(f)+" :: Watch(ctx, target, ch) with no options", fpos(f), d, "Watch call: "+d)
	}

	isSelect := func(in ssa.Instruction) bool { _, ok := in.(*ssa.Select); return ok }

	if f := p.Method(pkgState, "coreWrapper", "WatchFor"); f != nil {
		c.MustFollow("R03.3", "between two receives the event is matched", f, isSelect, isSelect, CutSpec{Nodes: p.CallTo("(*" + pkgState + ".WatchForCondition).Matches")}, 1)

		ms := p.Calls(f, "(*"+pkgState+".WatchForCondition).Matches")
		c.Check(len(ms) == 1 && p.LeavesMatch(CallArgs(ms[0])[1], "*var:pkg/state.Event", "select#*"), "R03.3", FuncName(f)+" :: Matches is applied to the event just received", fpos(f), "yes", "Matches argument: "+descOfFirst(p, ms, 1))
		c.MustCut("R03.3", "return resource ⊣ {Matches == true}", f, AndInstr(ReturnsNilConst(1), ReturnsNonNil(0)), CutSpec{Edges: FactEdge("true(call:(*" + pkgState + ".WatchForCondition).Matches(*)#0)")}, 1)
		c.MustCut("R03.3", "receive loop ⊣ {Watch err == nil}", f, isSelect, CutSpec{Edges: FactEdge("nil(call:" + gWatch + "(*")}, 1)
	}

	// ---------- R03.4 TeardownAndDestroy
	c.Rule("R03.4", "E1", "TeardownAndDestroy: Teardown first; Destroy only when ready or (wait ok ∧ not destroyed); nil only via Destroy or destroyed; owner reaches both", 7)

	if f := p.Method(pkgState, "coreWrapper", "TeardownAndDestroy"); c.NeedFunc("R03.4", f, wrapT+".TeardownAndDestroy") {
		noDeleg := FactEdge("false(assert[" + pkgState + ".TeardownAndDestroyer](param#0.CoreState)#1)")
		tdOK := "nil(call:" + gWTeardown + "(*)#1)"

		c.MustCut("R03.4", "Destroy / wait ⊣ {Teardown err == nil}", f, p.CallTo(gCSDestroy, gWaitFin), CutSpec{Edges: FactEdge(tdOK)}, 2)
		c.MustCut("R03.4", "Destroy ⊣ {ready, not destroyed}", f, p.CallTo(gCSDestroy), CutSpec{Edges: FactEdge("true(call:"+gWTeardown+"(*)#0)", "false(call:"+gWaitFin+"(*)#0)")}, 1)
		c.MustCut("R03.4", "Destroy ⊣ {ready, wait err == nil}", f, p.CallTo(gCSDestroy), CutSpec{Edges: FactEdge("true(call:"+gWTeardown+"(*)#0)", "nil(call:"+gWaitFin+"(*)#1)")}, 1)
		c.MustCut("R03.4", "wait ⊣ {not ready}", f, p.CallTo(gWaitFin), CutSpec{Edges: FactEdge("false(call:" + gWTeardown + "(*)#0)")}, 1)
		c.MustCut("R03.4", "return nil ⊣ {destroyed==true}", f, ReturnsNilConst(0), CutSpec{Edges: FactEdge("true(call:" + gWaitFin + "(*)#0)")}, 1)

		okRet := true

		for _, in := range Find(f, IsReturn) {
			d := p.Desc(in.(*ssa.Return).Results[0])
			if !(d == "nil" || Glob("call:"+gCSDestroy+"(*", d) || Glob("call:"+gWTeardown+"(*)#1", d) || Glob("call:"+gWaitFin+"(*)#1", d) || Glob("call:("+pkgState+".TeardownAndDestroyer).TeardownAndDestroy(*", d)) {
				okRet = false
			}
		}

		c.Check(okRet, "R03.4", FuncName(f)+" :: results are Destroy's / Teardown's / wait's error or nil", fpos(f), "yes", "returns something else")

		// every Teardown / Destroy call carries exactly one owner option, built from the caller's options.Owner
		okOwner := true
		nOwner := 0

		for _, call := range p.Calls(f, gCSDestroy, gWTeardown) {
			args := CallArgs(call)
			elems, lit := VarargElems(args[len(args)-1])
			n := 0

			for _, e := range elems {
				if Glob("call:pkg/state.With*Owner(*var:pkg/state.*Options.Owner)", p.Desc(e)) {
					n++
				}
			}

			if !lit || n != 1 {
				okOwner = false
			}

			nOwner++
		}

		for _, call := range p.Calls(f, "pkg/state.WithTeardownOwner", "pkg/state.WithDestroyOwner") {
			if !Glob("*var:pkg/state.*Options.Owner", p.ArgDesc(call, 0)) {
				okOwner = false
			}
		}

		c.Check(okOwner && nOwner >= 2, "R03.4", FuncName(f)+" :: the caller's owner reaches Teardown and both Destroy calls", fpos(f), fmt.Sprintf("%d calls, each with the owner option from options.Owner", nOwner), fmt.Sprintf("%d Teardown/Destroy calls, each with options.Owner=%v", nOwner, okOwner))

		for _, call := range p.Calls(f, gCSDestroy, gWTeardown, gWaitFin) {
			c.Check(p.ArgDesc(call, 2) == "param#2", "R03.4", FuncName(f)+" :: "+p.CalleeName(call)+" on the caller's target", call.Pos(), "param#2", "target is "+p.ArgDesc(call, 2))
		}

		_ = noDeleg
	}

	// ---------- R03.5 waitFinalizersEmpty table
	c.Rule("R03.5", "E7", "waitFinalizersEmpty: Destroyed→(true,nil); Created/Updated ∧ finalizers empty→(false,nil); Errored→event.Error; others keep waiting; ctx→ctx.Err", 6)

	if f := p.Method(pkgState, "coreWrapper", "waitFinalizersEmpty"); c.NeedFunc("R03.5", f, gWaitFin) {
		c.MustCut("R03.5", "(true,nil) ⊣ {Type==Destroyed}", f, AndInstr(p.RetIs(0, "const:true"), ReturnsNilConst(1)), CutSpec{Edges: FactEdge(evType("Destroyed"))}, 1)
		c.MustCut("R03.5", "(false,nil) ⊣ {Type ∈ {Created,Updated}}", f, AndInstr(p.RetIs(0, "const:false"), ReturnsNilConst(1)), CutSpec{Edges: FactEdge(evType("Created"), evType("Updated"))}, 1)
		c.MustCut("R03.5", "(false,nil) ⊣ {Finalizers().Empty() of the event's resource}", f, AndInstr(p.RetIs(0, "const:false"), ReturnsNilConst(1)),
			CutSpec{Edges: FactEdge("true(call:(pkg/resource.Finalizers).Empty(*call:(*pkg/resource.Metadata).Finalizers(call:(pkg/resource.Resource).Metadata(*var:pkg/state.Event.Resource))))")}, 1)

		okErr := true
		nErr := 0

		for _, in := range Find(f, ReturnsNonNil(1)) {
			nErr++
			r := in.(*ssa.Return)

			// (through joins left by a receive helper: every value the error can be is one of the three)
			if !p.LeavesMatch(r.Results[1], "*var:pkg/state.Event.Error", "select#*.Error", "phi(*).Error", "call:(context.Context).Err(*", "call:"+gWatch+"(*") || p.Desc(r.Results[0]) != "const:false" {
				okErr = false
			}
		}

		c.Check(okErr && nErr >= 2, "R03.5", FuncName(f)+" :: error exits return (false, {event.Error | ctx.Err() | Watch err})", fpos(f), "3 error exits", fmt.Sprintf("%d error exits, well-formed=%v", nErr, okErr))
		c.MustCut("R03.5", "return event.Error ⊣ {Type==Errored}", f, p.RetIs(1, "*var:pkg/state.Event.Error"), CutSpec{Edges: FactEdge(evType("Errored"))}, 1)
		// Destroyed must lead to a return, not to another wait
		c.NoReach("R03.5", "Destroyed event never loops back to the receive", f, p.EdgeSuccs(f, evType("Destroyed")), 1, isSelect, CutSpec{})
		c.NoReach("R03.5", "Errored event never loops back to the receive", f, p.EdgeSuccs(f, evType("Errored")), 1, isSelect, CutSpec{})
	}

	// ---------- R03.6 Teardown
	c.Rule("R03.6", "E3", "Teardown: UpdateWithConflicts (not raw Update) with the owner option, skipped iff already tearing down; ready = Finalizers().Empty() of the committed value", 5)

	teardownRule(c, "R03.6")

	// ---------- R03.7 ContextWithTeardown
	c.Rule("R03.7", "E7", "ContextWithTeardown: watch established before the context is returned; cancel deferred in the goroutine; goroutine ends iff torn down / destroyed / watch error / parent done", 6)

	if f := p.Method(pkgState, "coreWrapper", "ContextWithTeardown"); c.NeedFunc("R03.7", f, wrapT+".ContextWithTeardown") {
		c.MustCut("R03.7", "return ctx ⊣ {Watch err == nil}", f, ReturnsNilConst(1), CutSpec{Edges: FactEdge("nil(call:" + gWatch + "(*")}, 1)

		gos := GoClosures(f)
		if len(gos) != 1 {
			c.Bad("R03.7", FuncName(f)+" :: one watcher goroutine", fpos(f), fmt.Sprintf("%d goroutines", len(gos)))
		} else {
			g := gos[0]
			c.Touch(g)

			defers := Find(g, func(in ssa.Instruction) bool { _, ok := in.(*ssa.Defer); return ok })
			okD := len(defers) >= 1 && defers[0].Block() == g.Blocks[0] && Glob("dyn:free:call:context.WithCancelCause(*)#1", p.CalleeName(defers[0].(ssa.CallInstruction)))
			c.Check(okD, "R03.7", FuncName(g)+" :: cancel is deferred at goroutine entry", fpos(g), "defer cancel(nil)", "no deferred cancel at entry")

			td := p.ConstVal(pkgResource, "PhaseTearingDown")
			exits := FactEdge("eq(select#0,const:0)", evType("Destroyed"), evType("Errored"),
				"eq(call:(pkg/resource.Metadata).Phase(*call:(pkg/resource.Resource).Metadata(*var:pkg/state.Event.Resource)),"+td+")")
			c.MustCut("R03.7", "goroutine returns ⊣ {parent done, Destroyed, Errored, phase==TearingDown}", g, IsReturn, CutSpec{Edges: exits}, 1)

			// and each of those does end it (no path back to the select)
			for name, fact := range map[string]string{"Destroyed": evType("Destroyed"), "Errored": evType("Errored"),
				"TearingDown": "eq(call:(pkg/resource.Metadata).Phase(*call:(pkg/resource.Resource).Metadata(*var:pkg/state.Event.Resource))," + td + ")"} {
				c.NoReach("R03.7", name+" ends the goroutine", g, p.EdgeSuccs(g, fact), 1, isSelect, CutSpec{})
			}

			// the phase test applies to Created/Updated only
			c.MustCut("R03.7", "phase test ⊣ {Type ∈ {Created, Updated}}", g, p.CallTo("(pkg/resource.Metadata).Phase"), CutSpec{Edges: FactEdge(evType("Created"), evType("Updated"))}, 1)
			// Errored cancels with the event's error
			c.MustCut("R03.7", "cancel(ev.Error) ⊣ {Type==Errored}", g, func(in ssa.Instruction) bool {
				call, ok := in.(*ssa.Call)

				return ok && Glob("dyn:free:call:context.WithCancelCause(*)#1", p.CalleeName(call)) && p.ArgDesc(call, 0) == "*var:pkg/state.Event.Error"
			}, CutSpec{Edges: FactEdge(evType("Errored"))}, 1)
		}
	}

	// ---------- R03.8 the controller runtime's cached ContextWithTeardown (same obligations as C15 R15.6)
	c.Import(runC15, "R15.6", "", "R03.8", "E1", "cached ContextWithTeardown: a waiter channel is closed on TearingDown put / any remove, deleted only together with its close, never removed by one of the callers sharing it; immediate cancel when absent or tearing down", 9)

	// ---------- R03.9 (shared with C19 R19.3)
	c.Import(runC19, "R19.3", "pkg/resource.Finalizers)", "R03.9", "E3", "Finalizers.Add/Remove write only to storage created in the same call: two parties adding finalizers to copies of one stored resource cannot overwrite each other's entry in a shared backing array (a finalizer that was acknowledged is still there when Teardown asks)", 2)

}

func detailSet(dst *string, v string) { *dst = v }

var _ = strings.Contains

// teardownRule (R03.6, shared with C04 R04.14): the Get+Update fallback of Teardown is a read-modify-write — it marks through
// UpdateWithConflicts with the caller's owner, and the ready flag it reports is computed from the value the committed update
// returned (not from the first Get, which a concurrent AddFinalizer may have overtaken).
func teardownRule(c *Ctx, rule string) {
	p := c.P
	if f := p.Method(pkgState, "coreWrapper", "Teardown"); c.NeedFunc(rule, f, gWTeardown) {
		raw := p.Calls(f, gUpdate)
		c.Check(len(raw) == 0, rule, FuncName(f)+" :: no raw Update", fpos(f), "none", "Teardown writes through a raw Update: concurrent changes are lost or the call fails spuriously")

		uw := p.Calls(f, gUWC)
		ok := len(uw) == 1
		d := ""

		if ok {
			elems, lit := VarargElems(CallArgs(uw[0])[4])
			ok = lit && len(elems) == 1 && Glob("call:pkg/state.WithUpdateOwner(*var:pkg/state.*Options.Owner)", p.Desc(elems[0]))
			d = p.ArgDesc(uw[0], 2)
			ok = ok && Glob("call:(pkg/resource.Resource).Metadata(call:"+gGet+"(param#0.CoreState,param#1,param#2,nil)#0)", d)
		}

		c.Check(ok, rule, FuncName(f)+" :: UpdateWithConflicts(current.Metadata(), …, WithUpdateOwner(options.Owner))", fpos(f), d, "target/options: "+d)

		td := p.ConstVal(pkgResource, "PhaseTearingDown")
		c.MustCut(rule, "UpdateWithConflicts ⊣ {phase(current) != TearingDown}", f, p.CallTo(gUWC),
			CutSpec{Edges: FactEdge("ne(call:(pkg/resource.Metadata).Phase(*call:(pkg/resource.Resource).Metadata(call:" + gGet + "(*)#0))," + td + ")")}, 1)

		if mut := StaticOrClosureCallee2First(uw, 3); c.NeedFunc(rule, mut, "Teardown mutator") {
			sp := p.Calls(mut, "(*pkg/resource.Metadata).SetPhase")
			c.Check(len(sp) == 1 && p.ArgDesc(sp[0], 1) == td && Glob("call:(pkg/resource.Resource).Metadata(param#0)", p.ArgDesc(sp[0], 0)), rule, FuncName(mut)+" :: SetPhase(TearingDown) on its argument", fpos(mut), "yes", "mutator does not set PhaseTearingDown on its argument")
		}

		// every success return yields Finalizers().Empty() of Metadata(X), X ∈ {value returned by the committed
		// update, current value}; a return that can only see the current value needs the already-tearing-down edge
		okR := true
		nR := 0
		alreadyTD := FactEdge("eq(call:(pkg/resource.Metadata).Phase(*call:(pkg/resource.Resource).Metadata(call:"+gGet+"(*)#0)),"+td+")",
			"true(assert["+pkgState+".Teardowner](param#0.CoreState)#1)")

		// X of a ready flag Finalizers().Empty() of Metadata(X); nil when the flag has another shape
		readyOf := func(v ssa.Value) (leaves []ssa.Value, ok bool) {
			r0 := Fwd(v)
			d := p.DescN(r0, 7)
			md := p.ProvenanceCall(r0, "(pkg/resource.Resource).Metadata", 6)

			if !Glob("call:(pkg/resource.Finalizers).Empty(*call:(*pkg/resource.Metadata).Finalizers(call:(pkg/resource.Resource).Metadata(*)))", d) || md == nil {
				return nil, false
			}

			return PhiLeaves(CallArgs(md)[0]), true
		}

		for _, r := range ReturnForms(f) {
			if !ReturnsNilConst(1)(r) {
				continue
			}

			if Glob("call:("+pkgState+".Teardowner).Teardown(*", p.Desc(Fwd(r.Results[0]))) {
				continue // delegated
			}

			nR++

			leaves, shape := readyOf(r.Results[0])
			if !shape {
				okR = false

				continue
			}

			for _, l := range leaves {
				ld := p.Desc(l)
				if !Glob("call:"+gUWC+"(*)#0", ld) && !Glob("call:"+gGet+"(*)#0", ld) {
					okR = false
				}
			}
		}

		// a success return whose flag can only see the value read before the update needs the
		// already-tearing-down edge (evaluated per path: joined results are resolved by E1)
		staleOnly := func(in ssa.Instruction) bool {
			r, ok := in.(*ssa.Return)
			if !ok || !ReturnsNilConst(1)(in) {
				return false
			}

			leaves, shape := readyOf(r.Results[0])
			if !shape || len(leaves) == 0 {
				return false
			}

			for _, l := range leaves {
				if Glob("call:"+gUWC+"(*)#0", p.Desc(l)) {
					return false
				}
			}

			return true
		}

		if bad, _ := p.Reach(Entry(f), staleOnly, CutSpec{Edges: alreadyTD}); bad {
			okR = false
		}

		c.Check(okR && nR >= 1, rule, FuncName(f)+" :: ready flag = Finalizers().Empty() of {value returned by the committed update | current value when already tearing down}", fpos(f), "yes", "ready flag is computed from another value")
		c.MustCut(rule, "ready flag ⊣ {UpdateWithConflicts err == nil, already tearing down}", f, ReturnsNilConst(1),
			CutSpec{Edges: FactEdge("nil(call:"+gUWC+"(*)#1)", "eq(call:(pkg/resource.Metadata).Phase(*call:(pkg/resource.Resource).Metadata(call:"+gGet+"(*)#0)),"+td+")",
				"true(assert["+pkgState+".Teardowner](param#0.CoreState)#1)")}, 1)
	}
}
