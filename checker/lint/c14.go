package lint

import (
	"fmt"
	"go/token"
	"go/types"
	"sort"
	"strings"

	"golang.org/x/tools/go/ssa"
)

func init() {
	register(&PropertyInfo{
		ID: "C14",
		Explanation: "R14.1: operator tables — Labels.matches handles every LabelOp; the client translator (LabelOp → wire operator) and the server translator (wire operator → constructor → LabelOp) are exhaustive and compose to the identity; Key, Value and Invert cross unchanged. " +
			"R14.2: one evaluator — LabelTerm.Op is interpreted only in pkg/resource (plus the two translators); collection.List, the WatchAll matcher and the cache list keep an item only through the true edges of BOTH IDQuery.Matches and LabelQueries.Matches applied to that item; bootstrap and live filtering use the same matcher closure. " +
			"R14.3: the Updated-event rewrite table of a filtered kind watch, row by row: (old,new) = (T,F)→Destroyed, (F,T)→Created, (T,T)→kept, (F,F)→dropped, with Old cleared on rewrite; Created/Destroyed kept iff the resource matches. " +
			"R14.4: combinators — queries: empty→true, any→true; query: empty→true, all terms; Labels.Matches: indeterminate → false regardless of Invert, else Invert negates; matches(): the only result that skips the label lookup is for the Exists operator, a missing label is indeterminate exactly for comparison operators, a value-less non-Exists term is false before term.Value is indexed, a non-numeric operand is indeterminate. " +
			"R14.5: a transparently re-established remote watch keeps its selectors (shared with C13 R13.1).",
		NotCovered:  "the algebra over all label maps and all histories of label changes; numeric parsing with unit suffixes (compare.GetNumbers) beyond 'failure is indeterminate'; regular-expression semantics.",
		Assumptions: []string{"state.EventType has exactly six values (checked in C15 R15.3)"},
		Run:         runC14,
	})
}

// opLiteralTable maps, for a function whose switch on *.Op builds literals/calls, switch constant -> description produced by row().
func switchRows(p *Program, f *ssa.Function, opGlob string, consts map[string]string, row func(start Loc) string) map[string]string {
	out := map[string]string{}

	for name, val := range consts {
		for _, loc := range p.EdgeSuccs(f, "eq("+opGlob+",const:"+val+")") {
			if r := row(loc); r != "" {
				out[name] = r
			}
		}
	}

	return out
}

func runC14(c *Ctx) {
	p := c.P
	labelOps := p.ConstsOfType(pkgResource, "LabelOp")
	wireOps := p.ConstsOfType(pkgAPI, "LabelTerm_Operation")
	opName := func(consts map[string]string, val string) string {
		for n, v := range consts {
			if v == val {
				return n
			}
		}

		return "?" + val
	}

	// ---------- R14.1 operator tables
	c.Rule("R14.1", "E4", "LabelOp tables: matches() exhaustive; client→wire→server→LabelOp is the identity; Key/Value/Invert cross", 12)

	if len(labelOps) != 7 {
		c.Bad("R14.1", "resource.LabelOp has the seven known operators", 0, fmt.Sprintf("%d operators: the tables below must be re-derived", len(labelOps)))
	}

	if f := p.Method(pkgResource, "Labels", "matches"); c.NeedFunc("R14.1", f, "Labels.matches") {
		handled := map[string]bool{}

		for name, val := range labelOps {
			starts := p.EdgeSuccs(f, "eq(*.Op,const:"+val+")")
			if len(starts) == 0 {
				continue
			}

			// seed the path knowledge with the case that was entered
			// the case body returns (does not fall into the default panic); Op is a by-value parameter field, never written
			if bad, _ := p.Reach(starts, func(in ssa.Instruction) bool { _, ok := in.(*ssa.Panic); return ok && in.Pos().IsValid() }, CutSpec{TrackEq: true}); !bad {
				handled[name] = true
			}
		}

		c.Check(len(handled) == len(labelOps), "R14.1", "Labels.matches :: every LabelOp has a case that returns", fpos(f), joinSorted(handled), "handled only "+joinSorted(handled))
	}

	// client: LabelOp -> wire op (Op field of the LabelTerm literal built in that case)
	cliTab := map[string]string{}

	if f := p.Func(pkgClient, "transformLabelQuery"); c.NeedFunc("R14.1", f, "client.transformLabelQuery") {
		// (independent of where the LabelTerm literal is built: what counts is the Op / Key / Value / Invert in effect
		// when the term is appended to the wire query)
		opStore := StoreToField("LabelTerm", "Op")
		sink := func(in ssa.Instruction) bool {
			call, ok := in.(*ssa.Call)

			return ok && p.CalleeName(call) == "builtin.append" && Glob("*.Terms", p.ArgDesc(call, 0))
		}
		fieldFrom := func(fld string) InstrPred {
			return func(in ssa.Instruction) bool {
				return StoreToField("LabelTerm", fld)(in) && Glob("*."+fld, p.Desc(in.(*ssa.Store).Val))
			}
		}

		cliTab = p.CaseFieldTable(f, func(v string) string { return "eq(*.Op,const:" + v + ")" }, labelOps, wireOps,
			func(val string) InstrPred {
				return func(in ssa.Instruction) bool { return opStore(in) && p.Desc(in.(*ssa.Store).Val) == "const:"+val }
			}, opStore, sink, "0")

		for name, val := range labelOps {
			if _, ok := cliTab[name]; !ok {
				continue
			}

			starts := p.EdgeSuccs(f, "eq(*.Op,const:"+val+")")
			okF := true

			for _, fld := range []string{"Key", "Invert"} {
				if bad, _ := p.Reach(Entry(f), sink, CutSpec{Nodes: fieldFrom(fld)}); bad {
					okF = false
				}
			}

			if name != "LabelOpExists" {
				if bad, _ := p.Reach(starts, sink, CutSpec{Nodes: fieldFrom("Value"), TrackEq: true}); bad {
					okF = false
				}
			}

			c.Check(okF, "R14.1", "client.transformLabelQuery :: "+name+" carries Key, Value and Invert of the term", fpos(f), "yes", "the appended wire term does not carry the term's Key / Value / Invert on every path")
		}

		c.Check(len(cliTab) == len(labelOps), "R14.1", "client.transformLabelQuery :: exhaustive over LabelOp", fpos(f), fmt.Sprintf("%d rows", len(cliTab)), fmt.Sprintf("%d of %d operators translated", len(cliTab), len(labelOps)))
	}

	// constructors: resource.LabelX -> LabelOp set in the term literal of its closure
	ctorOp := map[string]string{}

	for _, f := range p.PkgFuncs(pkgResource) {
		if f.Parent() != nil || !strings.HasPrefix(f.Name(), "Label") || f.Signature.Results().Len() != 1 || !strings.HasSuffix(f.Signature.Results().At(0).Type().String(), "LabelQueryOption") {
			continue
		}

		for _, g := range AllClosures(f) {
			for _, in := range Find(g, StoreToField("LabelTerm", "Op")) {
				// (a constant, possibly handed through a shared constructor helper and captured by the option literal)
				ctorOp[f.Name()] = strings.TrimPrefix(strings.ReplaceAll(p.Desc(in.(*ssa.Store).Val), "free:", ""), "const:")
			}

			if _, ok := ctorOp[f.Name()]; !ok {
				for _, in := range Find(g, func(in ssa.Instruction) bool {
					al, ok := in.(*ssa.Alloc)
					return ok && strings.HasSuffix(al.Type().String(), "LabelTerm")
				}) {
					_ = in
					ctorOp[f.Name()] = "0" // Op left at its zero value (LabelOpExists)
				}
			}
		}
	}

	// server: wire op -> constructor called in that case
	srvTab := map[string]string{}
	srvInvertOK := true

	if f := p.Func(pkgServer, "ConvertLabelQuery"); c.NeedFunc("R14.1", f, "server.ConvertLabelQuery") {
		for _, call := range p.Calls(f, "pkg/resource.Label*") {
			ctor := call.Common().StaticCallee().Name()

			for wname, wval := range wireOps {
				if bad, _ := p.Reach(Entry(f), func(i ssa.Instruction) bool { return i == call.(ssa.Instruction) }, CutSpec{Edges: FactEdge("eq(*.Op,const:" + wval + ")")}); !bad {
					// keep the row of the construction switch (the call), not of the earlier value-presence switch
					srvTab[wname] = ctor

					if !Glob("*.Key", p.ArgDesc(call, 0)) {
						srvInvertOK = false
					}
				}
			}
		}

		c.Check(srvInvertOK, "R14.1", "server.ConvertLabelQuery :: constructors receive the wire term's Key", fpos(f), "yes", "a constructor is called with another key")
		// Invert -> NotMatches option
		c.MustCut("R14.1", "opts = append(opts, NotMatches) ⊣ {term.Invert}", f, func(in ssa.Instruction) bool {
			call, ok := in.(*ssa.Call)

			return ok && p.CalleeName(call) == "builtin.append" && strings.Contains(p.Desc(call.Call.Args[0]), "phi(") == false && len(call.Call.Args) == 2 && strings.Contains(p.DescN(call.Call.Args[1], 3), "slice(") && Glob("nil", p.Desc(call.Call.Args[0]))
		}, CutSpec{Edges: FactEdge("true(*.Invert)")}, 0)
	}

	// composition
	var bad []string

	for name, val := range labelOps {
		w, ok := cliTab[name]
		if !ok {
			bad = append(bad, name+": no client row")

			continue
		}

		wname := opName(wireOps, w)
		ctor, ok := srvTab[wname]

		if !ok {
			bad = append(bad, name+" → "+wname+": no server row")

			continue
		}

		if ctorOp[ctor] != val {
			bad = append(bad, fmt.Sprintf("%s → %s → %s → LabelOp %s", name, wname, ctor, opName(labelOps, ctorOp[ctor])))
		}
	}

	sort.Strings(bad)
	c.Check(len(bad) == 0 && len(cliTab) == 7, "R14.1", "operator round trip: server(client(op)) == op for every LabelOp", 0, fmt.Sprintf("%d rows", len(cliTab)), strings.Join(bad, "; "))

	// deprecated NOT_EXISTS ↦ Exists + NotMatches
	if ctor, ok := srvTab["LabelTerm_NOT_EXISTS"]; ok {
		c.Check(ctor == "LabelExists", "R14.1", "server: NOT_EXISTS ↦ LabelExists(key, NotMatches)", 0, ctor, "NOT_EXISTS maps to "+ctor)
	}

	// ---------- R14.2 one evaluator
	c.Rule("R14.2", "E5", "LabelTerm.Op interpreted only in pkg/resource (+translators); List / WatchAll / cache list keep an item only via IDQuery.Matches ∧ LabelQueries.Matches on that item", 6)

	nOp := 0

	for _, f := range p.AllOwnFuncs() {
		for _, in := range Find(f, func(ssa.Instruction) bool { return true }) {
			var x ssa.Value

			var idx int

			switch fa := in.(type) {
			case *ssa.FieldAddr:
				x, idx = fa.X, fa.Field
			case *ssa.Field:
				x, idx = fa.X, fa.Field
			default:
				continue
			}

			sn, fld := FieldOf(x, idx)
			if sn != "LabelTerm" || fld != "Op" {
				continue
			}

			t := x.Type()
			if pt, ok := t.(*types.Pointer); ok {
				t = pt.Elem()
			}

			if n, ok := t.(*types.Named); !ok || n.Obj().Pkg() == nil || !strings.HasSuffix(n.Obj().Pkg().Path(), pkgResource) {
				continue
			}

			nOp++
			pk := ""

			if f.Package() != nil {
				pk = strings.TrimPrefix(f.Package().Pkg.Path(), Mod)
			}

			if strings.Contains(pk, "conformance") {
				continue // test-support suites build terms for assertions
			}

			if !(pk == pkgResource || pk == pkgClient) {
				c.Bad("R14.2", FuncName(f)+" :: interprets LabelTerm.Op outside pkg/resource", in.Pos(), "a second selector evaluator: direct, cached and remote evaluation can diverge")
			}
		}
	}

	c.Check(nOp >= 8, "R14.2", "LabelTerm.Op access sites are confined to pkg/resource and the client translator", 0, fmt.Sprintf("%d sites", nOp), fmt.Sprintf("only %d sites found", nOp))

	idm := "call:(pkg/resource.IDQuery).Matches("
	lqm := "call:(pkg/resource.LabelQueries).Matches("

	if f := p.Method(pkgInmem, "ResourceCollection", "List"); c.NeedFunc("R14.2", f, collT+".List") {
		keep := func(in ssa.Instruction) bool {
			call, ok := in.(*ssa.Call)

			return ok && p.CalleeName(call) == "builtin.append"
		}
		res := "next(range(*param#0.storage))#2"
		c.MustCut("R14.2", "List keeps an item ⊣ {IDQuery.Matches(item)}", f, keep, CutSpec{Edges: FactEdge("true(" + idm + "*param#1.IDQuery,*call:(pkg/resource.Resource).Metadata(" + res + ")))")}, 1)
		c.MustCut("R14.2", "List keeps an item ⊣ {LabelQueries.Matches(item labels)}", f, keep, CutSpec{Edges: FactEdge("true(" + lqm + "*param#1.LabelQueries,*call:(*pkg/resource.Metadata).Labels(call:(pkg/resource.Resource).Metadata(next(*")}, 1)

		for _, in := range Find(f, keep) {
			elems, _ := VarargElems(in.(*ssa.Call).Call.Args[1])
			ok := len(elems) == 1 && Glob("call:"+gDeepCopy+"("+res+")", p.Desc(elems[0]))
			c.Check(ok, "R14.2", "List appends (a copy of) the item that was tested", in.Pos(), "yes", "appends another value")
		}
	}

	checkMatcher := func(g *ssa.Function, what, idq, lq string) {
		if !c.NeedFunc("R14.2", g, what) {
			return
		}

		ids := p.Calls(g, "(pkg/resource.IDQuery).Matches")
		lqs := p.Calls(g, "(pkg/resource.LabelQueries).Matches")
		ok := len(ids) == 1 && len(lqs) == 1 &&
			Glob(idq, p.ArgDesc(ids[0], 0)) && Glob("*call:(pkg/resource.Resource).Metadata(param#0)", p.ArgDesc(ids[0], 1)) &&
			Glob(lq, p.ArgDesc(lqs[0], 0)) && Glob("*call:(*pkg/resource.Metadata).Labels(call:(pkg/resource.Resource).Metadata(param#0))", p.ArgDesc(lqs[0], 1))

		okRet := true

		for _, in := range Find(g, IsReturn) {
			d := p.DescN(in.(*ssa.Return).Results[0], 3)
			if !(Glob("phi(const:false|call:(pkg/resource.LabelQueries).Matches(*))", d) || Glob("phi(const:false|call:(pkg/resource.IDQuery).Matches(*))", d)) {
				okRet = false
			}
		}

		c.Check(ok && okRet, "R14.2", what+" :: result is IDQuery.Matches(item) && LabelQueries.Matches(item labels)", fpos(g), "conjunction on the same item", "matcher is not the conjunction of both predicates on its argument")
	}

	var matcher *ssa.Function

	if f := p.Method(pkgInmem, "ResourceCollection", "WatchAll"); c.NeedFunc("R14.2", f, collT+".WatchAll") {
		matcher = ClosureWith(f, p.CallTo("(pkg/resource.LabelQueries).Matches"))
		checkMatcher(matcher, "WatchAll matcher closure", "*free:var:pkg/state.*Options.IDQuery", "*free:var:pkg/state.*Options.LabelQueries")

		// every filtering decision in WatchAll (bootstrap list and live events) calls that closure
		n := 0

		for _, g := range append([]*ssa.Function{f}, AllClosures(f)...) {
			if g == matcher {
				continue
			}

			for _, call := range p.Calls(g, "(pkg/resource.IDQuery).Matches", "(pkg/resource.LabelQueries).Matches") {
				c.Bad("R14.2", FuncName(g)+" :: filters with its own predicate instead of the shared matcher", call.Pos(), "bootstrap and live filtering can disagree")
			}

			for _, in := range Find(g, func(in ssa.Instruction) bool {
				call, ok := in.(*ssa.Call)

				return ok && StaticOrClosureCallee(call) == matcher || ok && matcher != nil && strings.HasSuffix(p.CalleeName(call), "closure:"+FuncName(matcher))
			}) {
				_ = in
				n++
			}
		}

		c.Check(n >= 4, "R14.2", FuncName(f)+" :: bootstrap and live filtering both go through the one matcher closure", fpos(f), fmt.Sprintf("%d call sites", n), fmt.Sprintf("%d call sites of the matcher", n))
		// bootstrap list keeps only matching items
		c.MustCut("R14.2", "bootstrapList append ⊣ {matches(item)}", f, func(in ssa.Instruction) bool {
			call, ok := in.(*ssa.Call)

			return ok && p.CalleeName(call) == "builtin.append" && Glob("*var:[]pkg/resource.Resource*", p.Desc(call.Call.Args[0]))
		}, CutSpec{Edges: func(e EdgeInfo) bool {
			// the matcher literal called as such, or (handed to a snapshot helper and inlined there) its two predicates
			return AnyFact(e, func(f string) bool {
				return strings.HasPrefix(f, "true(call:") && (strings.Contains(f, "WatchAll$") || strings.Contains(f, "Matches(") && (strings.Contains(f, "IDQuery") || strings.Contains(f, "LabelQueries")))
			})
		}}, 1)
	}

	if f := p.Method(pkgCache, "cacheHandler", "list"); c.NeedFunc("R14.2", f, handlerT+".list") {
		g := ClosureWith(f, p.CallTo("(pkg/resource.LabelQueries).Matches"))
		checkMatcher(g, "cache list filter closure", "*free:var:pkg/state.*Options.IDQuery", "*free:var:pkg/state.*Options.LabelQueries")

		fl := p.Calls(f, "github.com/siderolabs/gen/xslices.Filter")
		c.Check(len(fl) == 1 && StaticOrClosureCallee2(fl[0], 1) == g, "R14.2", FuncName(f)+" :: the filter closure is what xslices.Filter applies", fpos(f), "yes", "filter uses another predicate")
	}

	// ---------- R14.3 rewrite table
	c.Rule("R14.3", "E7", "filtered kind watch: Updated (T,F)→Destroyed, (F,T)→Created, (T,T)→kept, (F,F)→dropped; Old cleared on rewrite; Created/Destroyed kept iff matching", 9)

	if f := p.Method(pkgInmem, "ResourceCollection", "WatchAll"); f != nil && matcher != nil {
		var fc *ssa.Function

		for _, g := range AllClosures(f) {
			if len(Find(g, StoreToField("Event", "Old"))) > 0 && g.Signature.Results().Len() == 1 {
				fc = g
			}
		}

		if c.NeedFunc("R14.3", fc, "WatchAll event filter closure") {
			mOld := "call:dyn:free:closure:" + FuncName(matcher) + "(*param#0.Old)"
			mNew := "call:dyn:free:closure:" + FuncName(matcher) + "(*param#0.Resource)"
			evC := func(n string) string { return p.ConstVal(pkgState, n) }
			setType := func(k string) InstrPred {
				return func(in ssa.Instruction) bool {
					return StoreToField("Event", "Type")(in) && p.Desc(in.(*ssa.Store).Val) == k
				}
			}
			clearOld := func(in ssa.Instruction) bool {
				return StoreToField("Event", "Old")(in) && isNilConst(Fwd(in.(*ssa.Store).Val))
			}
			upd := FactEdge("eq(*param#0.Type," + evC("Updated") + ")")

			c.mustCutEach("R14.3", "Type = Destroyed", fc, setType(evC("Destroyed")), 1, map[string]EdgePred{
				"event is Updated": upd, "old matched": FactEdge("true(" + mOld + ")"), "new does not match": FactEdge("false(" + mNew + ")"),
			})
			c.mustCutEach("R14.3", "Type = Created", fc, setType(evC("Created")), 1, map[string]EdgePred{
				"event is Updated": upd, "old did not match": FactEdge("false(" + mOld + ")"), "new matches": FactEdge("true(" + mNew + ")"),
			})
			c.MustFollow("R14.3", "after a type rewrite Old is cleared before returning", fc, OrInstr(setType(evC("Destroyed")), setType(evC("Created"))), IsReturn, CutSpec{Nodes: clearOld}, 2)
			c.MustFollow("R14.3", "a rewritten event is kept (return true)", fc, clearOld, p.RetIs(0, "const:false"), CutSpec{}, 1)

			// Updated ∧ (F,F) → false ; Updated ∧ (T,T) → true (unchanged)
			c.NoReach("R14.3", "Updated (F,F) is dropped", fc, p.EdgeSuccs(fc, "eq(*param#0.Type,"+evC("Updated")+")"), 1, p.RetIs(0, "const:true"),
				CutSpec{Edges: FactEdge("true("+mOld+")", "true("+mNew+")")})
			c.NoReach("R14.3", "Updated (T,T) is kept", fc, p.EdgeSuccs(fc, "eq(*param#0.Type,"+evC("Updated")+")"), 1, p.RetIs(0, "const:false"),
				CutSpec{Edges: FactEdge("false("+mOld+")", "false("+mNew+")")})
			c.NoReach("R14.3", "Updated (T,T) is not rewritten", fc, p.EdgeSuccs(fc, "eq(*param#0.Type,"+evC("Updated")+")"), 1, StoreToField("Event", "Type"),
				CutSpec{Edges: FactEdge("false("+mOld+")", "false("+mNew+")")})

			// Created / Destroyed: result is matches(event.Resource)
			for _, t := range []string{"Created", "Destroyed"} {
				starts := p.EdgeSuccs(fc, "eq(*param#0.Type,"+evC(t)+")")
				bad, w := p.Reach(starts, func(in ssa.Instruction) bool {
					r, ok := in.(*ssa.Return)

					return ok && IsReturn(in) && p.Desc(r.Results[0]) != mNew
				}, CutSpec{})
				c.Check(len(starts) > 0 && !bad, "R14.3", FuncName(fc)+" :: "+t+" events are kept iff the resource matches", fpos(fc), "return matches(event.Resource)", "other result: "+strings.Join(w, " "))
			}
		}
	}

	// ---------- R14.4 combinators
	c.Rule("R14.4", "E1", "query combinators and Labels.Matches/matches edge cases", 12)

	if f := p.Method(pkgResource, "LabelQueries", "Matches"); c.NeedFunc("R14.4", f, "LabelQueries.Matches") {
		c.MustCut("R14.4", "LabelQueries: return true ⊣ {no queries, some query matches}", f, p.RetIs(0, "const:true"),
			CutSpec{Edges: FactEdge("eq(call:builtin.len(param#0),const:0)", "true(call:(pkg/resource.LabelQuery).Matches(*,param#1))", "true(call:(pkg/resource.LabelQuery).Matches(*,free:param#1))")}, 1)
		c.NoReach("R14.4", "LabelQueries: a matching query ends with true", f, p.EdgeSuccs(f, "true(call:(pkg/resource.LabelQuery).Matches(*"), 1, p.RetIs(0, "const:false"), CutSpec{})
	}

	if f := p.Method(pkgResource, "LabelQuery", "Matches"); c.NeedFunc("R14.4", f, "LabelQuery.Matches") {
		c.MustCut("R14.4", "LabelQuery: return false ⊣ {some term does not match}", f, p.RetIs(0, "const:false"), CutSpec{Edges: FactEdge("false(call:(pkg/resource.Labels).Matches(param#1,*))")}, 1)
		c.NoReach("R14.4", "LabelQuery: a failing term ends with false", f, p.EdgeSuccs(f, "false(call:(pkg/resource.Labels).Matches(param#1,*"), 1, p.RetIs(0, "const:true"), CutSpec{})

		calls := p.Calls(f, "(pkg/resource.Labels).Matches")
		c.Check(len(calls) == 1 && p.ArgDesc(calls[0], 0) == "param#1", "R14.4", "LabelQuery: every term is evaluated against the given labels", fpos(f), "yes", "terms evaluated against something else")
	}

	if f := p.Method(pkgResource, "Labels", "Matches"); c.NeedFunc("R14.4", f, "Labels.Matches") {
		m := "call:(pkg/resource.Labels).matches(param#0,param#1)"
		c.NoReach("R14.4", "Labels.Matches: indeterminate is false regardless of Invert", f, p.EdgeSuccs(f, "nil("+m+")"), 1, func(in ssa.Instruction) bool {
			r, ok := in.(*ssa.Return)

			return ok && IsReturn(in) && p.Desc(r.Results[0]) != "const:false"
		}, CutSpec{})
		// accepted forms: `if term.Invert { return !*m }; return *m` and `return *m != term.Invert`
		xor := Find(f, func(in ssa.Instruction) bool {
			r, ok := in.(*ssa.Return)
			if !ok || !IsReturn(in) {
				return false
			}

			d := p.Desc(r.Results[0])

			return Glob("(*"+m+"!=*.Invert)", d) || Glob("(*.Invert!=*"+m+")", d)
		})

		if len(xor) > 0 {
			c.OK("R14.4", FuncName(f)+" :: Labels.Matches: negated result ⊣ {term.Invert}", xor[0].Pos(), "result is *m != term.Invert")
			c.OK("R14.4", FuncName(f)+" :: Labels.Matches: plain result ⊣ {!term.Invert}", xor[0].Pos(), "result is *m != term.Invert")
		} else {
			c.MustCut("R14.4", "Labels.Matches: negated result ⊣ {term.Invert}", f, func(in ssa.Instruction) bool {
				r, ok := in.(*ssa.Return)

				return ok && IsReturn(in) && p.Desc(r.Results[0]) == "!*"+m
			}, CutSpec{Edges: FactEdge("true(*.Invert)")}, 1)
			c.MustCut("R14.4", "Labels.Matches: plain result ⊣ {!term.Invert}", f, func(in ssa.Instruction) bool {
				r, ok := in.(*ssa.Return)

				return ok && IsReturn(in) && p.Desc(r.Results[0]) == "*"+m
			}, CutSpec{Edges: FactEdge("false(*.Invert)")}, 1)
		}

		// no other definite result: every return is false (indeterminate), *m, !*m or the xor form
		okForms := true

		for _, in := range Find(f, IsReturn) {
			d := p.Desc(in.(*ssa.Return).Results[0])
			if !(d == "const:false" || d == "*"+m || d == "!*"+m || Glob("(*"+m+"!=*.Invert)", d) || Glob("(*.Invert!=*"+m+")", d)) {
				okForms = false
			}
		}

		c.Check(okForms, "R14.4", FuncName(f)+" :: Labels.Matches: results are false, *m, !*m or *m != Invert", fpos(f), "yes", "another result form")
	}

	if f := p.Method(pkgResource, "Labels", "matches"); f != nil {
		get := p.CallTo("(*"+pkgKV+".KV).Get", "(pkg/resource.Labels).Get", "(*pkg/resource.Labels).Get")
		exists := p.ConstVal(pkgResource, "LabelOpExists")

		c.MustCut("R14.4", "matches: a result that skips the label lookup ⊣ {Op == Exists}", f, IsReturn, CutSpec{Nodes: get, Edges: FactEdge("eq(*.Op," + exists + ")")}, 1)

		missing := p.EdgeSuccs(f, "false(call:*.Get(*)#1)")
		c.NoReach("R14.4", "matches: missing label + comparison operator is indeterminate (nil)", f, p.EdgeSuccs(f, "true(call:(pkg/resource.LabelOp).isComparison(*.Op))"), 1, ReturnsNonNil(0), CutSpec{Nodes: get})
		c.NoReach("R14.4", "matches: missing label + other operator is a definite result", f, p.EdgeSuccs(f, "false(call:(pkg/resource.LabelOp).isComparison(*.Op))"), 1, ReturnsNilConst(0), CutSpec{Nodes: get})
		c.Check(len(missing) >= 1, "R14.4", "matches: the missing-label case is distinguished", fpos(f), "yes", "no test of the lookup's ok result")

		// index term.Value[0] behind a length guard
		n := 0

		for _, in := range Find(f, func(in ssa.Instruction) bool { _, ok := in.(*ssa.IndexAddr); return ok }) {
			ia := in.(*ssa.IndexAddr)
			if !Glob("*.Value", p.Desc(ia.X)) {
				continue
			}

			n++
			base := ia.X
			al := []Alias{{Name: "L", Match: func(v ssa.Value) bool {
				call, _ := CallOf(v)

				return call != nil && p.CalleeName(call) == "builtin.len" && p.Desc(CallArgs(call)[0]) == p.Desc(base)
			}}}

			bad, w := p.Reach(Entry(f), func(i ssa.Instruction) bool { return i == in }, CutSpec{Edges: p.LinEdge(al, "ne:+1*L", "le:-1*L+1"), TrackEq: true})
			c.Check(!bad, "R14.4", "matches: term.Value[0] behind len(term.Value) != 0", in.Pos(), "guarded", "a value-less term panics: "+strings.Join(w, " "))
		}

		if n == 0 {
			c.Unknown("R14.4", "matches: term.Value[0] sites", fpos(f), "anchor-unresolved: no index into term.Value")
		}

		c.NoReach("R14.4", "matches: non-numeric operand is indeterminate", f, p.EdgeSuccs(f, "false(call:pkg/resource/internal/compare.GetNumbers(*)#2)"), 1, ReturnsNonNil(0), CutSpec{})
	}

	if f := p.Method(pkgResource, "LabelOp", "isComparison"); c.NeedFunc("R14.4", f, "LabelOp.isComparison") {
		want := map[string]bool{"LabelOpLT": true, "LabelOpLTE": true, "LabelOpLTNumeric": true, "LabelOpLTENumeric": true}
		got := map[string]bool{}

		for name, val := range labelOps {
			starts := p.EdgeSuccs(f, "eq(param#0,const:"+val+")")
			if len(starts) == 0 {
				continue
			}

			if bad, _ := p.Reach(starts, p.RetIs(0, "const:false"), CutSpec{}); !bad {
				got[name] = true
			}
		}

		c.Check(joinSorted(got) == joinSorted(want), "R14.4", "isComparison is true exactly for LT/LTE/LTNumeric/LTENumeric", fpos(f), joinSorted(got), "comparison set is {"+joinSorted(got)+"}")
	}

	if f := p.Method(pkgResource, "IDQuery", "Matches"); c.NeedFunc("R14.4", f, "IDQuery.Matches") {
		c.MustCut("R14.4", "IDQuery: MatchString ⊣ {regexp set}", f, p.CallTo("(*regexp.Regexp).MatchString"), CutSpec{Edges: FactEdge("nonnil(*.Regexp)")}, 1)
		c.MustCut("R14.4", "IDQuery: return true (no decision) ⊣ {no regexp}", f, p.RetIs(0, "const:true"), CutSpec{Edges: FactEdge("nil(*.Regexp)")}, 1)

		ms := p.Calls(f, "(*regexp.Regexp).MatchString")
		c.Check(len(ms) == 1 && Glob("call:(pkg/resource.Metadata).ID(param#1)", p.ArgDesc(ms[0], 1)), "R14.4", "IDQuery matches the resource ID", fpos(f), "yes", "regexp applied to something else")
	}

	// ---------- R14.5 resume keeps selectors
	c.Rule("R14.5", "E3", "a re-established remote watch keeps its label/ID queries (shared with C13 R13.1)", 4)
	resumeRequestRule(c, "R14.5")

	// ---------- R14.6 (shared with C11 R11.10)
	c.Rule("R14.6", "E3", "query converters build each term from that term only (shared with C11 R11.10): the selector that arrives at the wrapped state is the selector the caller wrote", 2)
	perTermRules(c, "R14.6")

	// ---------- R14.9 List and Watch option constructors agree on what a query is
	c.Rule("R14.9", "E5", "pkg/state label-query option constructors (WithLabelQuery for List, WatchWithLabelQuery for kind watches): the returned option appends its query to LabelQueries on every path — a query without terms matches everything and queries are OR-ed, so dropping it in one sibling only makes the watch of [{}, {app==web}] narrower than the List of the same selectors", 2)

	{
		n := 0

		for _, f := range p.PkgFuncs(pkgState) {
			if f.Parent() != nil || !strings.Contains(f.Name(), "LabelQuery") || len(f.AnonFuncs) == 0 || f.Signature.Recv() != nil {
				continue
			}

			for _, cl := range f.AnonFuncs {
				st := StoreToField("", "LabelQueries")
				if len(Find(cl, st)) == 0 {
					continue
				}

				n++

				bad, w := p.Reach(Entry(cl), IsReturn, CutSpec{Nodes: st})
				c.Check(!bad, "R14.9", FuncName(f)+" :: the option always appends its query", fpos(f), "every path through the option stores LabelQueries", "the option can return without adding its query: "+strings.Join(w, " "))
			}
		}

		if n < 2 {
			c.Unknown("R14.9", pkgState+" :: label-query option constructors", token.NoPos, fmt.Sprintf("anchor-unresolved: expected >= 2 constructors whose option stores LabelQueries, found %d", n))
		}
	}

	// ---------- R14.7 the ID selector has one interpreter too
	c.Rule("R14.7", "E5", "IDQuery.Regexp is read only in pkg/resource (Matches) and by the client translator (String): nobody derives a second, cheaper selector from the expression; the cached list filters a copy of the whole resource slice", 2)

	nRe := 0

	for _, f := range p.AllOwnFuncs() {
		pk := pkgOfFunc(f)
		if strings.Contains(pk, "conformance") {
			continue
		}

		for _, in := range Find(f, func(ssa.Instruction) bool { return true }) {
			var (
				x   ssa.Value
				idx int
			)

			switch fa := in.(type) {
			case *ssa.FieldAddr:
				x, idx = fa.X, fa.Field
			case *ssa.Field:
				x, idx = fa.X, fa.Field
			default:
				continue
			}

			sn, fld := FieldOf(x, idx)
			if sn != "IDQuery" || fld != "Regexp" {
				continue
			}

			t := x.Type()
			if pt, ok := t.(*types.Pointer); ok {
				t = pt.Elem()
			}

			if n, ok := t.(*types.Named); !ok || n.Obj().Pkg() == nil || !strings.HasSuffix(n.Obj().Pkg().Path(), pkgResource) {
				continue
			}

			// a store into the field (option constructor, server decoder building the query) is not an interpretation
			if fa, ok := in.(*ssa.FieldAddr); ok && onlyStoredTo(fa) {
				continue
			}

			nRe++

			if !(pk == pkgResource || pk == pkgClient) {
				c.Bad("R14.7", FuncName(f)+" :: reads IDQuery.Regexp outside pkg/resource", in.Pos(), "a second interpretation of the ID selector: direct, cached and remote evaluation can diverge")
			}
		}
	}

	c.Check(nRe >= 2, "R14.7", "IDQuery.Regexp read sites are confined to pkg/resource and the client translator", 0, fmt.Sprintf("%d sites", nRe), fmt.Sprintf("only %d sites found", nRe))

	if f := p.Method(pkgCache, "cacheHandler", "list"); c.NeedFunc("R14.7", f, handlerT+".list") {
		fl := p.Calls(f, "github.com/siderolabs/gen/xslices.Filter")
		ok := len(fl) == 1

		// the filtered slice is the whole h.resources: copied (Clone / append), never re-sliced or pre-selected
		var whole func(v ssa.Value, d int) bool

		whole = func(v ssa.Value, d int) bool {
			v = Fwd(v)
			if d > 8 {
				return false
			}

			if isNilConst(v) || LoadsField(v, "cacheHandler", "resources") {
				return true
			}

			switch x := v.(type) {
			case *ssa.Call:
				switch p.CalleeName(x) {
				case "slices.Clone":
					return whole(x.Call.Args[0], d+1)
				case "builtin.append":
					for _, a := range x.Call.Args {
						if !whole(a, d+1) {
							return false
						}
					}

					return true
				}
			case *ssa.Slice:
				return x.Low == nil && x.High == nil && x.Max == nil && whole(x.X, d+1)
			case *ssa.Phi:
				for _, e := range x.Edges {
					if !whole(e, d+1) {
						return false
					}
				}

				return true
			}

			return false
		}

		for _, call := range fl {
			ok = ok && whole(CallArgs(call)[0], 0)
		}

		c.Check(ok, "R14.7", FuncName(f)+" :: the selector is applied to a copy of the whole cache content", fpos(f), "Filter(copy of h.resources, matcher)", "the candidates are pre-selected by something other than the matcher")
	}

}

// onlyStoredTo: the field address is only the target of stores.
func onlyStoredTo(fa *ssa.FieldAddr) bool {
	if fa.Referrers() == nil || len(*fa.Referrers()) == 0 {
		return false
	}

	for _, r := range *fa.Referrers() {
		st, ok := r.(*ssa.Store)
		if !ok || st.Addr != ssa.Value(fa) {
			return false
		}
	}

	return true
}

// perTermRules: in the two label-query converters, no argument of a per-term constructor and no
// field of a per-term message is loop-carried.
func perTermRules(c *Ctx, rule string) {
	p := c.P

	if f := p.Func(pkgServer, "ConvertLabelQuery"); c.NeedFunc(rule, f, "server.ConvertLabelQuery") {
		n := 0
		bad := ""

		var pos token.Pos

		for _, call := range p.Calls(f, "pkg/resource.Label*") {
			n++

			for i, a := range CallArgs(call) {
				if carried, at := LoopCarried(a); carried {
					bad = fmt.Sprintf("argument %d of %s depends on the previous term through %s", i, p.CalleeName(call), p.DescN(at, 2))
					pos = call.Pos()
				}
			}
		}

		if n < 1 {
			c.Unknown(rule, FuncName(f)+" :: per-term constructors", fpos(f), fmt.Sprintf("anchor-unresolved: expected >= 1 term constructor call, found %d", n))
		} else {
			if pos == token.NoPos {
				pos = fpos(f)
			}

			c.Check(bad == "", rule, FuncName(f)+" :: every term constructor is called with values of the current term only", pos, fmt.Sprintf("%d constructor calls, none loop-carried", n), bad)
		}
	}

	if f := p.Func(pkgClient, "transformLabelQuery"); c.NeedFunc(rule, f, "client.transformLabelQuery") {
		n := 0
		bad := ""

		var pos token.Pos

		for _, in := range Find(f, func(in ssa.Instruction) bool {
			st, ok := in.(*ssa.Store)
			if !ok {
				return false
			}

			fa, ok := st.Addr.(*ssa.FieldAddr)
			if !ok {
				return false
			}

			sn, _ := FieldOf(fa.X, fa.Field)

			return sn == "LabelTerm"
		}) {
			n++

			if carried, at := LoopCarried(in.(*ssa.Store).Val); carried {
				bad = "a field of the wire term depends on the previous term through " + p.DescN(at, 2)
				pos = in.Pos()
			}
		}

		if n < 1 {
			c.Unknown(rule, FuncName(f)+" :: per-term message fields", fpos(f), fmt.Sprintf("anchor-unresolved: expected >= 1 store into LabelTerm fields, found %d", n))
		} else {
			if pos == token.NoPos {
				pos = fpos(f)
			}

			c.Check(bad == "", rule, FuncName(f)+" :: every wire term is filled from the current term only", pos, fmt.Sprintf("%d field stores, none loop-carried", n), bad)
		}
	}
}
