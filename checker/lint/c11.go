package lint

import (
	"fmt"
	"go/types"
	"sort"
	"strings"

	"golang.org/x/tools/go/ssa"
)

const (
	pkgServer = "pkg/state/protobuf/server"
	pkgClient = "pkg/state/protobuf/client"
	pkgAPI    = "api/v1alpha1"
	srvT      = "(*" + pkgServer + ".State)"
	cliT      = "(*" + pkgClient + ".Adapter)"
)

var grpcCodes = map[string]string{"3": "InvalidArgument", "5": "NotFound", "6": "AlreadyExists", "7": "PermissionDenied", "9": "FailedPrecondition", "12": "Unimplemented"}

// error classes: predicate -> required marker set of the client-side type
var classOf = map[string][]string{
	"IsNotFoundError":             {"NotFoundError"},
	"IsOwnerConflictError":        {"ConflictError", "OwnerConflictError"},
	"IsPhaseConflictError":        {"ConflictError", "PhaseConflictError"},
	"IsConflictError":             {"ConflictError"},
	"IsInvalidWatchBookmarkError": {"InvalidWatchBookmarkError"},
}

func init() {
	register(&PropertyInfo{
		ID: "C11",
		Explanation: "R11.1: for every RPC the server's table (error-class predicate → gRPC status code, extracted from the handler and the same-package helper it delegates to) and the client's table (status code → concrete error type with its class markers) compose to the identity on classes: every code the server can emit for a class is mapped back by the client of that RPC to a type of exactly that class, and no two classes share a code. " +
			"R11.2: the more specific owner/phase predicates are tested before the generic conflict predicate. " +
			"R11.3: panic-freedom on wire data — in the server package and the resource/protobuf decoding functions it calls, no field is selected through a possibly-absent sub-message without a dominating non-nil test of the same getter, no constant index into a request-derived slice without a dominating length guard, no unchecked type assertion, no explicit panic; generated getters are verified nil-safe. " +
			"R11.4: every option/request field the client sets is read by the server's handler of the same RPC. R11.5: each unary handler makes exactly one call on the wrapped state and forwards owner / expected phase (absent ⇒ any) / watch options; single vs kind watch is chosen by Id == nil. " +
			"R11.6: on success the client writes version, update time and owner from the response into the caller's object. R11.7: sticky fallback — the capability flag is stored before the fallback, a set flag skips the RPC, and the fallback view cannot recurse into the native method. " +
			"R11.8: server and client event-type tables are inverse and exhaustive; Resource, Old, Error and Bookmark cross in both directions.",
		NotCovered: "step-by-step observational equivalence on arbitrary operation sequences; gRPC/protobuf library behaviour; codecs of user resource specs; (query translation is C14's R14.1).",
		Assumptions: []string{
			"protobuf-go never yields nil elements in repeated message fields decoded from the wire",
			"a getter called twice on the same receiver inside one handler returns the same value (requests are not mutated by the server)",
		},
		Run: runC11,
	})
}

type srvRow struct {
	pred, code string
	pos        ssa.Instruction
}

// serverTable extracts (predicate, code) rows from f and the same-package helpers it passes an error to.
func serverTable(p *Program, f *ssa.Function) []srvRow {
	var rows []srvRow

	fs := []*ssa.Function{f}

	for _, call := range p.Calls(f, pkgServer+".*", srvT+".*") {
		if g := StaticOrClosureCallee(call); g != nil && g != f {
			for _, prm := range g.Params {
				if isErrorType(prm.Type()) {
					fs = append(fs, g)
				}
			}
		}
	}

	for _, g := range fs {
		for _, b := range g.Blocks {
			if len(b.Instrs) == 0 {
				continue
			}

			ifi, ok := b.Instrs[len(b.Instrs)-1].(*ssa.If)
			if !ok {
				continue
			}

			call, _ := CallOf(ifi.Cond)
			if call == nil {
				continue
			}

			cn := p.CalleeName(call)
			if !strings.HasPrefix(cn, "pkg/state.Is") || !strings.HasSuffix(cn, "Error") {
				continue
			}

			for _, in := range b.Succs[0].Instrs {
				if sc, ok := in.(*ssa.Call); ok {
					if n := p.CalleeName(sc); n == "google.golang.org/grpc/status.Error" || n == "google.golang.org/grpc/status.Errorf" {
						code := strings.TrimPrefix(p.Desc(sc.Call.Args[0]), "const:")
						rows = append(rows, srvRow{strings.TrimPrefix(cn, "pkg/state."), code, sc})
					}
				}
			}
		}
	}

	return rows
}

type cliRow struct {
	code    string
	typ     string
	markers []string
	special string
}

func markersOf(n *types.Named) []string {
	var ms []string

	for _, t := range []types.Type{n, types.NewPointer(n)} {
		mset := types.NewMethodSet(t)
		for i := range mset.Len() {
			name := mset.At(i).Obj().Name()
			if strings.HasSuffix(name, "Error") && name != "Error" && !contains(ms, name) {
				ms = append(ms, name)
			}
		}
	}

	sort.Strings(ms)

	return ms
}

func contains(s []string, x string) bool {
	for _, y := range s {
		if x == y {
			return true
		}
	}

	return false
}

// clientTable extracts code -> error type rows from f and its closures (and same-package helpers taking an error).
func clientTable(p *Program, f *ssa.Function) []cliRow {
	var rows []cliRow

	fs := append([]*ssa.Function{f}, AllClosures(f)...)

	for _, call := range p.Calls(f, pkgClient+".*", cliT+".*") {
		if g := StaticOrClosureCallee(call); g != nil && g != f {
			for _, prm := range g.Params {
				if isErrorType(prm.Type()) {
					fs = append(fs, g)
				}
			}
		}
	}

	for _, g := range fs {
		for _, b := range g.Blocks {
			if len(b.Instrs) == 0 {
				continue
			}

			ifi, ok := b.Instrs[len(b.Instrs)-1].(*ssa.If)
			if !ok {
				continue
			}

			bo, ok := ifi.Cond.(*ssa.BinOp)
			if !ok {
				continue
			}

			call, _ := CallOf(bo.X)
			if call == nil || p.CalleeName(call) != "google.golang.org/grpc/status.Code" {
				continue
			}

			row := cliRow{code: strings.TrimPrefix(p.Desc(bo.Y), "const:")}

			for _, in := range b.Succs[0].Instrs {
				switch x := in.(type) {
				case *ssa.MakeInterface:
					if n, ok := x.X.Type().(*types.Named); ok && n.Obj().Pkg() != nil && strings.HasSuffix(n.Obj().Pkg().Path(), pkgClient) {
						row.typ = n.Obj().Name()
						row.markers = markersOf(n)
					}
				case ssa.CallInstruction:
					if p.CalleeName(x) == "(*sync/atomic.Bool).Store" {
						row.special = "sticky-flag"
					}
				}
			}

			rows = append(rows, row)
		}
	}

	return rows
}

func runC11(c *Ctx) {
	p := c.P

	// ---------- R11.1 / R11.2 status tables
	c.Rule("R11.1", "E4", "server (class → code) and client (code → class) tables compose to the identity per RPC; codes are injective per RPC", 20)
	c.Rule("R11.2", "E1", "owner/phase predicates are tested before the generic conflict predicate", 5)

	rpcs := []struct {
		server  string
		clients []string
	}{
		{"Get", []string{"Get"}}, {"List", []string{"List"}}, {"Create", []string{"Create"}}, {"Update", []string{"Update"}}, {"Destroy", []string{"Destroy"}},
		{"Teardown", []string{"Teardown"}}, {"TeardownAndDestroy", []string{"TeardownAndDestroy"}},
		{"Watch", []string{"Watch", "WatchKind", "WatchKindAggregated", "watchAdapter"}},
	}

	for _, rpc := range rpcs {
		sf := p.Method(pkgServer, "State", rpc.server)
		if !c.NeedFunc("R11.1", sf, srvT+"."+rpc.server) {
			continue
		}

		srows := serverTable(p, sf)
		if len(srows) == 0 {
			c.Unknown("R11.1", "server "+rpc.server+" :: status table", fpos(sf), "anchor-unresolved: no (predicate → status code) row found")

			continue
		}

		byCode := map[string]string{}

		for _, r := range srows {
			if prev, dup := byCode[r.code]; dup && prev != r.pred {
				c.Bad("R11.1", "server "+rpc.server+" :: code "+grpcCodes[r.code]+" is emitted for one class only", r.pos.Pos(), prev+" and "+r.pred+" share a status code: the client cannot tell them apart")
			}

			byCode[r.code] = r.pred
		}

		for _, cm := range rpc.clients {
			cf := p.Method(pkgClient, "Adapter", cm)
			if !c.NeedFunc("R11.1", cf, cliT+"."+cm) {
				continue
			}

			crows := clientTable(p, cf)
			cmap := map[string]cliRow{}

			for _, r := range crows {
				cmap[r.code] = r
			}

			for _, sr := range srows {
				construct := fmt.Sprintf("%s: server %s → %s → client %s", rpc.server, sr.pred, grpcCodes[sr.code], cm)
				cr, ok := cmap[sr.code]

				switch {
				case !ok:
					c.Bad("R11.1", construct, sr.pos.Pos(), "the client has no row for status "+grpcCodes[sr.code]+": the "+sr.pred+" class reaches the caller as a raw status error")
				case strings.Join(cr.markers, ",") != strings.Join(classOf[sr.pred], ","):
					c.Bad("R11.1", construct, sr.pos.Pos(), fmt.Sprintf("client maps the code to %s with markers %v, expected exactly %v", cr.typ, cr.markers, classOf[sr.pred]))
				default:
					c.OK("R11.1", construct, sr.pos.Pos(), cr.typ)
				}
			}

			// no dangling client rows (a code the server never emits for this RPC), except the capability probe
			for _, cr := range crows {
				if cr.special == "sticky-flag" || cr.code == "12" {
					continue
				}

				if _, ok := byCode[cr.code]; !ok {
					c.Bad("R11.1", fmt.Sprintf("%s: client %s row %s has a server counterpart", rpc.server, cm, grpcCodes[cr.code]), fpos(cf), "the server never emits this code for this RPC: a server-side mapping was lost or renumbered")
				}
			}
		}

		// R11.2 order
		has := map[string]bool{}
		for _, r := range srows {
			has[r.pred] = true
		}

		if has["IsConflictError"] {
			for _, specific := range []string{"IsOwnerConflictError", "IsPhaseConflictError"} {
				if !has[specific] {
					continue
				}

				// the generic test is evaluated only on the false edge of the specific one
				fs := []*ssa.Function{sf}
				for _, call := range p.Calls(sf, pkgServer+".*", srvT+".*") {
					if g := StaticOrClosureCallee(call); g != nil {
						fs = append(fs, g)
					}
				}

				for _, g := range fs {
					if len(p.Calls(g, "pkg/state.IsConflictError")) == 0 {
						continue
					}

					c.MustCut("R11.2", rpc.server+": IsConflictError ⊣ {"+specific+" == false}", g, p.CallTo("pkg/state.IsConflictError"), CutSpec{Edges: FactEdge("false(call:pkg/state." + specific + "(*")}, 1)
				}
			}
		}
	}

	// ---------- R11.3 wire taint
	c.Rule("R11.3", "E3", "no selector through a possibly-absent sub-message, no unguarded constant index, no unchecked type assertion, no explicit panic on request-derived data; generated getters nil-safe", 4)
	wireSafety(c, "R11.3")

	// ---------- R11.4 option coverage
	c.Rule("R11.4", "E4", "fields the client sets in a request/options message are read by the server handler of that RPC", 7)
	optionCoverage(c, "R11.4")

	// ---------- R11.5 delegation
	c.Rule("R11.5", "E5", "unary handlers: exactly one call on the wrapped state, on the request's (namespace,type,id), with owner / expected phase forwarded", 14)
	serverDelegation(c, "R11.5")

	// ---------- R11.6 write-back
	c.Rule("R11.6", "E3", "client write-back: version, updated and owner from the response into the caller's object; Create/Update return it", 5)

	if f := p.Func(pkgClient, "updateResourceMetadata"); c.NeedFunc("R11.6", f, "updateResourceMetadata") {
		for setter, getter := range map[string]string{"SetVersion": "GetVersion", "SetUpdated": "GetUpdated", "SetOwner": "GetOwner"} {
			calls := p.Calls(f, "(*pkg/resource.Metadata)."+setter)
			ok := len(calls) == 1 && Glob("call:(pkg/resource.Resource).Metadata(param#1)", p.ArgDesc(calls[0], 0)) && strings.Contains(p.DescN(CallArgs(calls[0])[1], 7), "(*"+pkgAPI+".Metadata)."+getter+"(call:(*"+pkgAPI+".Resource).GetMetadata(param#0))")
			c.Check(ok, "R11.6", "updateResourceMetadata :: target."+setter+"(response."+getter+"())", fpos(f), "yes", "write-back of "+getter+" missing or from another source")
		}
	}

	for _, m := range []string{"Create", "Update"} {
		f := p.Method(pkgClient, "Adapter", m)
		if !c.NeedFunc("R11.6", f, cliT+"."+m) {
			continue
		}

		ok := false

		for _, in := range Find(f, IsReturn) {
			d := p.Desc(in.(*ssa.Return).Results[0])
			if Glob("call:"+pkgClient+".updateResourceMetadata(call:(*"+pkgAPI+".*Response).GetResource(*),param#2)", d) {
				ok = true
			}
		}

		c.Check(ok, "R11.6", FuncName(f)+" :: success path returns updateResourceMetadata(resp.GetResource(), <caller's object>)", fpos(f), "yes", "no write-back into the caller's object on success")
		c.MustCut("R11.6", "write-back ⊣ {RPC err == nil}", f, p.CallTo(pkgClient+".updateResourceMetadata"), CutSpec{Edges: FactEdge("nil(call:(" + pkgAPI + ".StateClient)." + m + "(*)#1)")}, 1)
	}

	// ---------- R11.7 sticky fallback
	c.Rule("R11.7", "E1", "Unimplemented ⇒ flag stored, then fallback; flag set ⇒ no RPC; the fallback view lacks the native methods", 8)

	for m, flag := range map[string]string{"Teardown": "teardownNotSupported", "TeardownAndDestroy": "teardownAndDestroyNotSupported"} {
		f := p.Method(pkgClient, "Adapter", m)
		if !c.NeedFunc("R11.7", f, cliT+"."+m) {
			continue
		}

		rpc := p.CallTo("(" + pkgAPI + ".StateClient)." + m)
		fb := p.CallTo(cliT + "." + strings.ToLower(m[:1]) + m[1:] + "Fallback")
		load := "call:(*sync/atomic.Bool).Load(param#0." + flag + ")"
		store := func(in ssa.Instruction) bool {
			call, ok := in.(*ssa.Call)

			return ok && p.CalleeName(call) == "(*sync/atomic.Bool).Store" && p.ArgDesc(call, 0) == "param#0."+flag && p.ArgDesc(call, 1) == "const:true"
		}

		c.MustCut("R11.7", "RPC ⊣ {flag not set}", f, rpc, CutSpec{Edges: FactEdge("false(" + load + ")")}, 1)
		c.MustCut("R11.7", "fallback ⊣ {flag set, flag stored after Unimplemented}", f, fb, CutSpec{Nodes: store, Edges: FactEdge("true(" + load + ")")}, 2)
		c.MustCut("R11.7", "flag stored ⊣ {status == Unimplemented}", f, store, CutSpec{Edges: FactEdge("eq(call:google.golang.org/grpc/status.Code(*),const:12)")}, 1)
		c.NoReach("R11.7", "after the flag was found set no RPC is made", f, p.EdgeSuccs(f, "true("+load+")"), 1, rpc, CutSpec{})
	}

	if view := p.Named(pkgClient, "adapterCoreView"); view != nil {
		for _, iface := range []string{"Teardowner", "TeardownAndDestroyer"} {
			in := p.Named(pkgState, iface)
			if in == nil {
				c.Unknown("R11.7", "anchor-unresolved: state."+iface, 0, "interface not found")

				continue
			}

			c.Check(!ImplementsIface(view, in.Underlying().(*types.Interface)), "R11.7", pkgClient+".adapterCoreView does not implement state."+iface, view.Obj().Pos(), "yes", "the fallback view exposes the native method: the fallback would recurse into the RPC")
		}
	} else {
		c.Unknown("R11.7", "anchor-unresolved: adapterCoreView", 0, "type not found")
	}

	// ---------- R11.9 transparent reconnect keeps the request
	c.Rule("R11.9", "E3", "a transparently re-established remote watch sends the same request (queries, API version, aggregation), only bootstrap/tail/bookmark differ (shared with C13 R13.1)", 4)
	resumeRequestRule(c, "R11.9")

	// ---------- R11.8 event tables
	c.Rule("R11.8", "E4", "event-type tables inverse and exhaustive; Resource/Old/Error/Bookmark cross in both directions", 6)
	eventTables(c, "R11.8")

	// ---------- R11.10 selector conversion is term by term
	c.Rule("R11.10", "E3", "query converters (server ConvertLabelQuery, client transformLabelQuery): what is built for one term depends on that term only — no slice, string or option list carried over from the previous term", 2)
	perTermRules(c, "R11.10")

	// ---------- error discipline (E8)
	errDisciplineFor(c, "C11")
}

// wireSafety: sink rules on server + resource/protobuf decoding functions.
func wireSafety(c *Ctx, rule string) {
	p := c.P

	isMsgPtr := func(t types.Type) bool {
		pt, ok := t.(*types.Pointer)
		if !ok {
			return false
		}

		n, ok := pt.Elem().(*types.Named)

		return ok && n.Obj().Pkg() != nil && strings.HasSuffix(n.Obj().Pkg().Path(), pkgAPI)
	}

	var fns []*ssa.Function

	fns = append(fns, p.PkgFuncs(pkgServer)...)

	for _, f := range p.PkgFuncs("pkg/resource/protobuf") {
		for _, prm := range f.Params {
			if isMsgPtr(prm.Type()) {
				fns = append(fns, f)

				break
			}
		}
	}

	nSel, nIdx := 0, 0

	for _, f := range fns {
		c.Touch(f)

		for _, b := range f.Blocks {
			for _, in := range b.Instrs {
				switch x := in.(type) {
				case *ssa.FieldAddr:
					// selector through the result of a getter that returns a (nilable) sub-message
					call, _ := CallOf(x.X)
					if call == nil || !isMsgPtr(x.X.Type()) {
						continue
					}

					cn := p.CalleeName(call)
					if !strings.HasPrefix(cn, "(*"+pkgAPI+".") || !strings.Contains(cn, ").Get") {
						continue
					}

					nSel++
					recv := p.Desc(CallArgs(call)[0])
					guard := "nonnil(call:" + cn + "(" + recv + "))"
					construct := FuncName(f) + " :: selector ." + fieldName(x.X, x.Field) + " through nilable " + strings.TrimPrefix(cn, "(*"+pkgAPI+".")

					bad, w := p.Reach(Entry(f), func(i ssa.Instruction) bool { return i == in }, CutSpec{Edges: FactEdge(guard)})
					if bad {
						c.Bad(rule, construct, x.Pos(), "reachable without "+guard+": a request that omits the sub-message crashes the server — "+strings.Join(w, " "))
					} else {
						c.OK(rule, construct, x.Pos(), "behind "+guard)
					}
				case *ssa.IndexAddr, *ssa.Index:
					var base, idx ssa.Value
					if ia, ok := x.(*ssa.IndexAddr); ok {
						base, idx = ia.X, ia.Index
					} else {
						base, idx = x.(*ssa.Index).X, x.(*ssa.Index).Index
					}

					k, isConst := Fwd(idx).(*ssa.Const)
					if !isConst || k.Value == nil {
						continue
					}

					bd := p.Desc(base)
					// only data that comes from a message field (a slice loaded from a v1alpha1 struct)
					u, isLoad := Fwd(base).(*ssa.UnOp)
					if !isLoad {
						continue
					}

					fa, isFA := u.X.(*ssa.FieldAddr)
					if !isFA || !isMsgPtr(fa.X.Type()) {
						continue
					}

					nIdx++
					kv := p.LinOf(idx, nil).Const
					_ = bd
					// L = len(<the same slice value>), identified by SSA value identity
					al := []Alias{{Name: "L", Match: func(v ssa.Value) bool {
						call, _ := CallOf(v)
						if call == nil || p.CalleeName(call) != "builtin.len" {
							return false
						}

						return SameVal(CallArgs(call)[0], base)
					}}}
					atoms := []string{fmt.Sprintf("le:-1*L%+d", kv+1)}

					if kv == 0 {
						atoms = append(atoms, "ne:+1*L")
					}

					construct := FuncName(f) + fmt.Sprintf(" :: index [%d] into request field .%s", kv, fieldName(fa.X, fa.Field))

					bad, w := p.Reach(Entry(f), func(i ssa.Instruction) bool { return i == in }, CutSpec{Edges: p.LinEdge(al, atoms...)})
					if bad {
						c.Bad(rule, construct, in.Pos(), "no dominating length guard: a request with a shorter list crashes the server — "+strings.Join(w, " "))
					} else {
						c.OK(rule, construct, in.Pos(), "behind a length guard")
					}
				case *ssa.TypeAssert:
					if !x.CommaOk && strings.HasSuffix(FuncName(f), "") && f.Pkg != nil && strings.HasSuffix(f.Pkg.Pkg.Path(), pkgServer) {
						c.Bad(rule, FuncName(f)+" :: unchecked type assertion", x.Pos(), "x.(T) without comma-ok in a request path panics on mismatch")
					}
				case *ssa.Panic:
					if !x.Pos().IsValid() {
						continue // synthetic ("blocking select matched no case")
					}

					if f.Pkg != nil && strings.HasSuffix(f.Pkg.Pkg.Path(), pkgServer) {
						c.Bad(rule, FuncName(f)+" :: explicit panic in the server package", x.Pos(), "a panic in a handler crashes the server process")
					}
				}
			}
		}
	}

	c.OK(rule, "server + decoding functions scanned", 0, fmt.Sprintf("%d functions, %d nilable selectors, %d constant indexes into request fields", len(fns), nSel, nIdx))

	// positive control: the request option getters used by the handlers are nil-safe (their field loads are behind `x != nil`)
	nG := 0

	for _, f := range p.PkgFuncs(pkgAPI) {
		if f.Signature.Recv() == nil || !strings.HasPrefix(f.Name(), "Get") || !isMsgPtr(f.Signature.Recv().Type()) {
			continue
		}

		recvName := f.Signature.Recv().Type().(*types.Pointer).Elem().(*types.Named).Obj().Name()
		if !strings.HasSuffix(recvName, "Request") && !strings.HasSuffix(recvName, "Options") && recvName != "LabelQuery" && recvName != "IDQuery" && recvName != "Resource" && recvName != "Metadata" && recvName != "Spec" {
			continue
		}

		nG++

		bad, _ := p.Reach(Entry(f), func(in ssa.Instruction) bool {
			fa, ok := in.(*ssa.FieldAddr)

			return ok && p.Desc(fa.X) == "param#0"
		}, CutSpec{Edges: FactEdge("nonnil(param#0)")})
		if bad {
			c.Bad(rule, FuncName(f)+" :: generated getter is nil-safe", fpos(f), "getter dereferences a nil receiver")
		}
	}

	c.Check(nG >= 30, rule, "generated getters of request/option messages are nil-safe", 0, fmt.Sprintf("%d getters checked", nG), fmt.Sprintf("only %d getters found", nG))
}

// optionCoverage: client-set fields ⊆ server-read fields per RPC and message.
func optionCoverage(c *Ctx, rule string) {
	p := c.P

	pairs := []struct{ rpc, client string }{
		{"Get", "Get"}, {"List", "List"}, {"Create", "Create"}, {"Update", "Update"}, {"Destroy", "Destroy"}, {"Teardown", "Teardown"}, {"TeardownAndDestroy", "TeardownAndDestroy"},
		{"Watch", "Watch"}, {"Watch", "WatchKind"}, {"Watch", "WatchKindAggregated"},
	}

	for _, pr := range pairs {
		sf := p.Method(pkgServer, "State", pr.rpc)
		cf := p.Method(pkgClient, "Adapter", pr.client)

		if !c.NeedFunc(rule, sf, srvT+"."+pr.rpc) || !c.NeedFunc(rule, cf, cliT+"."+pr.client) {
			continue
		}

		// client: fields stored into literals of v1alpha1 *Request / *Options
		set := map[string]bool{}

		for _, in := range Find(cf, func(in ssa.Instruction) bool { al, ok := in.(*ssa.Alloc); return ok && al.Comment == "complit" }) {
			al := in.(*ssa.Alloc)

			n, ok := al.Type().(*types.Pointer).Elem().(*types.Named)
			if !ok || n.Obj().Pkg() == nil || !strings.HasSuffix(n.Obj().Pkg().Path(), pkgAPI) {
				continue
			}

			if !strings.HasSuffix(n.Obj().Name(), "Request") && !strings.HasSuffix(n.Obj().Name(), "Options") {
				continue
			}

			for fld := range allocFields(al) {
				set[n.Obj().Name()+"."+fld] = true
			}
		}

		// server: getters called / fields loaded on those message types (handler + helpers it calls in the package)
		read := map[string]bool{}
		fs := []*ssa.Function{sf}

		for _, g := range fs {
			for _, in := range Find(g, func(ssa.Instruction) bool { return true }) {
				switch x := in.(type) {
				case ssa.CallInstruction:
					cn := p.CalleeName(x)
					if strings.HasPrefix(cn, "(*"+pkgAPI+".") && strings.Contains(cn, ").Get") {
						typ := cn[len("(*"+pkgAPI+"."):strings.Index(cn, ")")]
						read[typ+"."+strings.TrimPrefix(cn[strings.Index(cn, ").")+2:], "Get")] = true
					}
				case *ssa.FieldAddr:
					if pt, ok := x.X.Type().(*types.Pointer); ok {
						if n, ok := pt.Elem().(*types.Named); ok && n.Obj().Pkg() != nil && strings.HasSuffix(n.Obj().Pkg().Path(), pkgAPI) {
							read[n.Obj().Name()+"."+fieldName(x.X, x.Field)] = true
						}
					}
				}
			}
		}

		var missing []string

		for fld := range set {
			// a field holding an options message is "read" when any field of that message is read; an options message without fields needs no reader
			if read[fld] {
				continue
			}

			if strings.HasSuffix(fld, ".Options") {
				msg := strings.TrimSuffix(fld, "Request.Options") + "Options"
				if pr.rpc == "Watch" {
					msg = "WatchOptions"
				}

				n := p.Named(pkgAPI, msg)
				if n != nil {
					exported := 0
					st := n.Underlying().(*types.Struct)

					for i := range st.NumFields() {
						if st.Field(i).Exported() {
							exported++
						}
					}

					if exported == 0 {
						continue
					}
				}

				anyRead := false

				for r := range read {
					if strings.HasPrefix(r, msg+".") {
						anyRead = true
					}
				}

				if anyRead {
					continue
				}
			}

			missing = append(missing, fld)
		}

		sort.Strings(missing)
		c.Check(len(missing) == 0 && len(set) > 0, rule, fmt.Sprintf("client %s → server %s :: every field the client sets is read by the handler", pr.client, pr.rpc), fpos(sf),
			fmt.Sprintf("%d fields set, all read", len(set)), "set by the client but never read by the server: "+strings.Join(missing, ", "))
	}
}

func serverDelegation(c *Ctx, rule string) {
	p := c.P
	meta := "call:pkg/resource.NewMetadata(call:(*" + pkgAPI + ".%sRequest).GetNamespace(param#2),call:(*" + pkgAPI + ".%sRequest).GetType(param#2),call:(*" + pkgAPI + ".%sRequest).GetId(param#2),*)"

	for _, spec := range []struct {
		rpc, callee, ownerOpt string
		viaWrap               bool
		targetIdx             int
	}{
		{"Get", "(pkg/state.CoreState).Get", "", false, 2},
		{"Destroy", "(pkg/state.CoreState).Destroy", "pkg/state.WithDestroyOwner", false, 2},
		{"Teardown", "(pkg/state.State).Teardown", "pkg/state.WithTeardownOwner", true, 2},
		{"TeardownAndDestroy", "(pkg/state.State).TeardownAndDestroy", "pkg/state.WithTeardownAndDestroyOwner", true, 2},
		{"Create", "(pkg/state.CoreState).Create", "pkg/state.WithCreateOwner", false, -1},
		{"Update", "(pkg/state.CoreState).Update", "pkg/state.WithUpdateOwner", false, -1},
	} {
		f := p.Method(pkgServer, "State", spec.rpc)
		if !c.NeedFunc(rule, f, srvT+"."+spec.rpc) {
			continue
		}

		calls := p.Calls(f, "(pkg/state.*).*")
		var stateCalls []ssa.CallInstruction

		for _, call := range calls {
			if d := p.ArgDesc(call, 0); d == "*param#0.state" || Glob("call:pkg/state.WrapCore(*param#0.state)", d) {
				stateCalls = append(stateCalls, call)
			}
		}

		ok := len(stateCalls) == 1 && p.CalleeName(stateCalls[0]) == spec.callee
		c.Check(ok, rule, srvT+"."+spec.rpc+" :: exactly one call on the wrapped state: "+spec.callee, fpos(f), "1:1", fmt.Sprintf("%d state calls: %v", len(stateCalls), calleeNames(p, stateCalls)))

		if !ok {
			continue
		}

		call := stateCalls[0]

		if spec.viaWrap {
			c.Check(Glob("call:pkg/state.WrapCore(*param#0.state)", p.ArgDesc(call, 0)), rule, srvT+"."+spec.rpc+" :: goes through WrapCore(server.state)", call.Pos(), "yes", "receiver is "+p.ArgDesc(call, 0))
		}

		c.Check(p.ArgDesc(call, 1) == "param#1", rule, srvT+"."+spec.rpc+" :: request context forwarded", call.Pos(), "ctx", "context is "+p.ArgDesc(call, 1))

		if spec.targetIdx >= 0 {
			want := fmt.Sprintf(meta, spec.rpc, spec.rpc, spec.rpc)
			got := p.DescN(CallArgs(call)[spec.targetIdx], 4)
			c.Check(Glob(want, got), rule, srvT+"."+spec.rpc+" :: target is the request's (namespace, type, id)", call.Pos(), "yes", "target is "+got)
		}

		if spec.ownerOpt != "" {
			oc := p.Calls(f, spec.ownerOpt)
			okO := len(oc) == 1 && Glob("call:(*"+pkgAPI+".*Options).GetOwner(call:(*"+pkgAPI+".*Request).GetOptions(param#2))", p.ArgDesc(oc[0], 0))
			last := CallArgs(call)[len(CallArgs(call))-1]
			okO = okO && p.sliceContainsCall(last, spec.ownerOpt, 0)
			c.Check(okO, rule, srvT+"."+spec.rpc+" :: owner option built from the request and passed on", call.Pos(), "yes", "owner not forwarded")
		}
	}

	if f := p.Method(pkgServer, "State", "Update"); f != nil {
		c.MustCut(rule, "WithExpectedPhaseAny ⊣ {options absent, expected phase absent}", f, p.CallTo("pkg/state.WithExpectedPhaseAny"),
			CutSpec{Edges: FactEdge("nil(call:(*"+pkgAPI+".UpdateRequest).GetOptions(param#2))", "nil(*call:(*"+pkgAPI+".UpdateRequest).GetOptions(param#2).ExpectedPhase)")}, 1)
		c.MustCut(rule, "WithExpectedPhase ⊣ {expected phase present, parsed}", f, p.CallTo("pkg/state.WithExpectedPhase"),
			CutSpec{Edges: FactEdge("nil(call:pkg/resource.ParsePhase(*)#1)")}, 1)
		c.MustCut(rule, "state.Update ⊣ {an expected-phase option was appended}", f, p.CallTo("(pkg/state.CoreState).Update"), CutSpec{Nodes: p.CallTo("pkg/state.WithExpectedPhaseAny", "pkg/state.WithExpectedPhase")}, 1)
	}

	// watch: kind vs single by Id == nil, and each option forwarded to its constructor
	if f := p.Method(pkgServer, "State", "Watch"); c.NeedFunc(rule, f, srvT+".Watch") {
		c.MustCut(rule, "WatchKind/WatchKindAggregated ⊣ {req.Id == nil}", f, p.CallTo("(pkg/state.CoreState).WatchKind", "(pkg/state.CoreState).WatchKindAggregated"), CutSpec{Edges: FactEdge("nil(*param#1.Id)")}, 2)
		c.MustCut(rule, "Watch(single) ⊣ {req.Id != nil}", f, p.CallTo("(pkg/state.CoreState).Watch"), CutSpec{Edges: FactEdge("nonnil(*param#1.Id)")}, 1)
		c.MustCut(rule, "WatchKindAggregated ⊣ {options.aggregated}", f, p.CallTo("(pkg/state.CoreState).WatchKindAggregated"), CutSpec{Edges: FactEdge("true(call:(*" + pkgAPI + ".WatchOptions).GetAggregated(*")}, 1)

		for ctor, getter := range map[string]string{
			"pkg/state.WithBootstrapContents": "GetBootstrapContents", "pkg/state.WithKindTailEvents": "GetTailEvents", "pkg/state.WithKindStartFromBookmark": "GetStartFromBookmark",
			"pkg/state.WithBootstrapBookmark": "GetBootstrapBookmark", "pkg/state.WatchWithLabelQuery": "GetLabelQuery", "pkg/state.WatchWithIDQuery": "GetIdQuery",
			"pkg/state.WithTailEvents": "GetTailEvents", "pkg/state.WithStartFromBookmark": "GetStartFromBookmark",
		} {
			calls := p.Calls(f, ctor)
			ok := len(calls) == 1

			if ok {
				// the constructor runs only when the option's getter reported a value
				bad, _ := p.Reach(Entry(f), func(in ssa.Instruction) bool { return in == calls[0].(ssa.Instruction) }, CutSpec{Edges: func(e EdgeInfo) bool {
					return AnyFact(e, func(f string) bool {
						return strings.Contains(f, "(*"+pkgAPI+".WatchOptions)."+getter+"(") && !strings.HasPrefix(f, "false(") && !strings.HasPrefix(f, "nil(") && !strings.HasPrefix(f, "le(")
					})
				}})
				ok = !bad
			}

			c.Check(ok, rule, srvT+".Watch :: "+strings.TrimPrefix(ctor, "pkg/state.")+" is applied iff "+getter+" reports a value", fpos(f), "yes", "option constructor missing, duplicated or not guarded by its getter")
		}

		// invalid bookmark class mapping is checked in R11.1; here: the handshake message is sent only after the watch was established
		c.MustCut(rule, "handshake Send ⊣ {watch established without error}", f, p.CallTo("("+pkgAPI+".State_WatchServer).Send", "(google.golang.org/grpc.ServerStreamingServer[*]).Send"), CutSpec{Edges: FactEdge("nil(phi(*", "nil(*var:error*)", "nil(call:(pkg/state.*).Watch*(*")}, 0)
	}
}

func eventTables(c *Ctx, rule string) {
	p := c.P
	stateEv := p.ConstsOfType(pkgState, "EventType")
	wireEv := p.ConstsOfType(pkgAPI, "EventType")

	// server: switch event.Type -> eventType (phi rows)
	sTab := map[string]string{}

	if f := p.Func(pkgServer, "mapEvent"); c.NeedFunc(rule, f, "server.mapEvent") {
		for _, in := range Find(f, StoreToField("Event", "EventType")) {
			phi, ok := in.(*ssa.Store).Val.(*ssa.Phi)
			if !ok {
				continue
			}

			for sname, sval := range stateEv {
				for _, loc := range p.EdgeSuccs(f, "eq(param#1.Type,const:"+sval+")", "eq(*.Type,const:"+sval+")") {
					for i, pb := range phi.Block().Preds {
						if pb == loc.B && i < len(phi.Edges) {
							sTab[sname] = strings.TrimPrefix(p.Desc(phi.Edges[i]), "const:")
						}
					}
				}
			}
		}

		// fields that cross
		for _, in := range Find(f, func(in ssa.Instruction) bool { al, ok := in.(*ssa.Alloc); return ok && al.Comment == "complit" }) {
			al := in.(*ssa.Alloc)
			if n, ok := al.Type().(*types.Pointer).Elem().(*types.Named); ok && n.Obj().Name() == "Event" && strings.HasSuffix(n.Obj().Pkg().Path(), pkgAPI) {
				fields := allocFields(al)
				var got []string

				for k := range fields {
					got = append(got, k)
				}

				sort.Strings(got)
				c.Check(strings.Join(got, ",") == "Bookmark,Error,EventType,Old,Resource", rule, "server.mapEvent :: wire event carries EventType, Resource, Old, Error, Bookmark", al.Pos(), strings.Join(got, ","), "wire event fields: "+strings.Join(got, ","))
				c.Check(Glob("*param#1.Bookmark", p.Desc(fields["Bookmark"])) || Glob("*var:pkg/state.Event.Bookmark", p.Desc(fields["Bookmark"])), rule, "server.mapEvent :: Bookmark is the event's bookmark", al.Pos(), "yes", "Bookmark = "+p.Desc(fields["Bookmark"]))

				// Resource / Old are marshaled from this event's own resources, in this call: not looked up, not remembered
				for fld, src := range map[string]string{"Resource": "Resource", "Old": "Old"} {
					okLeaves, seenMarshal := true, false
					detail := ""

					for _, leaf := range PhiLeaves(fields[fld]) {
						if isNilConst(leaf) {
							continue
						}

						d := p.DescN(leaf, 4)
						if Glob("call:(*pkg/resource/protobuf.Resource).Marshal(call:pkg/resource/protobuf.FromResource(*."+src+"*)#0)#0", d) {
							seenMarshal = true

							continue
						}

						okLeaves = false
						detail = fld + " can be " + d
					}

					c.Check(okLeaves && seenMarshal, rule, "server.mapEvent :: "+fld+" is FromResource(event."+src+").Marshal() of this event", al.Pos(), "yes", "the wire "+fld+" is not marshaled from this event's "+src+": "+detail)
				}
			}
		}
	}

	// client: switch msgEvent.EventType -> event.Type (stores into local event.Type)
	cTab := map[string]string{}

	if f := p.Method(pkgClient, "Adapter", "watchAdapter"); c.NeedFunc(rule, f, cliT+".watchAdapter") {
		// (independent of where the switch lives — in line or in a helper returning the mapped value: what counts
		// is the Type in effect when the event is queued)
		typeStore := func(in ssa.Instruction) bool {
			return StoreToField("Event", "Type")(in)
		}
		sink := func(in ssa.Instruction) bool {
			call, ok := in.(*ssa.Call)
			if !ok || p.CalleeName(call) != "builtin.append" {
				return false
			}

			return strings.HasSuffix(call.Call.Args[0].Type().String(), "pkg/state.Event")
		}

		byName := p.CaseFieldTable(f, func(v string) string { return "eq(*.EventType,const:" + v + ")" }, wireEv, stateEv,
			func(val string) InstrPred {
				return func(in ssa.Instruction) bool { return typeStore(in) && p.Desc(in.(*ssa.Store).Val) == "const:"+val }
			}, typeStore, sink, "0")
		for wname, sval := range byName {
			cTab[wname] = sval
		}

		for _, fld := range []string{"Resource", "Old", "Error"} {
			n := 0

			for _, in := range Find(f, StoreToField("Event", fld)) {
				if Glob("var:pkg/state.Event."+fld, p.Desc(in.(*ssa.Store).Addr)) {
					n++
				}
			}

			c.Check(n >= 1, rule, cliT+".watchAdapter :: event."+fld+" is filled from the wire event", fpos(f), fmt.Sprintf("%d store(s)", n), "event."+fld+" is never set by the client")
		}

		okBM := false

		for _, in := range Find(f, StoreToField("Event", "Bookmark")) {
			if Glob("*.Bookmark", p.Desc(in.(*ssa.Store).Val)) {
				okBM = true
			}
		}

		c.Check(okBM, rule, cliT+".watchAdapter :: event.Bookmark is the wire event's bookmark", fpos(f), "yes", "bookmark not carried over")
	}

	// composition
	okAll := len(sTab) == len(stateEv) && len(stateEv) == 6
	detail := []string{}

	for sname, sval := range stateEv {
		w, ok := sTab[sname]
		if !ok {
			okAll = false
			detail = append(detail, sname+": no server row")

			continue
		}

		// which wire constant has value w?
		back := ""

		for wname, wval := range wireEv {
			if wval == w {
				back = cTab[wname]
			}
		}

		if back != sval {
			okAll = false
			detail = append(detail, fmt.Sprintf("%s(%s) → wire %s → client %q", sname, sval, w, back))
		}
	}

	sort.Strings(detail)
	c.Check(okAll, rule, "event types: client(server(t)) == t for every state.EventType", 0, fmt.Sprintf("%d rows", len(sTab)), strings.Join(detail, "; "))
	c.Check(len(cTab) == len(wireEv), rule, "client covers every wire event type", 0, fmt.Sprintf("%d rows", len(cTab)), fmt.Sprintf("%d of %d wire types handled", len(cTab), len(wireEv)))
}
