package lint

import (
	"fmt"
	"go/token"
	"strings"

	"golang.org/x/tools/go/ssa"
)

const (
	pkgRuntime = "pkg/controller/runtime"
	cacheT     = "(*" + pkgCache + ".ResourceCache)"
	handlerT   = "(*" + pkgCache + ".cacheHandler)"
)

var cacheLock = LockSpec{Rel: pkgCache, Struct: "cacheHandler", Mutex: "mu", Guarded: []string{"resources", "teardownWaiters"}}

func init() {
	register(&PropertyInfo{
		ID: "C15",
		Explanation: "R15.1: the cache handler's get/list/contextWithTeardown touch the resource slice only after a receive from the bootstrapped channel (the select arm), so a partially bootstrapped view is never served. " +
			"R15.2: resources and teardownWaiters are accessed only under the handler mutex; lookup and waiter registration share one critical section. " +
			"R15.3: in processEvents, for a handled and bootstrapped kind the cache put/remove precedes the insertion into the notification map in the same iteration (reads are at least as new as the notification); Errored/Noop/Bootstrapped never reach the map. " +
			"R15.4: bootstrap protocol — before Bootstrapped: append only and no notification; Bootstrapped: mark; cached kinds are watched with bootstrap contents, uncached with a bootstrap bookmark; watch() never downgrades an existing (cached) key. " +
			"R15.5: what the cache returns are deep copies (shared with C19 R19.2). " +
			"R15.6: teardown waiters — put closes a waiter only when the phase is TearingDown, remove always does; a waiter entry is deleted only together with closing its channel and never overwritten; not-found / already tearing down cancels immediately; the waiter goroutine has a deferred cancel.",
		NotCovered: "monotonicity of cached reads under all schedules and equality with uncached reads at quiescence (behavioural); the sorted-slice search algorithm.",
		Assumptions: []string{
			"state.EventType has exactly the six declared values (checked: the count of constants)",
			"events of one kind are delivered to processEvents in commit order (C02)",
		},
		Run: runC15,
	})
}

func runC15(c *Ctx) {
	p := c.P

	// ---------- R15.2 lock
	c.Rule("R15.2", "E2", "cacheHandler.resources / teardownWaiters only under the handler mutex", 6)

	li := p.Lockset(cacheLock, pkgCache)
	c.LocksetReport("R15.2", li, nil)

	// ---------- R15.1 wait for bootstrap
	c.Rule("R15.1", "E1", "handler reads touch the resource slice only after receiving from the bootstrapped channel", 4)

	guarded := func(in ssa.Instruction) bool { _, ok := li.guardedAccess(in); return ok }

	for _, name := range []string{"get", "list", "contextWithTeardown"} {
		f := p.Method(pkgCache, "cacheHandler", name)
		if !c.NeedFunc("R15.1", f, handlerT+"."+name) {
			continue
		}

		// find the select whose arm #k receives from h.bootstrapped
		arm := -1

		for _, in := range Find(f, func(in ssa.Instruction) bool { _, ok := in.(*ssa.Select); return ok }) {
			sel := in.(*ssa.Select)
			for k, st := range sel.States {
				if Glob("*param#0.bootstrapped", p.Desc(st.Chan)) && sel.Blocking {
					arm = k
				}
			}
		}

		if arm < 0 {
			c.Bad("R15.1", FuncName(f)+" :: waits on the bootstrapped channel", fpos(f), "no blocking select with a receive from h.bootstrapped")

			continue
		}

		c.MustCut("R15.1", "resource slice / lock ⊣ {received from bootstrapped}", f, OrInstr(guarded, plainMutexOpAny(p, "Lock")),
			CutSpec{Edges: FactEdge(fmt.Sprintf("eq(select#0,const:%d)", arm))}, 1)
	}

	if f := p.Method(pkgCache, "cacheHandler", "isBootstrapped"); c.NeedFunc("R15.1", f, handlerT+".isBootstrapped") {
		c.MustCut("R15.1", "return true ⊣ {bootstrapped channel closed}", f, p.RetIs(0, "const:true"), CutSpec{Edges: FactEdge("eq(select#0,const:0)")}, 1)
	}

	// ---------- R15.3 cache before notify
	c.Rule("R15.3", "E1", "processEvents: cache updated before the notification map for handled+bootstrapped kinds; Errored/Noop/Bootstrapped never notify", 6)

	pe := p.Method(pkgRuntime, "Runtime", "processEvents")
	if c.NeedFunc("R15.3", pe, "Runtime.processEvents") {
		evT := func(name string, neg bool) string {
			op := "eq"
			if neg {
				op = "ne"
			}

			return op + "(*var:pkg/state.Event.Type," + p.ConstVal(pkgState, name) + ")"
		}
		notify := func(in ssa.Instruction) bool { _, ok := in.(*ssa.MapUpdate); return ok }
		handled := "call:" + cacheT + ".IsHandledBootstrapped(*)"

		nconst := len(p.ConstsOfType(pkgState, "EventType"))
		c.Check(nconst == 6, "R15.3", "state.EventType has exactly six values", 0, "6", fmt.Sprintf("%d constants: the exhaustiveness argument of R15.3 no longer holds", nconst))

		for _, t := range []string{"Errored", "Noop", "Bootstrapped"} {
			c.MustCut("R15.3", "notify ⊣ {Type != "+t+"}", pe, notify, CutSpec{Edges: FactEdge(evT(t, true))}, 1)
		}

		// type ∈ {Created, Updated, Destroyed} at the switch (by the three filters above + exhaustiveness):
		// notify needs a cache update, or an unhandled kind; the residual `Type != Destroyed` edge is infeasible there
		c.MustCut("R15.3", "notify ⊣ {CachePut, CacheRemove, kind not cached}", pe, notify,
			CutSpec{Nodes: p.CallTo(cacheT+".CachePut", cacheT+".CacheRemove"), Edges: FactEdge("false("+handled+"#0)", evT("Destroyed", true))}, 1)
		c.MustCut("R15.3", "CachePut ⊣ {Created, Updated}", pe, p.CallTo(cacheT+".CachePut"), CutSpec{Edges: FactEdge(evT("Created", false), evT("Updated", false))}, 1)
		c.MustCut("R15.3", "CacheRemove ⊣ {Destroyed}", pe, p.CallTo(cacheT+".CacheRemove"), CutSpec{Edges: FactEdge(evT("Destroyed", false))}, 1)
		c.MustCut("R15.3", "CachePut/CacheRemove ⊣ {handled ∧ bootstrapped}", pe, p.CallTo(cacheT+".CachePut", cacheT+".CacheRemove"), CutSpec{Edges: FactEdge("true(" + handled + "#1)")}, 2)

		for _, call := range p.Calls(pe, cacheT+".CachePut", cacheT+".CacheRemove", cacheT+".CacheAppend") {
			c.Check(p.ArgDesc(call, 1) == "*var:pkg/state.Event.Resource", "R15.3", FuncName(pe)+" :: "+call.Common().StaticCallee().Name()+" receives the event's resource", call.Pos(), "e.Resource", "argument "+p.ArgDesc(call, 1))
		}

		// the key/value put in the map come from the same event
		for _, in := range Find(pe, notify) {
			mu := in.(*ssa.MapUpdate)
			d := p.DescN(mu.Key, 6) + " / " + p.DescN(mu.Value, 6)

			// key and value are fields of one local struct: describe what that struct was assigned
			if u, ok := mu.Key.(*ssa.UnOp); ok {
				if fa, ok := u.X.(*ssa.FieldAddr); ok {
					if al, ok := fa.X.(*ssa.Alloc); ok {
						if st := SingleStore(al); st != nil {
							d += " where " + al.Comment + " = " + p.DescN(st.Val, 6)
						}
					}
				}
			}

			c.Check(strings.Contains(d, "pkg/controller/runtime/internal/reduced.NewMetadata(call:(pkg/resource.Resource).Metadata(*var:pkg/state.Event.Resource))"), "R15.3", FuncName(pe)+" :: notification entry is the reduced metadata of this event", mu.Pos(), "yes", "entry: "+d)
		}

		// ---------- R15.4 bootstrap protocol (runtime side)
		c.Rule("R15.4", "E1", "bootstrap protocol: append-only and silent before Bootstrapped; mark on Bootstrapped; cached kinds watched with contents; no downgrade", 8)

		c.MustCut("R15.4", "CacheAppend ⊣ {handled}", pe, p.CallTo(cacheT+".CacheAppend"), CutSpec{Edges: FactEdge("true(" + handled + "#0)")}, 1)
		c.MustCut("R15.4", "CacheAppend ⊣ {not bootstrapped}", pe, p.CallTo(cacheT+".CacheAppend"), CutSpec{Edges: FactEdge("false(" + handled + "#1)")}, 1)
		c.NoReach("R15.4", "no notification for an event that was only appended (bootstrap in progress)", pe, After(pe, p.CallTo(cacheT+".CacheAppend")), 1, notify,
			CutSpec{Edges: func(e EdgeInfo) bool { return strings.HasPrefix(e.Facts[0], "lt((phi(") }}) // the loop head of the next iteration
		c.MustCut("R15.4", "MarkBootstrapped ⊣ {Type == Bootstrapped}", pe, p.CallTo(cacheT+".MarkBootstrapped"), CutSpec{Edges: FactEdge(evT("Bootstrapped", false))}, 1)
		c.NoReach("R15.4", "a Bootstrapped event never notifies", pe, After(pe, p.CallTo(cacheT+".MarkBootstrapped")), 1, notify,
			CutSpec{Edges: func(e EdgeInfo) bool { return strings.HasPrefix(e.Facts[0], "lt((phi(") }})
	}

	if f := p.Method(pkgRuntime, "Runtime", "setupWatches"); c.NeedFunc("R15.4", f, "Runtime.setupWatches") {
		okC, okB := false, false

		for _, call := range p.Calls(f, "pkg/state.WithBootstrapContents") {
			okC = Glob("next(range(*param#0.watched))#2", p.ArgDesc(call, 0))
		}

		for _, call := range p.Calls(f, "pkg/state.WithBootstrapBookmark") {
			okB = Glob("!next(range(*param#0.watched))#2", p.ArgDesc(call, 0))
		}

		c.Check(okC && okB, "R15.4", FuncName(f)+" :: cached kinds watched WithBootstrapContents(cached), others WithBootstrapBookmark(!cached)", fpos(f), "yes", "watch options do not follow the cached flag")
	}

	if f := p.Func(pkgRuntime, "NewRuntime"); c.NeedFunc("R15.4", f, "NewRuntime") {
		ok := false

		for _, in := range Find(f, func(in ssa.Instruction) bool {
			mu, isMU := in.(*ssa.MapUpdate)
			return isMU && LoadsField(mu.Map, "Runtime", "watched")
		}) {
			ok = p.Desc(in.(*ssa.MapUpdate).Value) == "const:true"
		}

		c.Check(ok, "R15.4", FuncName(f)+" :: cached resources are registered as watched+cached", fpos(f), "watched[key] = true", "cached kinds are not marked in runtime.watched")

		nc := p.Calls(f, pkgCache+".NewResourceCache")
		c.Check(len(nc) == 1 && Glob("*.options.CachedResources", p.ArgDesc(nc[0], 0)), "R15.4", FuncName(f)+" :: the cache is built for exactly the configured cached resources", fpos(f), "yes", "cache built from something else")
	}

	if f := p.Method(pkgRuntime, "Runtime", "watch"); c.NeedFunc("R15.4", f, "Runtime.watch") {
		c.MustCut("R15.4", "watched[key] = false ⊣ {key not yet watched}", f, func(in ssa.Instruction) bool {
			mu, isMU := in.(*ssa.MapUpdate)

			return isMU && LoadsField(mu.Map, "Runtime", "watched")
		}, CutSpec{Edges: FactEdge("false(lookup(*param#0.watched,*)#1)")}, 1)
	}

	// handler side of the protocol: append appends, put/remove keep the slice sorted by replacing/inserting/deleting at the searched index
	if f := p.Method(pkgCache, "cacheHandler", "markBootstrapped"); c.NeedFunc("R15.4", f, handlerT+".markBootstrapped") {
		cl := p.Calls(f, "builtin.close")
		c.Check(len(cl) == 1 && Glob("*param#0.bootstrapped", p.ArgDesc(cl[0], 0)), "R15.4", FuncName(f)+" :: closes the bootstrapped channel", fpos(f), "yes", "does not close h.bootstrapped")
	}

	// ---------- R15.5 copies out
	c.Rule("R15.5", "E3", "cache get/list return deep copies", 2)

	for _, name := range []string{"get", "list"} {
		f := p.Method(pkgCache, "cacheHandler", name)
		if !c.NeedFunc("R15.5", f, handlerT+"."+name) {
			continue
		}

		bad := ""

		for _, in := range Find(f, IsReturn) {
			v := Fwd(in.(*ssa.Return).Results[0])

			if name == "get" {
				if !p.resourceFresh(v) {
					bad = p.Desc(v)
				}

				continue
			}

			items := listItems(v)
			if items == nil {
				if k, ok := v.(*ssa.Const); ok && k.Value == nil {
					continue
				}

				bad = "unresolved list"

				continue
			}

			if !p.sliceFresh(items, map[ssa.Value]bool{}) {
				bad = p.Desc(items)
			}
		}

		c.Check(bad == "", "R15.5", FuncName(f)+" :: returns deep copies", fpos(f), "yes", "returns shared objects: "+bad)
	}

	// ---------- R15.7 one source per cached kind
	c.Rule("R15.7", "E1", "reads of a cached kind come from the cache only (the live state only through the explicit *Uncached API): one source, so reads cannot go backwards", 5)

	handledFalse := func(recv string) string {
		return "false(call:" + cacheT + ".IsHandled(" + recv + ",*"
	}

	for name, inner := range map[string]string{"get": "(*" + pkgOwned + ".State).Get", "list": "(*" + pkgOwned + ".State).List"} {
		f := p.Method(pkgCtrlState, "StateAdapter", name)
		c.MustCut("R15.7", "OwnedState read ⊣ {kind not cached, explicit uncached read}", f, p.CallTo(inner),
			CutSpec{Edges: FactEdge(handledFalse("*param#0.Cache"), "true(param#2)")}, 1)
	}

	if f := p.Method(pkgCtrlState, "StateAdapter", "ContextWithTeardown"); f != nil {
		c.MustCut("R15.7", "OwnedState.ContextWithTeardown ⊣ {kind not cached}", f, p.CallTo("(*"+pkgOwned+".State).ContextWithTeardown"), CutSpec{Edges: FactEdge(handledFalse("*param#0.Cache"))}, 1)
	}

	for _, name := range []string{"Get", "List"} {
		f := p.Method(pkgCache, "stateWrapper", name)
		c.MustCut("R15.7", "wrapped state read ⊣ {kind not cached}", f, p.CallTo("(pkg/state.CoreState)."+name), CutSpec{Edges: FactEdge(handledFalse("*param#0.cache"))}, 1)
	}

	// the public uncached entry points are the only callers that pass disableCache=true
	for _, spec := range []struct{ fn, inner, want string }{{"Get", "get", "const:false"}, {"GetUncached", "get", "const:true"}, {"List", "list", "const:false"}, {"ListUncached", "list", "const:true"}} {
		f := p.Method(pkgCtrlState, "StateAdapter", spec.fn)
		if !c.NeedFunc("R15.7", f, "StateAdapter."+spec.fn) {
			continue
		}

		calls := p.Calls(f, "(*"+pkgCtrlState+".StateAdapter)."+spec.inner)
		c.Check(len(calls) == 1 && p.ArgDesc(calls[0], 2) == spec.want, "R15.7", "StateAdapter."+spec.fn+" passes disableCache="+strings.TrimPrefix(spec.want, "const:"), fpos(f), "yes", "cache bypass flag differs")
	}

	// ---------- R15.6 teardown waiters
	c.Rule("R15.6", "E1", "teardown waiters: closed on TearingDown put / any remove; entry deleted only with close; never overwritten; immediate cancel when absent or tearing down", 9)

	isClose := p.CallTo("builtin.close")
	isDelete := func(in ssa.Instruction) bool {
		call, ok := in.(*ssa.Call)

		return ok && p.CalleeName(call) == "builtin.delete" && LoadsField(call.Call.Args[0], "cacheHandler", "teardownWaiters")
	}
	td := p.ConstVal(pkgResource, "PhaseTearingDown")
	lastSharerGone := func(e EdgeInfo) bool {
		// a counter compared with zero (not the index of a select arm)
		return AnyFact(e, func(f string) bool {
			return (Glob("eq(*,const:0)", f) || Glob("le(*,const:0)", f) || Glob("lt(*,const:1)", f)) && !strings.Contains(f, "select#")
		})
	}

	for _, f := range p.PkgFuncs(pkgCache) {
		if len(Find(f, isDelete)) == 0 {
			continue
		}

		c.Touch(f)
		// an entry leaves the table together with its wake-up (close), or — reference-counted waiters — when the
		// last caller sharing it has gone (a counter reached zero)
		c.MustCut("R15.6", "delete(teardownWaiters) ⊣ {close(ch)}", f, isDelete, CutSpec{Nodes: isClose, Edges: lastSharerGone}, 1)
	}

	for _, name := range []string{"put", "remove"} {
		f := p.Method(pkgCache, "cacheHandler", name)
		if !c.NeedFunc("R15.6", f, handlerT+"."+name) {
			continue
		}

		c.MustCut("R15.6", "close ⊣ {waiter registered for this id}", f, isClose, CutSpec{Edges: FactEdge("true(lookup(*param#0.teardownWaiters,call:(pkg/resource.Metadata).ID(*call:(pkg/resource.Resource).Metadata(param#1)))#1)")}, 1)
		c.MustFollow("R15.6", "after close the entry is deleted (no double close)", f, isClose, IsReturn, CutSpec{Nodes: isDelete}, 1)

		c.MustCut("R15.6", "return ⊣ {waiter table consulted}", f, IsReturn, CutSpec{Nodes: func(in ssa.Instruction) bool {
			l, isLookup := in.(*ssa.Lookup)

			return isLookup && LoadsField(l.X, "cacheHandler", "teardownWaiters")
		}, Edges: func(e EdgeInfo) bool {
			// put: only a tearing-down resource needs the waiter table
			return name == "put" && FactEdge("ne(call:(pkg/resource.Metadata).Phase(*call:(pkg/resource.Resource).Metadata(param#1)),"+td+")")(e)
		}}, 1)

		if name == "put" {
			c.MustCut("R15.6", "put closes ⊣ {phase == TearingDown}", f, isClose, CutSpec{Edges: FactEdge("eq(call:(pkg/resource.Metadata).Phase(*call:(pkg/resource.Resource).Metadata(param#1))," + td + ")")}, 1)
		} else {
			// remove: the close is not conditional on anything but the presence of a waiter
			bad, w := p.Reach(p.EdgeSuccs(f, "true(lookup(*param#0.teardownWaiters,*)#1)"), IsReturn, CutSpec{Nodes: isClose})
			c.Check(!bad, "R15.6", FuncName(f)+" :: remove always closes a registered waiter", fpos(f), "yes", "a registered waiter survives remove: "+strings.Join(w, " "))
		}
	}

	if f := p.Method(pkgCache, "cacheHandler", "contextWithTeardown"); c.NeedFunc("R15.6", f, handlerT+".contextWithTeardown") {
		cancel := p.CallTo("dyn:call:context.WithCancel(*)#1")
		isGo := func(in ssa.Instruction) bool { _, ok := in.(*ssa.Go); return ok }

		c.MustCut("R15.6", "return ctx ⊣ {cancelled now, waiter goroutine started}", f, AndInstr(ReturnsNilConst(1), ReturnsNonNil(0)), CutSpec{Nodes: OrInstr(cancel, isGo), GoDeferCount: true}, 1)
		c.MustCut("R15.6", "immediate cancel ⊣ {not found, phase == TearingDown}", f, p.PlainCallTo("dyn:call:context.WithCancel(*)#1"),
			CutSpec{Edges: FactEdge("false(call:slices.BinarySearchFunc(*)#1)", "eq(call:(pkg/resource.Metadata).Phase(*),"+td+")")}, 1)
		c.MustCut("R15.6", "waiter goroutine ⊣ {found ∧ not tearing down}", f, isGo, CutSpec{Edges: FactEdge("ne(call:(pkg/resource.Metadata).Phase(*)," + td + ")")}, 1)
		c.MustCut("R15.6", "waiter goroutine ⊣ {found}", f, isGo, CutSpec{Edges: FactEdge("true(call:slices.BinarySearchFunc(*)#1)")}, 1)
		c.MustCut("R15.6", "teardownWaiters[id] = ch ⊣ {no waiter registered yet}", f, func(in ssa.Instruction) bool {
			mu, isMU := in.(*ssa.MapUpdate)

			return isMU && LoadsField(mu.Map, "cacheHandler", "teardownWaiters")
		}, CutSpec{Edges: FactEdge("false(lookup(*param#0.teardownWaiters,param#2)#1)")}, 1)

		nl := len(Find(f, plainMutexOpAny(p, "Lock")))
		nu := len(Find(f, plainMutexOpAny(p, "Unlock")))
		c.Check(nl == 1 && nu == 0, "R15.6", FuncName(f)+" :: lookup, phase test and waiter registration share one critical section", fpos(f), "1 Lock + deferred Unlock", fmt.Sprintf("%d Lock / %d early Unlock", nl, nu))

		gos := GoClosures(f)
		if len(gos) == 1 {
			g := gos[0]
			c.Touch(g)

			defers := Find(g, func(in ssa.Instruction) bool { _, ok := in.(*ssa.Defer); return ok })
			c.Check(len(defers) == 1 && defers[0].Block() == g.Blocks[0], "R15.6", FuncName(g)+" :: deferred cancel at goroutine entry", fpos(g), "yes", "the waiter goroutine does not defer cancel")

			var sel *ssa.Select

			for _, in := range Find(g, func(in ssa.Instruction) bool { _, ok := in.(*ssa.Select); return ok }) {
				sel = in.(*ssa.Select)
			}

			okSel := sel != nil && sel.Blocking && len(sel.States) == 2
			c.Check(okSel, "R15.6", FuncName(g)+" :: waits on exactly {ctx.Done, waiter channel}", fpos(g), "yes", "select shape changed")
			// the goroutine only waits: it does not touch the handler's tables (they belong to put/remove)
			if len(Find(g, guarded)) == 0 {
				c.OK("R15.6", FuncName(g)+" :: the per-caller goroutine does not modify the shared waiter table", fpos(g), "yes")
			} else {
				// the only edit a leaving caller may make: drop the entry when it was the last one sharing it
				onlyDeletes := true

				for _, in := range Find(g, guarded) {
					switch in.(type) {
					case *ssa.MapUpdate:
						onlyDeletes = false
					}
				}

				okDel := true
				if bad, _ := p.Reach(Entry(g), isDelete, CutSpec{Edges: lastSharerGone}); bad {
					okDel = false
				}

				c.Check(onlyDeletes && okDel, "R15.6", FuncName(g)+" :: the per-caller goroutine does not modify the shared waiter table", fpos(g), "only drops the entry behind a last-sharer (== 0) test",
					"a per-caller goroutine edits the shared teardownWaiters table: other callers waiting on the same id lose their wake-up")
			}
		} else {
			c.Bad("R15.6", FuncName(f)+" :: one waiter goroutine", fpos(f), fmt.Sprintf("%d goroutines", len(gos)))
		}
	}

	// ---------- error discipline (E8)
	errDisciplineFor(c, "C15")

	// ---------- R15.9 failure atomicity
	c.Rule("R15.9", "E8", "runtime cache: no method writes handler state and can still fail afterwards", 2)
	c.FailureAtomicity("R15.9", []string{pkgCache}, nil, pkgRRuntime, 4)

	// ---------- R15.10 writes bypass the cache
	c.Rule("R15.10", "E5", "read-modify-write operations of controllers go to the live state: adapters are built on runtime.state, and Create/Update/Modify/Teardown/Destroy/AddFinalizer/RemoveFinalizer of the state adapter never call into the read cache", 10)
	liveStateRules(c, "R15.10")

	// ---------- R15.11 one producer
	c.Rule("R15.11", "E5", "the cache has one producer, in watch order: CacheAppend / CachePut / CacheRemove / MarkBootstrapped are called only from the runtime's event loop (processEvents) — a second, unordered writer (write-through after a state operation, a refresh on read) could put an older version over a newer one or add an entry before the bootstrap snapshot", 4)

	nProd := 0
	loop := p.Method(pkgRuntime, "Runtime", "processEvents")

	for _, f := range p.AllOwnFuncs() {
		pk := pkgOfFunc(f)
		if strings.Contains(pk, "conformance") {
			continue
		}

		for _, call := range p.Calls(f, cacheT+".CacheAppend", cacheT+".CachePut", cacheT+".CacheRemove", cacheT+".MarkBootstrapped") {
			nProd++

			root := f
			for root.Parent() != nil {
				root = root.Parent()
			}

			ok := loop != nil && root == loop
			c.Check(ok, "R15.11", FuncName(f)+" :: "+strings.TrimPrefix(p.CalleeName(call), cacheT+".")+" is called from the event loop", call.Pos(), "runtime.processEvents", "a second producer of cache contents: "+FuncName(f))
		}
	}

	if nProd < 4 {
		c.Unknown("R15.11", "cache producers", token.NoPos, fmt.Sprintf("anchor-unresolved: %d producer call sites found, expected >= 4", nProd))
	}

}

func plainMutexOpAny(p *Program, name string) InstrPred {
	return func(in ssa.Instruction) bool {
		call, ok := in.(*ssa.Call)

		return ok && (p.CalleeName(call) == "(*sync.Mutex)."+name || p.CalleeName(call) == "(*sync.RWMutex)."+name)
	}
}

// liveStateRules: read-modify-write operations of a controller go to the live state, never through
// the runtime's read cache (which lags behind the state by the watch latency):
//   - the state handed to every controller adapter is the runtime's own state;
//   - the mutating methods of the controller state adapter do not call into the cache.
func liveStateRules(c *Ctx, rule string) {
	p := c.P

	for _, name := range []string{"RegisterController", "RegisterQController"} {
		f := p.Method(pkgRuntime, "Runtime", name)
		if !c.NeedFunc(rule, f, rtT+"."+name) {
			continue
		}

		n := 0

		for _, in := range Find(f, StoreToField("Options", "State")) {
			st := in.(*ssa.Store)
			n++

			c.Check(p.Desc(st.Val) == "*param#0.state", rule, FuncName(f)+" :: the adapter's state is the runtime's live state", in.Pos(), "runtime.state", "adapter state is "+p.DescN(st.Val, 3)+": reads that precede a controller's writes would be served from the lagging cache")
		}

		if n == 0 {
			c.Unknown(rule, FuncName(f)+" :: the adapter's state is the runtime's live state", fpos(f), "anchor-unresolved: no store to adapter Options.State")
		}
	}

	cacheCall := p.CallTo("(*" + pkgCache + ".ResourceCache).*")

	for _, name := range []string{"Create", "Update", "Modify", "ModifyWithResult", "Teardown", "Destroy", "AddFinalizer", "RemoveFinalizer"} {
		f := p.Method(pkgCtrlState, "StateAdapter", name)
		if !c.NeedFunc(rule, f, "StateAdapter."+name) {
			continue
		}

		c.Check(!p.ReachesCall(f, cacheCall, 3), rule, FuncName(f)+" :: a mutating operation does not consult the read cache", fpos(f), "no cache call", "the operation decides on a cached (possibly stale) copy of the resource")
	}
}
