package lint

import (
	"strings"

	"golang.org/x/tools/go/ssa"
)

const (
	pkgQTransform = "pkg/controller/generic/qtransform"
	pkgTransform  = "pkg/controller/generic/transform"
	pkgCleanup    = "pkg/controller/generic/cleanup"
	pkgDestroy    = "pkg/controller/generic/destroy"

	// canonical callee globs of the controller runtime API (interface methods are named after
	// the interface that declares them)
	gDestroy         = "(pkg/state/owned.Writer).Destroy"
	gTeardown        = "(pkg/state/owned.Writer).Teardown"
	gAddFinalizer    = "(pkg/state/owned.Writer).AddFinalizer"
	gRemoveFinalizer = "(pkg/state/owned.Writer).RemoveFinalizer"
	gWriterModify    = "pkg/safe.WriterModify*"
	gIsNotFound      = "pkg/state.IsNotFoundError"
)

func init() {
	register(&PropertyInfo{
		ID: "C07",
		Explanation: "Path-cut (must-precede) rules over the SSA control-flow graph of every generic controller: " +
			"within one reconcile, the controller's finalizer is put on the input before the output is written (R07.3/4), " +
			"an output is destroyed only behind the ready==true edge of its own Teardown or behind phase==TearingDown ∧ finalizers-empty (R07.1/2/5/7/8), " +
			"the input finalizer is released only behind Destroy(output)==nil / output-not-found / removal-handler==nil edges (R07.1/5/6/7), " +
			"and the store refuses Destroy with pending finalizers under the collection lock (R07.9). " +
			"Each obligation is decided by deleting the enabling edges and testing CFG reachability of the guarded call.",
		NotCovered: "orders between different reconciles and external actors (covered only by the store-level guard R07.9); " +
			"behaviour of user-supplied transform/finalizer-removal callbacks; liveness.",
		Assumptions: []string{
			"paths are over-approximated (no feasibility check): a discharged obligation holds on every feasible path",
			"controller.Writer methods behave as specified by C01/C03/C08 rules (Teardown ready flag, Destroy error)",
		},
		Run: runC07,
	})
}

func factNil(calleeGlob string) string   { return "nil(call:" + calleeGlob + "(*" }
func factTrue(calleeGlob string) string  { return "true(call:" + calleeGlob + "(*" }
func factFalse(calleeGlob string) string { return "false(call:" + calleeGlob + "(*" }

// mustCutEach demands that target is cut by EACH of the alternatives on its own (conjunction of guards).
func (c *Ctx) mustCutEach(rule, what string, f *ssa.Function, target InstrPred, minTargets int, guards map[string]EdgePred) {
	names := make([]string, 0, len(guards))
	for n := range guards {
		names = append(names, n)
	}

	sortStrings(names)

	for _, n := range names {
		c.MustCut(rule, what+" needs "+n, f, target, CutSpec{Edges: guards[n]}, minTargets)
	}
}

func runC07(c *Ctx) {
	p := c.P
	tearingDown := p.ConstVal("pkg/resource", "PhaseTearingDown")
	running := p.ConstVal("pkg/resource", "PhaseRunning")

	phaseIs := func(k string) EdgePred {
		return FactEdge("eq(call:(*pkg/resource.Metadata).Phase(*)," + k + ")")
	}
	finalizersEmpty := FactEdge(factTrue("(*pkg/resource.Finalizers).Empty"), factTrue("(pkg/resource.Finalizers).Empty"))

	// ---- R07.1 qtransform.reconcileTearingDown
	c.Rule("R07.1", "E1", "qtransform.reconcileTearingDown: RemoveFinalizer only after Destroy(output)==nil or output NotFound; Destroy only when Teardown ready; Teardown only after the removal callback succeeded", 3)

	f := p.Method(pkgQTransform, "QController", "reconcileTearingDown")
	c.MustCut("R07.1", "RemoveFinalizer ⊣ {Destroy==nil, IsNotFound(Teardown err)}", f, p.CallTo(gRemoveFinalizer),
		CutSpec{Edges: FactEdge(factNil(gDestroy), "true(call:"+gIsNotFound+"(call:"+gTeardown+"(*")}, 1)
	c.MustCut("R07.1", "Destroy ⊣ {Teardown ready}", f, p.CallTo(gDestroy),
		CutSpec{Edges: FactEdge("true(call:" + gTeardown + "(*)#0)")}, 1)
	c.MustCut("R07.1", "Teardown ⊣ {no removal callback, removal callback==nil}", f, p.CallTo(gTeardown),
		CutSpec{Edges: FactEdge("nil(*param#0.finalizerRemovalFunc)", "nil(call:dyn:*param#0.finalizerRemovalFunc(*")}, 1)

	// ---- R07.2 output destruction in the running path
	c.Rule("R07.2", "E1", "qtransform.handleOutputTearingDown / handleDestroyOutput: Destroy only behind phase==TearingDown ∧ Finalizers().Empty(), resp. behind Teardown ready", 3)

	f = p.Method(pkgQTransform, "QController", "handleOutputTearingDown")
	c.mustCutEach("R07.2", "Destroy", f, p.CallTo(gDestroy), 1, map[string]EdgePred{
		"phase==TearingDown": phaseIs(tearingDown),
		"finalizers empty":   finalizersEmpty,
	})

	f = p.Method(pkgQTransform, "QController", "handleDestroyOutput")
	c.MustCut("R07.2", "Destroy ⊣ {Teardown ready}", f, p.CallTo(gDestroy),
		CutSpec{Edges: FactEdge("true(call:" + gTeardown + "(*)#0)")}, 1)

	// ---- R07.3 qtransform.reconcileRunning
	c.Rule("R07.3", "E1", "qtransform.reconcileRunning: the output is modified only after the controller finalizer is on the input (already present, or AddFinalizer==nil) and after the pending-output-teardown check passed", 2)

	f = p.Method(pkgQTransform, "QController", "reconcileRunning")
	c.MustCut("R07.3", "WriterModify ⊣ {Finalizers().Has, AddFinalizer==nil}", f, p.CallTo(gWriterModify),
		CutSpec{Edges: FactEdge(factNil(gAddFinalizer), factTrue("(*pkg/resource.Finalizers).Has"), factTrue("(pkg/resource.Finalizers).Has"))}, 1)
	c.MustCut("R07.3", "WriterModify ⊣ {handleOutputTearingDown==nil}", f, p.CallTo(gWriterModify),
		CutSpec{Edges: FactEdge(factNil("(*" + pkgQTransform + ".QController[*]).handleOutputTearingDown"))}, 1)

	// ---- R07.4 transform.processInputs
	c.Rule("R07.4", "E1", "transform.processInputs: WriterModify only after the finalizer is on the input (input finalizers disabled, already present, or AddFinalizer==nil)", 1)

	f = p.Method(pkgTransform, "Controller", "processInputs")
	body := f

	if f != nil && len(Find(f, p.CallTo(gWriterModify))) == 0 {
		body = ClosureWith(f, p.CallTo(gWriterModify)) // range-over-func loop body
	}

	c.MustCut("R07.4", "WriterModify ⊣ {!inputFinalizers, finalizer present, AddFinalizer==nil}", body, p.CallTo(gWriterModify),
		CutSpec{Edges: FactEdge(factNil(gAddFinalizer), factFalse("(*pkg/resource.Finalizers).Add"), "false(*.options.inputFinalizers)")}, 1)

	// ---- R07.5 transform.cleanupOutputs
	c.Rule("R07.5", "E1", "transform.cleanupOutputs: each output iteration either destroyed the output or withdraws the pending input-finalizer removal; Destroy only when Teardown ready; RemoveFinalizer only for entries left in removeInputFinalizers", 3)

	f = p.Method(pkgTransform, "Controller", "cleanupOutputs")
	body = f

	if f != nil && len(Find(f, p.CallTo(gDestroy))) == 0 {
		body = ClosureWith(f, p.CallTo(gDestroy))
	}

	if body != nil && body != f {
		c.MustCut("R07.5", "iteration exit ⊣ {delete(removeInputFinalizers), Destroy==nil}", body, IsReturn,
			CutSpec{Nodes: MapWriteOnField("runState", "removeInputFinalizers"), Edges: FactEdge(factNil(gDestroy))}, 1)
	} else if c.NeedFunc("R07.5", f, "cleanupOutputs loop body") {
		// plain loop form: from the Teardown call, reaching the loop head again requires one of the events
		c.Unknown("R07.5", FuncName(f)+" :: iteration exit", fpos(f), "loop body is not a range-over-func closure; rule needs the closure form")
	}

	c.MustCut("R07.5", "Destroy ⊣ {Teardown ready}", body, p.CallTo(gDestroy),
		CutSpec{Edges: FactEdge("true(call:"+gTeardown+"(*)#0)", "true(*var:bool)", "true(*var:bool#*)")}, 1)

	if c.NeedFunc("R07.5", f, "cleanupOutputs") {
		n := 0

		for _, call := range p.Calls(f, gRemoveFinalizer) {
			n++
			d := p.ArgDesc(call, 2)
			c.Check(strings.Contains(d, "range(*") && strings.Contains(d, ".removeInputFinalizers"),
				"R07.5", FuncName(f)+" :: RemoveFinalizer target comes from removeInputFinalizers", call.Pos(), d, "target is "+d)
		}

		if n == 0 {
			c.Unknown("R07.5", FuncName(f)+" :: RemoveFinalizer loop", fpos(f), "anchor-unresolved: no RemoveFinalizer call")
		}
		// the loop over the map must come after the output loop: RemoveFinalizer is not reachable before the outputs were listed and iterated
		c.MustCut("R07.5", "RemoveFinalizer ⊣ {outputs iterated}", f, p.CallTo(gRemoveFinalizer),
			CutSpec{Nodes: p.CallTo("(pkg/safe.List[T]).All", "dyn:call:(pkg/safe.List[T]).All(*", "dyn:*")}, 1)
	}

	// ---- R07.6 transform.reconcileTearingDownInput
	c.Rule("R07.6", "E1", "transform.reconcileTearingDownInput: an input is scheduled for finalizer removal only if input finalizers are on, the finalizer is present, and the removal callback returned nil", 3)

	f = p.Method(pkgTransform, "Controller", "reconcileTearingDownInput")
	c.mustCutEach("R07.6", "removeInputFinalizers[id]=…", f, MapWriteOnField("runState", "removeInputFinalizers"), 1, map[string]EdgePred{
		"inputFinalizers":      FactEdge("true(*.options.inputFinalizers)"),
		"finalizer present":    FactEdge(factFalse("(*pkg/resource.Finalizers).Add")),
		"removal callback nil": FactEdge("nil(call:dyn:*param#0.finalizerRemovalFunc(*"),
	})

	// ---- R07.7 cleanup controller
	c.Rule("R07.7", "E1", "cleanup: RemoveFinalizer only after FinalizerRemoval returned nil (and not Skip-tagged) on a tearing-down input that has the finalizer; RemoveOutputs destroys only ready outputs and reports success only with nothing pending; HasNoOutputs succeeds only on an empty list", 7)

	f = p.Method(pkgCleanup, "Controller", "processInput")
	fr := "call:(" + pkgCleanup + ".Handler[*]).FinalizerRemoval(*"
	c.mustCutEach("R07.7", "RemoveFinalizer", f, p.CallTo(gRemoveFinalizer), 1, map[string]EdgePred{
		"FinalizerRemoval==nil": FactEdge("nil(" + fr),
		"not skip-tagged":       FactEdge("false(call:github.com/siderolabs/gen/xerrors.TagIs(" + fr),
		"finalizer present":     FactEdge(factTrue("(*pkg/resource.Finalizers).Has")),
		"phase==TearingDown":    phaseIs(tearingDown),
	})

	ro := p.Func(pkgCleanup, "RemoveOutputs")
	if c.NeedFunc("R07.7", ro, "cleanup.RemoveOutputs") {
		fin := ClosureWith(ro, p.CallTo("pkg/safe.ReaderList*")) // the finalizerRemoval closure
		loop := ClosureWith(ro, p.CallTo(gDestroy))

		c.MustCut("R07.7", "Destroy ⊣ {Teardown ready}", loop, p.CallTo(gDestroy),
			CutSpec{Edges: FactEdge("true(call:" + gTeardown + "(*)#0)")}, 1)
		c.mustCutEach("R07.7", "return nil", fin, ReturnsNilConst(0), 1, map[string]EdgePred{
			"no pending teardown": FactEdge("le(*free:var:int,const:0)", "le(*var:int,const:0)"),
			"no error":            FactEdge("nil(*free:var:error)", "nil(*var:error)", "nil(*free:var:error#*)", "nil(*var:error#*)"),
		})
	}

	hn := p.Func(pkgCleanup, "HasNoOutputs")
	if c.NeedFunc("R07.7", hn, "cleanup.HasNoOutputs") {
		fin := ClosureWith(hn, p.CallTo("(pkg/controller.Reader).List", "(pkg/controller.UncachedReader).List", "*.List"))
		c.MustCut("R07.7", "return nil ⊣ {len(list.Items)<=0}", fin, ReturnsNilConst(0),
			CutSpec{Edges: FactEdge("le(call:builtin.len(*),const:0)", "eq(call:builtin.len(*),const:0)")}, 1)
	}

	// combined handler: one handler still waiting / failing keeps the finalizer
	ch := p.Method(pkgCleanup, "combinedHandler", "FinalizerRemoval")
	if c.NeedFunc("R07.7", ch, pkgCleanup+".combinedHandler.FinalizerRemoval") {
		hcall := "(" + pkgCleanup + ".Handler[*]).FinalizerRemoval"
		calls := p.Calls(ch, hcall)
		nonnil := p.EdgeSuccs(ch, "nonnil(call:"+hcall+"(*")

		switch {
		case len(calls) != 1:
			c.Bad("R07.7", FuncName(ch)+" :: every handler's verdict counts", fpos(ch), "expected one FinalizerRemoval call site in the loop")
		case len(nonnil) == 0:
			c.Bad("R07.7", FuncName(ch)+" :: every handler's verdict counts", fpos(ch), "a handler's error is never tested")
		default:
			// accepted idioms: early return of the error (no further handler consulted), or accumulation (multierror.Append / errors.Join)
			accumulates := false

			for _, r := range *calls[0].Value().Referrers() {
				if cl, ok := r.(ssa.CallInstruction); ok {
					if cn := p.CalleeName(cl); Glob("github.com/hashicorp/go-multierror.Append", cn) || cn == "errors.Join" {
						accumulates = true
					}
				}
			}

			again, w := p.Reach(nonnil, p.CallTo(hcall), CutSpec{})
			nilRet, w2 := p.Reach(nonnil, ReturnsNilConst(0), CutSpec{})

			c.Check((!again || accumulates) && !nilRet, "R07.7", FuncName(ch)+" :: a non-nil handler result ends the pass with that error (or is accumulated)", fpos(ch),
				"early return / accumulation", "after a handler returned an error the loop continues and a later handler's nil can win: "+strings.Join(append(w, w2...), " "))
		}

		c.MustCut("R07.7", "combined return nil ⊣ {handler returned nil}", ch, ReturnsNilConst(0), CutSpec{Edges: FactEdge("nil(call:"+hcall+"(*", "ge(*", "le(call:builtin.len(*")}, 1)
	}

	// ---- R07.8 destroy controller
	c.Rule("R07.8", "E1", "destroy.Controller.Reconcile: Destroy only for a tearing-down, unowned resource without finalizers", 3)

	f = p.Method(pkgDestroy, "Controller", "Reconcile")
	c.mustCutEach("R07.8", "Destroy", f, p.CallTo(gDestroy), 1, map[string]EdgePred{
		"phase==TearingDown": phaseIs(tearingDown),
		"owner==\"\"":        FactEdge("eq(call:(*pkg/resource.Metadata).Owner(*),const:\"\")"),
		"finalizers empty":   finalizersEmpty,
	})

	// ---- R07.9 store-level guard (shared with C01/C03)
	c.Rule("R07.9", "E1", "inmem collection Destroy: removal from storage only behind the finalizers-empty edge, under the collection mutex", 1)
	storeDestroyGuard(c, "R07.9")

	_ = running

	// ---------- R07.10 a finalizer that could not be added is an error
	c.Rule("R07.10", "E1", "StateAdapter.AddFinalizer: an error of the state's AddFinalizer (NotFound included) reaches the controller — a controller never believes it holds a finalizer it does not hold", 1)

	c.errPropagates("R07.10", p.Method(pkgCtrlState, "StateAdapter", "AddFinalizer"), 1, "(*pkg/state/owned.State).AddFinalizer")

	// ---------- error discipline (E8)
	errDisciplineFor(c, "C07")

	// ---------- R07.12 (shared with C15 R15.10)
	c.Rule("R07.12", "E5", "finalizer and teardown decisions are taken on the live state: a NotFound or a finalizer set read from the lagging cache would release an input finalizer while the output still exists", 10)
	liveStateRules(c, "R07.12")

	// ---------- R07.13 (shared with C08 R08.8)
	c.Rule("R07.13", "E1", "Teardown / Destroy / AddFinalizer / RemoveFinalizer of the adapter report success (or readiness) only after the owned state's operation ran", 8)
	delegateBeforeSuccess(c, "R07.13")

}

// storeDestroyGuard: in ResourceCollection.Destroy, delete(storage) / backing-store Destroy /
// publish are reachable only via the Finalizers().Empty()==true edge.
func storeDestroyGuard(c *Ctx, rule string) {
	p := c.P
	f := p.Method("pkg/state/impl/inmem", "ResourceCollection", "Destroy")
	c.MustCut(rule, "delete(storage)/publish/store.Destroy ⊣ {Finalizers().Empty()}", f,
		OrInstr(MapWriteOnField("ResourceCollection", "storage"), p.CallTo("(*pkg/state/impl/inmem.ResourceCollection).publish", "(pkg/state/impl/inmem.BackingStore).Destroy")),
		CutSpec{Edges: FactEdge(factTrue("(*pkg/resource.Finalizers).Empty"), factTrue("(pkg/resource.Finalizers).Empty"))}, 2)
}
