package lint

import (
	"fmt"
	"sort"
	"strings"

	"golang.org/x/tools/go/ssa"
)

// E2 — lockset / guarded-by analysis.
//
// A LockSpec names a struct type, its mutex field and the fields the mutex protects. For every
// function of the given packages a forward must-hold analysis computes the minimum number of
// acquisitions of that mutex held at each instruction over all paths (Lock/RLock +1,
// non-deferred Unlock/RUnlock -1; a deferred Unlock keeps the lock until exit; Cond.Wait holds
// the lock before and after). A function that touches a guarded field (or calls a function that
// requires the lock) at depth 0 is summarised as requires-held and the obligation moves to its
// static call sites, to a fixpoint. Entry points that still require the lock — exported
// functions/methods, closures, functions used as values — are violations.

// LockSpec describes one guarded-by relation.
type LockSpec struct {
	Rel     string   // module-relative package of the struct
	Struct  string   // struct type name
	Mutex   string   // mutex field name
	Guarded []string // guarded field names
}

// LockInfo is the result of the analysis for one spec.
type LockInfo struct {
	Spec     LockSpec
	depthIn  map[*ssa.BasicBlock]int
	Requires map[*ssa.Function]string // function -> first reason it needs the lock held by callers
	Accesses int
	funcs    []*ssa.Function
	p        *Program
}

const lockTop = 1 << 20

func (li *LockInfo) lockOp(in ssa.Instruction) int {
	c, ok := in.(*ssa.Call) // deferred unlocks are *ssa.Defer and deliberately not counted
	if !ok {
		return 0
	}

	f := c.Call.StaticCallee()
	if f == nil || f.Signature.Recv() == nil || len(c.Call.Args) == 0 {
		return 0
	}

	fa, ok := c.Call.Args[0].(*ssa.FieldAddr)
	if !ok {
		return 0
	}

	sn, fld := FieldOf(fa.X, fa.Field)
	if sn != li.Spec.Struct || fld != li.Spec.Mutex {
		return 0
	}

	switch f.Name() {
	case "Lock", "RLock":
		return 1
	case "Unlock", "RUnlock":
		return -1
	}

	return 0
}

func (li *LockInfo) analyse(f *ssa.Function) {
	if len(f.Blocks) == 0 {
		return
	}

	for _, b := range f.Blocks {
		li.depthIn[b] = lockTop
	}

	li.depthIn[f.Blocks[0]] = 0

	for changed := true; changed; {
		changed = false

		for _, b := range f.Blocks {
			d := li.depthIn[b]
			if d == lockTop {
				continue
			}

			for _, in := range b.Instrs {
				d += li.lockOp(in)
			}

			for _, s := range b.Succs {
				if d < li.depthIn[s] {
					li.depthIn[s] = d
					changed = true
				}
			}
		}
	}
}

// HeldAt returns the must-hold depth just before instruction in.
func (li *LockInfo) HeldAt(in ssa.Instruction) int {
	b := in.Block()

	d, ok := li.depthIn[b]
	if !ok || d == lockTop {
		return 0
	}

	for _, x := range b.Instrs {
		if x == in {
			break
		}

		d += li.lockOp(x)
	}

	return d
}

func (li *LockInfo) guardedAccess(in ssa.Instruction) (string, bool) {
	var (
		x   ssa.Value
		idx int
	)

	switch fa := in.(type) {
	case *ssa.FieldAddr:
		x, idx = fa.X, fa.Field
	case *ssa.Field:
		x, idx = fa.X, fa.Field
	default:
		return "", false
	}

	sn, fld := FieldOf(x, idx)
	if sn != li.Spec.Struct {
		return "", false
	}

	for _, g := range li.Spec.Guarded {
		if g == fld {
			// an object freshly allocated in this function has not escaped yet (constructor)
			if al, ok := x.(*ssa.Alloc); ok && al.Heap {
				return "", false
			}

			return fld, true
		}
	}

	return "", false
}

// Lockset runs the analysis over the functions of the given packages.
func (p *Program) Lockset(spec LockSpec, rels ...string) *LockInfo {
	li := &LockInfo{Spec: spec, depthIn: map[*ssa.BasicBlock]int{}, Requires: map[*ssa.Function]string{}, p: p}

	for _, rel := range rels {
		li.funcs = append(li.funcs, p.PkgFuncs(rel)...)
	}

	for _, f := range li.funcs {
		li.analyse(f)
	}

	for _, f := range li.funcs {
		for _, b := range f.Blocks {
			for _, in := range b.Instrs {
				if fld, ok := li.guardedAccess(in); ok {
					li.Accesses++

					if li.HeldAt(in) <= 0 {
						if _, dup := li.Requires[f]; !dup {
							li.Requires[f] = fmt.Sprintf("accesses .%s at %s", fld, p.Pos(in.Pos()))
						}
					}
				}
			}
		}
	}

	for range 8 {
		grew := false

		for _, f := range li.funcs {
			if _, ok := li.Requires[f]; ok {
				continue
			}

			for _, b := range f.Blocks {
				for _, in := range b.Instrs {
					c, ok := in.(*ssa.Call) // go/defer of a requires-held function never holds the lock at run time: handled below
					if !ok {
						continue
					}

					cal := StaticOrClosureCallee(c)
					if cal == nil {
						continue
					}

					if why, req := li.Requires[cal]; req && li.HeldAt(in) <= 0 {
						li.Requires[f] = fmt.Sprintf("calls %s (%s) at %s", FuncName(cal), why, p.Pos(in.Pos()))
						grew = true
					}
				}
			}
		}

		if !grew {
			break
		}
	}

	return li
}

// isEntry: can f be invoked by code that the analysis cannot see holding the lock?
func (li *LockInfo) isEntry(f *ssa.Function) (bool, string) {
	if f.Parent() != nil {
		// a closure: entry unless it is only ever called directly (immediately-invoked or via a local)
		mc := li.p.ClosureSite(f)
		if mc == nil {
			return true, "closure without a visible creation site"
		}

		for _, r := range *mc.Referrers() {
			switch rr := r.(type) {
			case *ssa.Call:
				if rr.Call.Value != ssa.Value(mc) {
					return true, "closure passed as an argument at " + li.p.Pos(rr.Pos())
				}
			case *ssa.Go:
				return true, "closure started as a goroutine at " + li.p.Pos(rr.Pos())
			case *ssa.Defer:
				return true, "deferred closure at " + li.p.Pos(rr.Pos())
			case *ssa.DebugRef:
			default:
				return true, "closure escapes as a value at " + li.p.Pos(r.Pos())
			}
		}

		return false, ""
	}

	if obj := f.Object(); obj != nil && obj.Exported() {
		return true, "exported"
	}

	// referenced as a value (method value / function value)?
	for _, g := range li.p.AllOwnFuncs() {
		for _, b := range g.Blocks {
			for _, in := range b.Instrs {
				for _, op := range in.Operands(nil) {
					if *op == ssa.Value(f) {
						if c, ok := in.(ssa.CallInstruction); ok && c.Common().Value == ssa.Value(f) {
							if _, isCall := in.(*ssa.Call); isCall {
								continue
							}

							return true, "started with go/defer at " + li.p.Pos(in.Pos())
						}

						return true, "used as a value at " + li.p.Pos(in.Pos())
					}
				}
			}
		}
	}

	return false, ""
}

// Report turns the analysis into obligations: one per function that touches guarded state.
// exceptions maps FuncName -> reason for accepted lock-free entry points.
func (c *Ctx) LocksetReport(rule string, li *LockInfo, exceptions map[string]string) {
	type row struct {
		f        *ssa.Function
		accesses int
		calls    int
	}

	rows := map[*ssa.Function]*row{}

	for _, f := range li.funcs {
		for _, b := range f.Blocks {
			for _, in := range b.Instrs {
				if _, ok := li.guardedAccess(in); ok {
					if rows[f] == nil {
						rows[f] = &row{f: f}
					}

					rows[f].accesses++
				}

				if cl, ok := in.(*ssa.Call); ok {
					if cal := StaticOrClosureCallee(cl); cal != nil {
						if _, req := li.Requires[cal]; req {
							if rows[f] == nil {
								rows[f] = &row{f: f}
							}

							rows[f].calls++
						}
					}
				}
			}
		}
	}

	var fs []*ssa.Function
	for f := range rows {
		fs = append(fs, f)
	}

	sort.Slice(fs, func(i, j int) bool { return FuncName(fs[i]) < FuncName(fs[j]) })

	usedExc := map[string]bool{}

	for _, f := range fs {
		c.Touch(f)

		r := rows[f]
		construct := fmt.Sprintf("%s :: %s.%s held at guarded accesses", FuncName(f), li.Spec.Struct, li.Spec.Mutex)
		why, req := li.Requires[f]

		if !req {
			c.OK(rule, construct, fpos(f), fmt.Sprintf("%d guarded access(es), %d call(s) to requires-held helpers, all with the lock held", r.accesses, r.calls))

			continue
		}

		entry, how := li.isEntry(f)
		if !entry {
			c.OK(rule, construct, fpos(f), "requires-held helper ("+why+"); every static caller holds the lock or is itself checked")

			continue
		}

		if reason, ok := exceptions[FuncName(f)]; ok {
			usedExc[FuncName(f)] = true
			c.OK(rule, construct, fpos(f), "accepted exception: "+reason)

			continue
		}

		c.Bad(rule, construct, fpos(f), fmt.Sprintf("lock not held: %s; and the function is an entry point (%s)", why, how))
	}

	// a function must not release a lock it does not hold itself: a requires-held helper that
	// unlocks (and re-locks) the caller's mutex breaks the atomicity of the caller's check-then-act
	for _, f := range li.funcs {
		for _, b := range f.Blocks {
			for _, in := range b.Instrs {
				if li.lockOp(in) == -1 && li.HeldAt(in) <= 0 {
					c.Bad(rule, FuncName(f)+" :: releases "+li.Spec.Struct+"."+li.Spec.Mutex+" which it did not acquire", in.Pos(),
						"the caller's critical section is split: guards evaluated before this call no longer hold after it")
				}
			}
		}
	}

	for name := range exceptions {
		if !usedExc[name] {
			// an exception that no longer matches anything is stale but harmless; say so without failing
			c.OK(rule, "exception "+name+" (unused)", 0, "listed exception did not match any lock-free entry point on this tree")
		}
	}

	if li.Accesses == 0 {
		c.Unknown(rule, "anchor-unresolved: "+li.Spec.Struct+" guarded fields", 0, "no access to "+strings.Join(li.Spec.Guarded, ",")+" found")
	}
}
