package lint

import (
	"fmt"
	"go/types"
	"strings"

	"golang.org/x/tools/go/ssa"
)

const (
	pkgResource = "pkg/resource"
	pkgKV       = "pkg/resource/internal/kv"
	gDeepCopy   = "(pkg/resource.Resource).DeepCopy"
)

func init() {
	register(&PropertyInfo{
		ID: "C19",
		Explanation: "Isolation is a provenance property of the code shape. R19.1: what the collection stores, publishes and persists derives from DeepCopy() of the caller's object (or from the backing-store loader), never the parameter itself. " +
			"R19.2: every resource that can reach a return value of the collection's Get/List and of the cache handler's get/list derives from a DeepCopy() result (direct call, or xslices.Map(_, Resource.DeepCopy)); shared map/slice elements never flow out. " +
			"R19.3: copy-on-write — in Finalizers and KV (incl. the temp view) every in-place element write, append, map update and delete operates on an object created in the same call (slices.Clone / make / maps.Clone) or, for the temp view, behind the dirty==true edge, and dirty is set only together with a fresh map. " +
			"R19.4: the DeepCopy implementations of the module build a new object whose mutable parts are copied (spec.DeepCopy(), cloned bytes; metadata by value, safe by R19.3). " +
			"R19.5: raw label/annotation maps obtained through Raw() are only read inside the module.",
		NotCovered: "DeepCopy of user-defined spec types (their own obligation); watch events (out of the property's scope: events are shared by design); aliasing introduced by third-party code holding a Raw() map.",
		Assumptions: []string{
			"slices.Clone / maps.Clone / make return fresh backing storage",
			"resource.Metadata is copied by value; its reference-typed parts (labels, annotations, finalizers) are only mutated through the methods checked by R19.3",
		},
		Run: runC19,
	})
}

// resourceFresh reports whether value v (a resource.Resource) certainly is a private copy.
func (p *Program) resourceFresh(v ssa.Value) bool {
	v = Fwd(v)
	if isNilConst(v) {
		return true
	}

	if phi, ok := v.(*ssa.Phi); ok {
		for _, e := range phi.Edges {
			if !p.resourceFresh(e) {
				return false
			}
		}

		return true
	}

	call, _ := CallOf(v)

	return call != nil && p.CalleeName(call) == gDeepCopy
}

// sliceFresh reports whether every element of slice value v certainly is a private copy.
func (p *Program) sliceFresh(v ssa.Value, seen map[ssa.Value]bool) bool {
	v = Fwd(v)
	if seen[v] {
		return true
	}

	seen[v] = true

	switch x := v.(type) {
	case *ssa.Const:
		return true // nil slice
	case *ssa.MakeSlice:
		return true
	case *ssa.Phi:
		for _, e := range x.Edges {
			if !p.sliceFresh(e, seen) {
				return false
			}
		}

		return true
	case *ssa.UnOp:
		// load of a field of a local struct (result.Items): every store into that field must be fresh
		if fa, ok := x.X.(*ssa.FieldAddr); ok {
			if al, ok := fa.X.(*ssa.Alloc); ok {
				n := 0

				for _, r := range *al.Referrers() {
					fa2, ok := r.(*ssa.FieldAddr)
					if !ok || fa2.Field != fa.Field {
						continue
					}

					for _, rr := range *fa2.Referrers() {
						if st, ok := rr.(*ssa.Store); ok && st.Addr == ssa.Value(fa2) {
							n++

							if !p.sliceFresh(st.Val, seen) {
								return false
							}
						}
					}
				}

				return n > 0
			}
		}

		return false
	case *ssa.Call:
		cn := p.CalleeName(x)

		switch {
		case cn == "builtin.append":
			if !p.sliceFresh(x.Call.Args[0], seen) {
				return false
			}

			if len(x.Call.Args) < 2 {
				return true
			}

			elems, ok := VarargElems(x.Call.Args[1])
			if !ok {
				return p.sliceFresh(x.Call.Args[1], seen)
			}

			for _, e := range elems {
				if !p.resourceFresh(e) {
					return false
				}
			}

			return true
		case cn == "github.com/siderolabs/gen/xslices.Map":
			fn := Fwd(x.Call.Args[1])
			if f, ok := fn.(*ssa.Function); ok {
				return strings.Contains(f.Name(), "DeepCopy") && strings.Contains(f.String(), "pkg/resource.Resource")
			}

			return false
		}
	}

	return false
}

func runC19(c *Ctx) {
	p := c.P

	// ---------- R19.1 copies in
	c.Rule("R19.1", "E3", "the collection stores/publishes/persists the DeepCopy of the caller's object, never the parameter", 10)
	c01Effects(c, "R19.1",
		p.Method(pkgInmem, "ResourceCollection", "Create"),
		p.Method(pkgInmem, "ResourceCollection", "Update"),
		p.Method(pkgInmem, "ResourceCollection", "Destroy"))

	// the deep copy is taken before the lock is needed and from the parameter itself
	for _, name := range []string{"Create", "Update"} {
		f := p.Method(pkgInmem, "ResourceCollection", name)
		if !c.NeedFunc("R19.1", f, collT+"."+name) {
			continue
		}

		dc := p.Calls(f, gDeepCopy)
		ok := len(dc) == 1 && p.ArgDesc(dc[0], 0) == "param#2"
		c.Check(ok, "R19.1", FuncName(f)+" :: exactly one DeepCopy, of the caller's object", fpos(f), "yes", fmt.Sprintf("%d DeepCopy calls", len(dc)))
	}

	// ---------- R19.2 copies out
	c.Rule("R19.2", "E3", "every resource reaching a return value of Get/List (collection and cache handler) is a DeepCopy result", 4)

	for _, spec := range []struct{ rel, recv, name string }{
		{pkgInmem, "ResourceCollection", "Get"},
		{pkgInmem, "ResourceCollection", "List"},
		{pkgCache, "cacheHandler", "get"},
		{pkgCache, "cacheHandler", "list"},
	} {
		f := p.Method(spec.rel, spec.recv, spec.name)
		if !c.NeedFunc("R19.2", f, spec.rel+"."+spec.recv+"."+spec.name) {
			continue
		}

		bad := ""
		nret := 0

		for _, in := range Find(f, IsReturn) {
			r := in.(*ssa.Return)
			v := Fwd(r.Results[0])
			nret++

			switch {
			case types.Identical(v.Type(), p.Named(pkgResource, "Resource")):
				if !p.resourceFresh(v) {
					bad = "returns " + p.Desc(v)
				}
			default:
				// resource.List: a struct with an Items slice
				items := listItems(v)
				if items == nil {
					if k, ok := v.(*ssa.Const); ok && k.Value == nil {
						continue // zero List{}
					}

					bad = "cannot resolve the Items of the returned list: " + p.Desc(v)

					continue
				}

				if !p.sliceFresh(items, map[ssa.Value]bool{}) {
					bad = "returned list items are not all DeepCopy results: " + p.Desc(items)
				}
			}
		}

		c.Check(bad == "" && nret > 0, "R19.2", FuncName(f)+" :: returned resources are private copies", fpos(f), fmt.Sprintf("%d return(s), all fresh", nret), bad)
	}

	// the public cache/collection wrappers return what these functions return, unmodified
	for _, spec := range []struct{ rel, recv, name, inner string }{
		{pkgCache, "ResourceCache", "Get", "(*" + pkgCache + ".cacheHandler).get"},
		{pkgCache, "ResourceCache", "List", "(*" + pkgCache + ".cacheHandler).list"},
	} {
		f := p.Method(spec.rel, spec.recv, spec.name)
		if !c.NeedFunc("R19.2", f, spec.rel+"."+spec.recv+"."+spec.name) {
			continue
		}

		ok := true

		for _, in := range Find(f, IsReturn) {
			r := in.(*ssa.Return)
			call, _ := CallOf(r.Results[0])

			if call == nil || p.CalleeName(call) != spec.inner {
				if k, isConst := Fwd(r.Results[0]).(*ssa.Const); isConst && k.Value == nil {
					continue
				}

				ok = false
			}
		}

		c.Check(ok, "R19.2", FuncName(f)+" :: returns the handler's (fresh) result", fpos(f), "yes", "returns something else than the handler's result")
	}

	// ---------- R19.3 copy-on-write
	c.Rule("R19.3", "E3", "Finalizers / KV / tempKV: every in-place write targets storage created in the same call, or (temp view) sits behind dirty==true; dirty is set only with a fresh map", 10)

	// slice transformers that reuse the backing array of their first argument
	sliceMutators := []string{"builtin.append", "slices.Delete", "slices.DeleteFunc", "slices.Insert", "slices.Grow", "slices.Compact", "slices.CompactFunc", "slices.Replace"}

	var fresh func(v ssa.Value) bool

	fresh = func(v ssa.Value) bool {
		v = Fwd(v)

		switch x := v.(type) {
		case *ssa.MakeMap, *ssa.MakeSlice:
			return true
		case *ssa.Slice:
			return fresh(x.X)
		}

		if isNilConst(v) {
			return true
		}

		call, _ := CallOf(v)
		if call == nil {
			return false
		}

		cn := p.CalleeName(call)
		if cn == "maps.Clone" || cn == "slices.Clone" {
			return true
		}

		// append onto a clipped slice (cap == len) with at least one element always reallocates
		if cn == "builtin.append" && len(call.Common().Args) == 2 && !isNilConst(call.Common().Args[1]) {
			if base, _ := CallOf(Fwd(call.Common().Args[0])); base != nil && p.CalleeName(base) == "slices.Clip" {
				return true
			}
		}

		// a transformer applied to storage created in this call stays in that storage
		if GlobAny(sliceMutators, cn) && len(call.Common().Args) > 0 {
			return fresh(call.Common().Args[0])
		}

		return false
	}

	// Finalizers
	for _, m := range p.Methods(pkgResource, "Finalizers") {
		if m.Signature.Recv() == nil {
			continue
		}

		if _, ptr := m.Signature.Recv().Type().(*types.Pointer); !ptr {
			// value receiver: must not write at all
			writes := Find(m, func(in ssa.Instruction) bool {
				switch x := in.(type) {
				case *ssa.Store:
					_, isIdx := x.Addr.(*ssa.IndexAddr)

					return isIdx
				case *ssa.Call:
					return p.CalleeName(x) == "builtin.append"
				}

				return false
			})
			c.Check(len(writes) == 0, "R19.3", FuncName(m)+" :: read-only", fpos(m), "no element write / append", "value-receiver method writes to the shared backing array")

			continue
		}

		c.Touch(m)

		freshStore := func(in ssa.Instruction) bool {
			st, ok := in.(*ssa.Store)

			return ok && p.Desc(st.Addr) == "param#0" && fresh(st.Val)
		}
		inPlace := func(in ssa.Instruction) bool {
			switch x := in.(type) {
			case *ssa.Store:
				_, isIdx := x.Addr.(*ssa.IndexAddr)

				return isIdx && !isVarargStore(x)
			case *ssa.Call:
				// append / slices.Delete / … onto something that is not this call's own storage
				return GlobAny(sliceMutators, p.CalleeName(x)) && len(x.Call.Args) > 0 && !fresh(x.Call.Args[0]) && !fresh(x)
			}

			return false
		}

		if len(Find(m, inPlace)) > 0 {
			c.MustCut("R19.3", "in-place writes ⊣ {*fins = slices.Clone(...)}", m, inPlace, CutSpec{Nodes: freshStore}, 1)
		}

		// every store to *fins is a fresh slice or an append (which R above puts behind the clone)
		okStores := true

		for _, in := range Find(m, func(in ssa.Instruction) bool { st, ok := in.(*ssa.Store); return ok && p.Desc(st.Addr) == "param#0" }) {
			st := in.(*ssa.Store)
			call, _ := CallOf(st.Val)

			if !fresh(st.Val) && (call == nil || !GlobAny(sliceMutators, p.CalleeName(call))) {
				okStores = false
			}
		}

		c.Check(okStores, "R19.3", FuncName(m)+" :: the receiver is only ever assigned a fresh slice or an append onto it", fpos(m), "yes", "receiver assigned an aliasing slice")
	}

	// KV and tempKV
	for _, recv := range []string{"KV", "tempKV"} {
		for _, m := range p.Methods(pkgKV, recv) {
			c.Touch(m)

			mapWrites := Find(m, func(in ssa.Instruction) bool {
				switch x := in.(type) {
				case *ssa.MapUpdate:
					return true
				case *ssa.Call:
					return p.CalleeName(x) == "builtin.delete"
				}

				return false
			})

			for _, w := range mapWrites {
				var mv ssa.Value

				switch x := w.(type) {
				case *ssa.MapUpdate:
					mv = x.Map
				case *ssa.Call:
					mv = x.Call.Args[0]
				}

				construct := FuncName(m) + " :: map write on " + p.Desc(mv)

				if fresh(mv) {
					c.OK("R19.3", construct, w.Pos(), "map created in this call")

					continue
				}

				if !LoadsField(mv, recv, "m") {
					c.Bad("R19.3", construct, w.Pos(), "writes to a map that is neither fresh nor the receiver's own field")

					continue
				}

				cut := CutSpec{Nodes: func(in ssa.Instruction) bool {
					st, ok := in.(*ssa.Store)
					if !ok {
						return false
					}

					return StoreToField(recv, "m")(in) && fresh(st.Val)
				}}

				if recv == "tempKV" {
					cut.Edges = FactEdge("true(*param#0.dirty)")
				}

				bad, wit := p.Reach(Entry(m), func(in ssa.Instruction) bool { return in == w }, cut)
				if bad {
					c.Bad("R19.3", construct, w.Pos(), "shared map written in place: "+strings.Join(wit, " "))
				} else {
					c.OK("R19.3", construct, w.Pos(), "behind a fresh-map assignment"+map[bool]string{true: " or dirty==true", false: ""}[recv == "tempKV"])
				}
			}

			if recv == "tempKV" {
				// "dirty ⇒ the map is private": no execution sets dirty and then leaves the method (or writes
				// the map) without a fresh-map assignment somewhere on the way — before or after the flag store
				freshStore := func(in ssa.Instruction) bool {
					st, ok := in.(*ssa.Store)

					return ok && StoreToField("tempKV", "m")(in) && fresh(st.Val)
				}
				dirtyStore := StoreToField("tempKV", "dirty")
				construct := FuncName(m) + " :: dirty=true ⊣ {tmp.m = fresh map}"

				if len(Find(m, dirtyStore)) == 0 {
					c.OK("R19.3", construct, fpos(m), "does not set dirty")
				} else {
					// (an execution on which the view already was dirty keeps the private map it has)
					alreadyDirty := FactEdge("true(*param#0.dirty)")
					before, w1 := p.Reach(Entry(m), dirtyStore, CutSpec{Nodes: freshStore, Edges: alreadyDirty})
					after, w2 := p.Reach(After(m, dirtyStore), OrInstr(IsReturn, MapWriteOnField("tempKV", "m")), CutSpec{Nodes: freshStore})

					if before && after {
						c.Bad("R19.3", construct, fpos(m), "dirty is set without the map having been replaced by a private copy: "+strings.Join(w1, " ")+" … "+strings.Join(w2, " "))
					} else {
						c.OK("R19.3", construct, fpos(m), "every execution that sets dirty also installs a fresh map before the map is written or the method returns")
					}
				}
			}
		}
	}

	// the view handed to a Do callback starts clean: a fresh literal, or — a recycled wrapper — one whose dirty flag
	// was reset (or the whole struct overwritten) since it was obtained
	if f := p.Method(pkgKV, "KV", "Do"); c.NeedFunc("R19.3", f, "KV.Do") {
		n := 0

		for _, in := range Find(f, func(in ssa.Instruction) bool {
			call, ok := in.(*ssa.Call)
			if !ok || call.Call.IsInvoke() || StaticOrClosureCallee(call) != nil {
				return false
			}

			_, isParam := call.Call.Value.(*ssa.Parameter)

			return isParam
		}) {
			call := in.(*ssa.Call)
			if len(call.Call.Args) != 1 {
				continue
			}

			n++

			arg := call.Call.Args[0]
			if mi, ok := arg.(*ssa.MakeInterface); ok {
				arg = mi.X
			}

			if al, ok := arg.(*ssa.Alloc); ok && al.Comment == "complit" {
				_, sets := allocFields(al)["dirty"]
				c.Check(!sets, "R19.3", FuncName(f)+" :: the view handed to the callback starts with dirty unset", call.Pos(), "fresh literal", "the literal sets dirty")

				continue
			}

			view := arg
			reset := func(i ssa.Instruction) bool {
				st, ok := i.(*ssa.Store)
				if !ok {
					return false
				}

				// whole struct overwritten, or dirty = false
				if st.Addr == view {
					return true
				}

				return StoreToField("tempKV", "dirty")(i) && p.Desc(st.Val) == "const:false"
			}

			bad, w := p.Reach(Entry(f), func(i ssa.Instruction) bool { return i == ssa.Instruction(call) }, CutSpec{Nodes: reset})
			c.Check(!bad, "R19.3", FuncName(f)+" :: the view handed to the callback starts with dirty unset", call.Pos(), "recycled wrapper reset before use",
				"a wrapper that is not a fresh literal reaches the callback without its dirty flag having been cleared — dirty means 'the map is private', so the first write goes into the shared map: "+strings.Join(w, " "))
		}

		if n == 0 {
			c.Unknown("R19.3", FuncName(f)+" :: the view handed to the callback starts with dirty unset", fpos(f), "anchor-unresolved: no call of the callback parameter found")
		}
	}

	// tempKV literals start clean
	for _, f := range p.PkgFuncs(pkgKV) {
		for _, in := range Find(f, func(in ssa.Instruction) bool { al, ok := in.(*ssa.Alloc); return ok && al.Comment == "complit" }) {
			al := in.(*ssa.Alloc)
			if n, ok := al.Type().(*types.Pointer).Elem().(*types.Named); ok && n.Obj().Name() == "tempKV" {
				_, sets := allocFields(al)["dirty"]
				c.Check(!sets, "R19.3", FuncName(f)+" :: tempKV literal starts with dirty unset", al.Pos(), "dirty is zero", "temp view created already dirty: first write would hit the shared map")
			}
		}
	}

	// ---------- R19.4 DeepCopy implementations
	c.Rule("R19.4", "E3", "DeepCopy implementations of the module return a new object with copied mutable parts", 3)

	if f := p.Method("pkg/resource/typed", "Resource", "DeepCopy"); c.NeedFunc("R19.4", f, "typed.Resource.DeepCopy") {
		ok := false
		d := ""

		for _, in := range Find(f, IsReturn) {
			v := Fwd(in.(*ssa.Return).Results[0])
			if al, isAlloc := v.(*ssa.Alloc); isAlloc && al.Heap {
				fields := allocFields(al)
				d = p.Desc(fields["spec"]) + " / " + p.Desc(fields["md"])
				ok = Glob("call:(*.DeepCopyable[T]).DeepCopy(*param#0.spec)", p.Desc(fields["spec"])) && p.Desc(fields["md"]) == "*param#0.md"
			}
		}

		c.Check(ok, "R19.4", FuncName(f)+" :: new struct{spec.DeepCopy(), md by value}", fpos(f), d, "typed DeepCopy is not {spec.DeepCopy(), md}: "+d)
	}

	if f := p.Method("pkg/resource/protobuf", "Resource", "DeepCopy"); c.NeedFunc("R19.4", f, "protobuf.Resource.DeepCopy") {
		ok := false
		d := ""

		for _, in := range Find(f, IsReturn) {
			v := Fwd(in.(*ssa.Return).Results[0])
			if al, isAlloc := v.(*ssa.Alloc); isAlloc && al.Heap {
				ok = true
			}
		}
		// the protobuf bytes are cloned wherever they are copied over
		for _, in := range Find(f, StoreToField("protoSpec", "protobuf")) {
			st := in.(*ssa.Store)
			d = p.Desc(st.Val)

			// (a nil source stays nil: joins with the nil constant are fine)
			// (of the receiver's bytes, read directly or through a local copy of the spec struct)
			if !p.LeavesMatch(st.Val, "call:slices.Clone(*param#0.spec.protobuf)", "call:slices.Clone(*var:*.protobuf)") {
				ok = false
			}
		}

		c.Check(ok && d != "", "R19.4", FuncName(f)+" :: new struct, protobuf bytes cloned", fpos(f), d, "bytes not cloned: "+d)
	}

	if f := p.Method(pkgResource, "Any", "DeepCopy"); c.NeedFunc("R19.4", f, "resource.Any.DeepCopy") {
		ok := false

		for _, in := range Find(f, IsReturn) {
			if al, isAlloc := Fwd(in.(*ssa.Return).Results[0]).(*ssa.Alloc); isAlloc && al.Heap {
				ok = true
			}
		}

		c.Check(ok, "R19.4", FuncName(f)+" :: returns a new object", fpos(f), "yes", "returns the receiver")
	}

	// Metadata has no method that hands out a mutable reference to shared storage other than through the COW types
	c.Rule("R19.4b", "E5", "resource.Metadata accessors returning reference types return pointers to the COW-protected fields only (Labels/Annotations/Finalizers)", 3)

	for _, m := range p.Methods(pkgResource, "Metadata") {
		if m.Signature.Results().Len() != 1 {
			continue
		}

		rt := m.Signature.Results().At(0).Type()
		if _, isPtr := rt.(*types.Pointer); !isPtr {
			continue
		}

		allowed := map[string]bool{"Labels": true, "Annotations": true, "Finalizers": true}
		c.Check(allowed[m.Name()], "R19.4b", FuncName(m)+" :: pointer-returning accessor is one of the COW-protected fields", fpos(m), "allowed", "Metadata exposes a pointer to "+rt.String())
	}

	// ---------- R19.5 raw map exposure
	c.Rule("R19.5", "E5", "maps obtained through KV.Raw() (and its Labels/Annotations wrappers) are never written inside the module", 1)

	n := 0

	for _, f := range p.AllOwnFuncs() {
		for _, call := range p.Calls(f, "(*"+pkgKV+".KV).Raw", "(*pkg/resource.Labels).Raw", "(*pkg/resource.Annotations).Raw", "(pkg/resource.Labels).Raw", "(pkg/resource.Annotations).Raw") {
			v := call.Value()
			if v == nil {
				continue
			}

			n++
			bad := ""

			var visit func(v ssa.Value, d int)

			visit = func(v ssa.Value, d int) {
				if d > 4 || v.Referrers() == nil {
					return
				}

				for _, r := range *v.Referrers() {
					switch x := r.(type) {
					case *ssa.MapUpdate:
						if x.Map == v {
							bad = "map updated at " + p.Pos(x.Pos())
						}
					case *ssa.Call:
						if p.CalleeName(x) == "builtin.delete" && x.Call.Args[0] == v {
							bad = "delete at " + p.Pos(x.Pos())
						}

						if cn := p.CalleeName(x); cn == "maps.Copy" && x.Call.Args[0] == v || cn == "builtin.clear" {
							bad = cn + " at " + p.Pos(x.Pos())
						}
					case *ssa.Phi:
						visit(x, d+1)
					case *ssa.ChangeType:
						visit(x, d+1)
					}
				}
			}

			visit(v, 0)
			c.Touch(f)
			c.Check(bad == "", "R19.5", FuncName(f)+" :: Raw() map is only read", call.Pos(), "no write through the raw map", bad)
		}
	}

	if n == 0 {
		c.Unknown("R19.5", "anchor-unresolved: Raw() call sites", 0, "no call site of Raw() found")
	}
}

// listItems resolves the Items slice of a resource.List value built in the function.
func listItems(v ssa.Value) ssa.Value {
	u, ok := v.(*ssa.UnOp)
	if !ok {
		return nil
	}

	al, ok := u.X.(*ssa.Alloc)
	if !ok {
		return nil
	}

	// synthesise a load of the field: reuse sliceFresh's "load of local struct field" case
	for _, r := range *al.Referrers() {
		fa, ok := r.(*ssa.FieldAddr)
		if !ok {
			continue
		}

		if _, name := FieldOf(fa.X, fa.Field); name != "Items" {
			continue
		}

		// prefer an actual load if one exists, else any stored value chain
		for _, rr := range *fa.Referrers() {
			if ld, ok := rr.(*ssa.UnOp); ok {
				return ld
			}
		}

		for _, rr := range *fa.Referrers() {
			if st, ok := rr.(*ssa.Store); ok && st.Addr == ssa.Value(fa) {
				return st.Val
			}
		}
	}

	return nil
}

func isVarargStore(st *ssa.Store) bool {
	ia, ok := st.Addr.(*ssa.IndexAddr)
	if !ok {
		return false
	}

	al, ok := ia.X.(*ssa.Alloc)

	return ok && al.Comment == "varargs"
}
