package lint

import (
	"fmt"
	"go/constant"
	"go/token"
	"go/types"
	"sort"
	"strings"

	"golang.org/x/tools/go/ssa"
)

// ---------- value resolution ----------

// Fwd resolves a value through interface/type conversions and store->load forwarding
// (block-local, or function-wide for a non-escaping local with exactly one store).
func Fwd(v ssa.Value) ssa.Value {
	for range 32 {
		switch x := v.(type) {
		case *ssa.UnOp:
			if x.Op == token.MUL {
				if s := forwardedStore(x); s != nil {
					v = s.Val

					continue
				}
			}

			return v
		case *ssa.ChangeInterface:
			v = x.X
		case *ssa.MakeInterface:
			v = x.X
		case *ssa.ChangeType:
			v = x.X
		case *ssa.Phi:
			// a phi whose incoming values all forward to the same value is that value
			var one ssa.Value

			for _, e := range x.Edges {
				if e == x {
					continue
				}

				if one == nil {
					one = e
				} else if one != e {
					return v
				}
			}

			if one == nil {
				return v
			}

			v = one
		default:
			return v
		}
	}

	return v
}

func forwardedStore(load *ssa.UnOp) *ssa.Store {
	b := load.Block()
	if b == nil {
		return nil
	}

	idx := -1

	for i, in := range b.Instrs {
		if in == ssa.Instruction(load) {
			idx = i

			break
		}
	}

	for i := idx - 1; i >= 0; i-- {
		if st, ok := b.Instrs[i].(*ssa.Store); ok && sameAddr(st.Addr, load.X) {
			return st
		}
	}

	// function-wide: a local Alloc that is stored exactly once (closures that capture it included)
	// and whose address does not otherwise escape.
	if al, ok := load.X.(*ssa.Alloc); ok {
		if only := SingleStore(al); only != nil && only.Block().Parent() == b.Parent() && dominates(only.Block(), b) && only.Block() != b {
			return only
		}
	}

	return nil
}

// SingleStore returns the only store ever made to the local variable al, looking also into the
// closures that capture it by reference; nil if there are several stores, none, or the address
// escapes in any other way (passed to a call, stored, sliced, ...).
func SingleStore(al *ssa.Alloc) *ssa.Store {
	var (
		only  *ssa.Store
		count int
		bad   bool
	)

	var visit func(addr ssa.Value, depth int)

	visit = func(addr ssa.Value, depth int) {
		if depth > 6 || addr.Referrers() == nil {
			bad = true

			return
		}

		for _, r := range *addr.Referrers() {
			switch rr := r.(type) {
			case *ssa.Store:
				if rr.Addr != addr {
					bad = true // the address itself is stored somewhere

					return
				}

				count++
				only = rr
			case *ssa.UnOp, *ssa.DebugRef:
			case *ssa.MakeClosure:
				fn, ok := rr.Fn.(*ssa.Function)
				if !ok {
					bad = true

					return
				}

				for i, bnd := range rr.Bindings {
					if bnd == addr && i < len(fn.FreeVars) {
						visit(fn.FreeVars[i], depth+1)
					}
				}
			case *ssa.FieldAddr, *ssa.IndexAddr:
				// partial writes through field/element addresses count as "several stores"
				for _, r2 := range *rr.(ssa.Value).Referrers() {
					if _, isStore := r2.(*ssa.Store); isStore {
						bad = true

						return
					}
				}
			default:
				bad = true

				return
			}
		}
	}

	visit(al, 0)

	if bad || count != 1 {
		return nil
	}

	return only
}

// freeVarAlloc resolves a by-reference captured variable to the Alloc in the enclosing function.
func (p *Program) freeVarAlloc(fv *ssa.FreeVar) *ssa.Alloc {
	var v ssa.Value = fv

	for range 6 {
		cur, ok := v.(*ssa.FreeVar)
		if !ok {
			break
		}

		fn := cur.Parent()

		mc := p.ClosureSite(fn)
		if mc == nil {
			return nil
		}

		v = nil

		for i, f := range fn.FreeVars {
			if f == cur && i < len(mc.Bindings) {
				v = mc.Bindings[i]
			}
		}

		if v == nil {
			return nil
		}
	}

	al, _ := v.(*ssa.Alloc)

	return al
}

func sameAddr(a, b ssa.Value) bool {
	if a == b {
		return true
	}

	fa, ok1 := a.(*ssa.FieldAddr)
	fb, ok2 := b.(*ssa.FieldAddr)

	if ok1 && ok2 && fa.Field == fb.Field {
		return sameAddr(fa.X, fb.X) || SameVal(fa.X, fb.X)
	}

	return false
}

// SameVal reports whether two values are provably the same value (after forwarding).
func SameVal(a, b ssa.Value) bool {
	a, b = Fwd(a), Fwd(b)
	if a == b {
		return true
	}

	la, ok1 := a.(*ssa.UnOp)
	lb, ok2 := b.(*ssa.UnOp)

	if ok1 && ok2 && la.Op == token.MUL && lb.Op == token.MUL {
		return sameAddr(la.X, lb.X)
	}

	return false
}

// CallOf returns the call producing v (directly or via Extract) and the tuple index (-1 if whole).
func CallOf(v ssa.Value) (ssa.CallInstruction, int) {
	v = Fwd(v)

	switch x := v.(type) {
	case *ssa.Call:
		return x, -1
	case *ssa.Extract:
		if c, ok := Fwd(x.Tuple).(*ssa.Call); ok {
			return c, x.Index
		}
	}

	return nil, -1
}

func trimMod(s string) string {
	s = strings.ReplaceAll(s, Mod, "")

	return strings.ReplaceAll(s, "github.com/cosi-project/runtime", "")
}

// CalleeName gives a canonical, type-resolved description of the callee of a call instruction:
//
//	invoke  (pkg/controller.Writer).Destroy
//	method  (*pkg/state/impl/inmem.ResourceCollection).publish
//	func    pkg/state.IsNotFoundError
//	builtin builtin.delete
//	closure closure:<FuncName>
//	dynamic dyn:<description of the function value>
func (p *Program) CalleeName(c ssa.CallInstruction) string {
	cc := c.Common()
	if cc.IsInvoke() {
		return trimMod(cc.Method.FullName())
	}

	if b, ok := cc.Value.(*ssa.Builtin); ok {
		return "builtin." + b.Name()
	}

	if f := cc.StaticCallee(); f != nil {
		return p.funcRef(f)
	}

	// a call through a captured or forwarded function value that is a known top-level function or
	// method expression (`op := (*T).M; …; op(x)`) is a call of that function
	if f := p.funcValue(cc.Value, 0); f != nil {
		return p.funcRef(f)
	}

	return "dyn:" + p.desc(cc.Value, 2)
}

// funcValue resolves a function-typed value to the top-level function it denotes, looking through
// forwarding, captured variables and method-expression thunks; nil if it is not statically known.
func (p *Program) funcValue(v ssa.Value, depth int) *ssa.Function {
	if depth > 4 {
		return nil
	}

	switch x := Fwd(v).(type) {
	case *ssa.Function:
		if x.Parent() != nil {
			return nil
		}

		if strings.HasSuffix(x.Name(), "$thunk") || strings.HasSuffix(x.Name(), "$bound") {
			var only *ssa.Function

			n := 0

			for _, b := range x.Blocks {
				for _, in := range b.Instrs {
					if c, ok := in.(*ssa.Call); ok {
						n++
						only = c.Call.StaticCallee()
					}
				}
			}

			if n == 1 && only != nil {
				return only
			}

			return nil
		}

		return x
	case *ssa.FreeVar:
		fn := x.Parent()
		if mc := p.ClosureSite(fn); mc != nil {
			for i, fv := range fn.FreeVars {
				if fv == x && i < len(mc.Bindings) {
					return p.funcValue(mc.Bindings[i], depth+1)
				}
			}
		}
	case *ssa.UnOp:
		// load of a variable captured by reference that is assigned exactly once
		if x.Op != token.MUL {
			return nil
		}

		var al *ssa.Alloc

		switch a := x.X.(type) {
		case *ssa.FreeVar:
			al = p.freeVarAlloc(a)
		case *ssa.Alloc:
			al = a
		}

		if al != nil {
			var st *ssa.Store

			if fv, ok := x.X.(*ssa.FreeVar); ok {
				st = p.singleStoreSeenBy(al, fv)
			} else if only := SingleStore(al); only != nil && only.Block().Parent() == x.Block().Parent() && dominates(only.Block(), x.Block()) {
				st = only
			}

			if st != nil {
				return p.funcValue(st.Val, depth+1)
			}
		}
	}

	return nil
}

func (p *Program) funcRef(f *ssa.Function) string {
	if o := f.Origin(); o != nil {
		f = o
	}

	if obj, ok := f.Object().(*types.Func); ok && obj != nil {
		ref := trimMod(obj.FullName())

		// an anchor found under a new name keeps the name the rules know it by
		if old, ok := p.canonName[f]; ok {
			ref = ref[:strings.LastIndex(ref, ".")+1] + old
		}

		return ref
	}

	if f.Parent() != nil {
		return "closure:" + FuncName(f)
	}

	return trimMod(f.String())
}

// StaticOrClosureCallee returns the function a call certainly invokes, if known.
func StaticOrClosureCallee(c ssa.CallInstruction) *ssa.Function {
	cc := c.Common()
	if cc.IsInvoke() {
		return nil
	}

	if f := cc.StaticCallee(); f != nil {
		return f
	}

	if mc, ok := Fwd(cc.Value).(*ssa.MakeClosure); ok {
		if f, ok := mc.Fn.(*ssa.Function); ok {
			return f
		}
	}

	return nil
}

// CallArgs returns the actual arguments including the receiver as element 0 for methods/invokes.
func CallArgs(c ssa.CallInstruction) []ssa.Value {
	cc := c.Common()
	if cc.IsInvoke() {
		return append([]ssa.Value{cc.Value}, cc.Args...)
	}

	return cc.Args
}

// Desc renders a canonical, resolved description of a value (depth-limited s-expression).
func (p *Program) Desc(v ssa.Value) string { return p.desc(v, 5) }

// DescN is Desc with an explicit depth.
func (p *Program) DescN(v ssa.Value, depth int) string { return p.desc(v, depth) }

func fieldName(x ssa.Value, idx int) string {
	t := x.Type()
	if pt, ok := t.Underlying().(*types.Pointer); ok {
		t = pt.Elem()
	}

	st, ok := t.Underlying().(*types.Struct)
	if !ok || idx >= st.NumFields() {
		return fmt.Sprintf("f%d", idx)
	}

	return st.Field(idx).Name()
}

// FieldOf returns the (named struct type name, field name) addressed by a FieldAddr/Field.
func FieldOf(x ssa.Value, idx int) (string, string) {
	t := x.Type()
	if pt, ok := t.Underlying().(*types.Pointer); ok {
		t = pt.Elem()
	}

	name := ""

	switch n := types.Unalias(t).(type) {
	case *types.Named:
		name = n.Obj().Name()
	}

	return name, fieldName(x, idx)
}

func (p *Program) desc(v ssa.Value, depth int) string {
	if v == nil {
		return "<nil>"
	}

	v = Fwd(v)
	if depth <= 0 {
		return "_"
	}

	// load of a by-reference captured variable that is only ever assigned once in the enclosing
	// function: describe the assigned value, marked as coming from the enclosing scope
	if u, ok := v.(*ssa.UnOp); ok && u.Op == token.MUL {
		if fv, ok := u.X.(*ssa.FreeVar); ok {
			if al := p.freeVarAlloc(fv); al != nil {
				if st := p.singleStoreSeenBy(al, fv); st != nil {
					return "free:" + p.desc(st.Val, depth)
				}
			}
		}
	}

	switch x := v.(type) {
	case *ssa.Const:
		if x.Value == nil {
			if _, basic := x.Type().Underlying().(*types.Basic); !basic {
				return "nil"
			}

			return "zero"
		}

		if x.Value.Kind() == constant.String {
			return "const:" + x.Value.ExactString()
		}

		return "const:" + x.Value.String()
	case *ssa.Parameter:
		// the body of `go f(args)` with f spawned from exactly one place is described like the
		// function literal it could equally be: its parameters are what the spawner passed
		if arg := p.goSiteArg(x); arg != nil && depth > 0 {
			return "free:" + p.desc(arg, depth-1)
		}

		for i, prm := range x.Parent().Params {
			if prm == x {
				return fmt.Sprintf("param#%d", i)
			}
		}

		return "param:" + x.Name()
	case *ssa.FreeVar:
		fn := x.Parent()
		if mc := p.ClosureSite(fn); mc != nil {
			for i, fv := range fn.FreeVars {
				if fv == x && i < len(mc.Bindings) {
					return "free:" + p.desc(mc.Bindings[i], depth)
				}
			}
		}

		return "free:" + x.Name()
	case *ssa.Alloc:
		return "var:" + allocName(x)
	case *ssa.Global:
		return "global:" + trimMod(x.Pkg.Pkg.Path()) + "." + x.Name()
	case *ssa.Function:
		return "func:" + p.funcRef(x)
	case *ssa.MakeClosure:
		if f, ok := x.Fn.(*ssa.Function); ok {
			return "closure:" + FuncName(f)
		}

		return "closure"
	case *ssa.Builtin:
		return "builtin." + x.Name()
	case *ssa.Call:
		args := CallArgs(x)
		parts := make([]string, len(args))

		for i, a := range args {
			parts[i] = p.desc(a, depth-1)
		}

		return "call:" + p.CalleeName(x) + "(" + strings.Join(parts, ",") + ")"
	case *ssa.Extract:
		return p.desc(x.Tuple, depth) + fmt.Sprintf("#%d", x.Index)
	case *ssa.UnOp:
		switch x.Op {
		case token.MUL:
			return "*" + p.desc(x.X, depth)
		case token.NOT:
			return "!" + p.desc(x.X, depth)
		case token.ARROW:
			return "recv(" + p.desc(x.X, depth-1) + ")"
		default:
			return x.Op.String() + p.desc(x.X, depth)
		}
	case *ssa.FieldAddr:
		return p.desc(copySource(x.X, x.Block()), depth) + "." + fieldName(x.X, x.Field)
	case *ssa.Field:
		return p.desc(x.X, depth) + "." + fieldName(x.X, x.Field)
	case *ssa.BinOp:
		return "(" + p.desc(x.X, depth-1) + x.Op.String() + p.desc(x.Y, depth-1) + ")"
	case *ssa.Phi:
		// during a path search, a join that the path has bound is described as its incoming value
		if p.curEnv != nil {
			if b, ok := p.curEnv.bind[x]; ok && b != ssa.Value(x) {
				return p.desc(b, depth)
			}
		}

		parts := make([]string, len(x.Edges))
		for i, e := range x.Edges {
			parts[i] = p.desc(e, depth-1)
		}

		return "phi(" + strings.Join(parts, "|") + ")"
	case *ssa.Convert:
		return p.desc(x.X, depth)
	case *ssa.TypeAssert:
		s := "assert[" + trimMod(types.TypeString(x.AssertedType, nil)) + "](" + p.desc(x.X, depth-1) + ")"

		return s
	case *ssa.Lookup:
		return "lookup(" + p.desc(x.X, depth-1) + "," + p.desc(x.Index, depth-1) + ")"
	case *ssa.IndexAddr:
		return "index(" + p.desc(x.X, depth-1) + "," + p.desc(x.Index, depth-1) + ")"
	case *ssa.Index:
		return "index(" + p.desc(x.X, depth-1) + "," + p.desc(x.Index, depth-1) + ")"
	case *ssa.Slice:
		return "slice(" + p.desc(x.X, depth-1) + "," + p.desc(x.Low, depth-1) + "," + p.desc(x.High, depth-1) + ")"
	case *ssa.MakeMap:
		return "makemap"
	case *ssa.MakeSlice:
		return "makeslice"
	case *ssa.MakeChan:
		return "makechan(" + p.desc(x.Size, depth-1) + ")"
	case *ssa.Range:
		return "range(" + p.desc(x.X, depth-1) + ")"
	case *ssa.Next:
		return "next(" + p.desc(x.Iter, depth-1) + ")"
	case *ssa.Select:
		return "select"
	case *ssa.SliceToArrayPointer:
		return p.desc(x.X, depth)
	case *ssa.MultiConvert:
		return p.desc(x.X, depth)
	}

	return fmt.Sprintf("%T", v)
}

// ---------- conditions and edge facts ----------

// Facts describes what is known on one outgoing edge of an If, as canonical strings:
//
//	nil(D) nonnil(D) true(D) false(D) eq(A,B) ne(A,B) lt(A,B) le(A,B) gt(A,B) ge(A,B)
//
// where D, A, B are Desc strings. A comparison also yields its mirrored form.
func (p *Program) Facts(cond ssa.Value, taken bool) []string {
	return p.factsD(cond, taken, 0)
}

func (p *Program) factsD(cond ssa.Value, taken bool, depth int) []string {
	out := p.plainFacts(cond, taken)
	if len(out) == 1 && (out[0] == "always" || out[0] == "never") {
		return out
	}

	return append(out, p.impliedFacts(cond, taken, depth)...)
}

// plainFacts: the facts of the test itself.
func (p *Program) plainFacts(cond ssa.Value, taken bool) []string {
	neg := !taken
	cond = Fwd(cond)

	for {
		if u, ok := cond.(*ssa.UnOp); ok && u.Op == token.NOT {
			neg = !neg
			cond = Fwd(u.X)

			continue
		}

		break
	}

	if c, ok := cond.(*ssa.Const); ok && c.Value != nil && c.Value.Kind() == constant.Bool {
		val := constant.BoolVal(c.Value)
		if neg {
			val = !val
		}

		if val {
			return []string{"always"}
		}

		return []string{"never"}
	}

	if b, ok := cond.(*ssa.BinOp); ok {
		op := b.Op
		switch op {
		case token.EQL, token.NEQ, token.LSS, token.LEQ, token.GTR, token.GEQ:
			if neg {
				op = map[token.Token]token.Token{
					token.EQL: token.NEQ, token.NEQ: token.EQL, token.LSS: token.GEQ,
					token.GEQ: token.LSS, token.GTR: token.LEQ, token.LEQ: token.GTR,
				}[op]
			}

			if isNilConst(b.Y) || isNilConst(b.X) {
				other := b.X
				if isNilConst(b.X) {
					other = b.Y
				}

				if op == token.EQL {
					return []string{"nil(" + p.Desc(other) + ")"}
				}

				return []string{"nonnil(" + p.Desc(other) + ")"}
			}

			names := map[token.Token]string{token.EQL: "eq", token.NEQ: "ne", token.LSS: "lt", token.LEQ: "le", token.GTR: "gt", token.GEQ: "ge"}
			mirror := map[token.Token]token.Token{token.EQL: token.EQL, token.NEQ: token.NEQ, token.LSS: token.GTR, token.GTR: token.LSS, token.LEQ: token.GEQ, token.GEQ: token.LEQ}
			x, y := p.Desc(b.X), p.Desc(b.Y)

			out := []string{
				names[op] + "(" + x + "," + y + ")",
				names[mirror[op]] + "(" + y + "," + x + ")",
			}

			// a length is never negative: `len(x) != 0`, `len(x) > 0` and `len(x) >= 1` are one test
			// (likewise `== 0`, `<= 0`, `< 1`); every spelling is offered to the rules
			lenSide, k, lop := "", "", op

			switch {
			case strings.HasPrefix(x, "call:builtin.len(") || strings.HasPrefix(x, "call:builtin.cap("):
				lenSide, k = x, y
			case strings.HasPrefix(y, "call:builtin.len(") || strings.HasPrefix(y, "call:builtin.cap("):
				lenSide, k, lop = y, x, mirror[op]
			}

			if lenSide != "" {
				nonEmpty, empty := false, false

				switch {
				case k == "const:0" && (lop == token.NEQ || lop == token.GTR), k == "const:1" && lop == token.GEQ:
					nonEmpty = true
				case k == "const:0" && (lop == token.EQL || lop == token.LEQ), k == "const:1" && lop == token.LSS:
					empty = true
				}

				if nonEmpty {
					out = append(out, "ne("+lenSide+",const:0)", "gt("+lenSide+",const:0)", "ge("+lenSide+",const:1)")
				}

				if empty {
					out = append(out, "eq("+lenSide+",const:0)", "le("+lenSide+",const:0)", "lt("+lenSide+",const:1)")
				}
			}

			return out
		}
	}

	own := "true(" + p.Desc(cond) + ")"
	if neg {
		own = "false(" + p.Desc(cond) + ")"
	}

	return []string{own}
}

// CondTruth is a boolean value together with an outcome.
type CondTruth struct {
	Cond  ssa.Value
	Truth bool
	If    *ssa.If // the test, where the condition comes from a specific one
}

// impliedConds: what the outcome of a boolean that is not itself a comparison implies.
//
//   - a flag computed once (`ok := a && b`, possibly captured by a function literal): true(ok) implies
//     a and b; false(a || b) implies !a and !b;
//   - a bool variable that is only ever assigned `true` (`var send bool; if … { send = true }`):
//     reading true implies the outcomes of the tests that dominate every such assignment.
//
// The implied conditions are values of the function that computed the flag.
func (p *Program) impliedConds(v ssa.Value, truth bool, depth int) []CondTruth {
	if depth > 4 || v == nil {
		return nil
	}

	v = Fwd(v)

	for {
		u, ok := v.(*ssa.UnOp)
		if !ok || u.Op != token.NOT {
			break
		}

		truth = !truth
		v = Fwd(u.X)
	}

	self := func(x ssa.Value, t bool) []CondTruth {
		return append([]CondTruth{{Cond: x, Truth: t}}, p.impliedConds(x, t, depth+1)...)
	}

	switch x := v.(type) {
	case *ssa.FreeVar:
		fn := x.Parent()
		if mc := p.ClosureSite(fn); mc != nil {
			for i, fv := range fn.FreeVars {
				if fv == x && i < len(mc.Bindings) {
					return self(mc.Bindings[i], truth)
				}
			}
		}
	case *ssa.Phi:
		j := x.Block()
		if j == nil || len(x.Edges) != 2 || len(j.Preds) != 2 {
			return nil
		}

		// short-circuit shape: one incoming value is the constant that the deciding test's edge yields
		for k := range 2 {
			c, ok := x.Edges[k].(*ssa.Const)
			if !ok || c.Value == nil || c.Value.Kind() != constant.Bool {
				continue
			}

			if constant.BoolVal(c.Value) == truth {
				continue // the constant arm gives exactly this outcome: nothing is implied
			}

			// the outcome differs from the constant arm: the other arm was taken
			test := j.Preds[k]
			other := x.Edges[1-k]

			var out []CondTruth

			if len(test.Instrs) > 0 {
				if ifi, ok := test.Instrs[len(test.Instrs)-1].(*ssa.If); ok && len(test.Succs) == 2 && test.Succs[0] != test.Succs[1] {
					// the edge of test that does NOT go straight to the join
					out = append(out, self(ifi.Cond, test.Succs[0] != j)...)
				}
			}

			return append(out, self(other, truth)...)
		}
	case *ssa.UnOp:
		if sv := p.loadedSingleValue(x); sv != nil {
			if _, isConst := sv.(*ssa.Const); !isConst {
				return self(sv, truth)
			}
		}

		if x.Op != token.MUL || !truth {
			return nil
		}

		var al *ssa.Alloc

		switch a := x.X.(type) {
		case *ssa.Alloc:
			al = a
		case *ssa.FreeVar:
			al = p.freeVarAlloc(a)
		}

		if al == nil {
			return nil
		}

		if b, ok := al.Type().(*types.Pointer).Elem().Underlying().(*types.Basic); !ok || b.Kind() != types.Bool {
			return nil
		}

		stores := AllStores(al)
		if len(stores) == 0 {
			return nil
		}

		type key struct {
			c ssa.Value
			t bool
		}

		var common map[key]bool

		for _, st := range stores {
			c, ok := st.Val.(*ssa.Const)
			if !ok || c.Value == nil || c.Value.Kind() != constant.Bool || !constant.BoolVal(c.Value) || st.Block() == nil || st.Block().Parent() != al.Parent() {
				return nil
			}

			here := map[key]bool{}

			des, _ := p.domChainEdges(st.Block(), nil)
			for _, e := range des {
				for _, ct := range self(e.Cond, e.Truth) {
					here[key{ct.Cond, ct.Truth}] = true
				}
			}

			if common == nil {
				common = here
			} else {
				for k := range common {
					if !here[k] {
						delete(common, k)
					}
				}
			}
		}

		var out []CondTruth
		for k := range common {
			out = append(out, CondTruth{Cond: k.c, Truth: k.t})
		}

		return out
	}

	return nil
}

// impliedFacts renders impliedConds as fact strings (sorted).
func (p *Program) impliedFacts(v ssa.Value, truth bool, depth int) []string {
	var out []string

	for _, ct := range p.impliedConds(v, truth, depth) {
		for _, f := range p.plainFacts(ct.Cond, ct.Truth) {
			if f != "always" && f != "never" {
				out = append(out, f)
			}
		}
	}

	sort.Strings(out)

	return out
}

func isNilConst(v ssa.Value) bool {
	c, ok := v.(*ssa.Const)
	if !ok || c.Value != nil {
		return false
	}

	_, basic := c.Type().Underlying().(*types.Basic)

	return !basic
}

// Glob matches s against a pattern in which '*' matches any (possibly empty) substring.
// The pattern is anchored at both ends.
func Glob(pattern, s string) bool {
	parts := strings.Split(pattern, "*")
	if len(parts) == 1 {
		return pattern == s
	}

	if !strings.HasPrefix(s, parts[0]) {
		return false
	}

	s = s[len(parts[0]):]

	for i := 1; i < len(parts)-1; i++ {
		idx := strings.Index(s, parts[i])
		if idx < 0 {
			return false
		}

		s = s[idx+len(parts[i]):]
	}

	return strings.HasSuffix(s, parts[len(parts)-1])
}

// GlobAny reports whether any pattern matches s.
func GlobAny(patterns []string, s string) bool {
	for _, pt := range patterns {
		if Glob(pt, s) {
			return true
		}
	}

	return false
}

// allocName names a local variable independently of its source name: synthetic allocations keep
// go/ssa's role comment (complit, varargs, makeslice, …); declared locals and spilled parameters are
// named by their type, with #n appended for the n-th further variable of the same type in the
// function (in order of appearance). Renaming a local therefore never changes a description.
func allocName(al *ssa.Alloc) string {
	switch al.Comment {
	case "complit", "varargs", "makeslice", "new", "slicelit", "arraylit", "maplit", "":
		return al.Comment
	}

	elem := al.Type().(*types.Pointer).Elem()
	name := trimMod(types.TypeString(elem, nil))
	n := 0

	if fn := al.Parent(); fn != nil {
	outer:
		for _, b := range fn.Blocks {
			for _, in := range b.Instrs {
				o, ok := in.(*ssa.Alloc)
				if !ok {
					continue
				}

				if o == al {
					break outer
				}

				switch o.Comment {
				case "complit", "varargs", "makeslice", "new", "slicelit", "arraylit", "maplit", "":
					continue
				}

				if types.Identical(o.Type().(*types.Pointer).Elem(), elem) {
					n++
				}
			}
		}
	}

	if n > 0 {
		return fmt.Sprintf("%s#%d", name, n)
	}

	return name
}

// AllStores lists the values ever stored to the local variable al, looking also into the closures
// that capture it by reference.
func AllStores(al *ssa.Alloc) []*ssa.Store {
	var out []*ssa.Store

	var visit func(addr ssa.Value, depth int)

	visit = func(addr ssa.Value, depth int) {
		if depth > 6 || addr.Referrers() == nil {
			return
		}

		for _, r := range *addr.Referrers() {
			switch rr := r.(type) {
			case *ssa.Store:
				if rr.Addr == addr {
					out = append(out, rr)
				}
			case *ssa.MakeClosure:
				fn, ok := rr.Fn.(*ssa.Function)
				if !ok {
					continue
				}

				for i, bnd := range rr.Bindings {
					if bnd == addr && i < len(fn.FreeVars) {
						visit(fn.FreeVars[i], depth+1)
					}
				}
			}
		}
	}

	visit(al, 0)

	return out
}

// MayHoldCall reports whether v is (a result of) a call selected by the callee globs, or a load of a
// local variable (possibly captured) into which such a result is stored somewhere.
func (p *Program) MayHoldCall(v ssa.Value, globs ...string) bool {
	isCall := func(x ssa.Value) bool {
		x = Fwd(x)
		if e, ok := x.(*ssa.Extract); ok {
			x = e.Tuple
		}

		c, ok := x.(*ssa.Call)

		return ok && GlobAny(globs, p.CalleeName(c))
	}

	v = Fwd(v)
	if isCall(v) {
		return true
	}

	if phi, ok := v.(*ssa.Phi); ok {
		for _, e := range phi.Edges {
			if isCall(e) {
				return true
			}
		}
	}

	load, ok := v.(*ssa.UnOp)
	if !ok || load.Op != token.MUL {
		return false
	}

	var al *ssa.Alloc

	switch a := load.X.(type) {
	case *ssa.Alloc:
		al = a
	case *ssa.FreeVar:
		al = p.freeVarAlloc(a)
	}

	if al == nil {
		return false
	}

	for _, st := range AllStores(al) {
		if isCall(st.Val) {
			return true
		}
	}

	return false
}

// goSiteArg returns the argument bound to parameter prm when prm's function is called from exactly
// one place in the module and that place is a `go` statement.
func (p *Program) goSiteArg(prm *ssa.Parameter) ssa.Value {
	fn := prm.Parent()
	if fn == nil || fn.Parent() != nil {
		return nil
	}

	p.buildCallSites()

	sites := p.callSites[fn]
	if len(sites) != 1 {
		return nil
	}

	g, ok := sites[0].(*ssa.Go)
	if !ok || len(g.Call.Args) != len(fn.Params) {
		return nil
	}

	for i, q := range fn.Params {
		if q == prm {
			return g.Call.Args[i]
		}
	}

	return nil
}

// copySource: a local that is assigned exactly once, as a whole, from a load of another location
// (a by-value parameter spilled by an inlined helper, `tmp := *p`) is described as that location,
// so that the fields of the copy are the fields of what was copied.
func copySource(addr ssa.Value, at *ssa.BasicBlock) ssa.Value {
	for range 4 {
		al, ok := addr.(*ssa.Alloc)
		if !ok {
			return addr
		}

		st := SingleStore(al)
		if st == nil || at == nil || st.Block() == nil || st.Block().Parent() != at.Parent() || !dominates(st.Block(), at) {
			return addr
		}

		load, ok := st.Val.(*ssa.UnOp)
		if !ok || load.Op != token.MUL {
			return addr
		}

		// only copies of another local (or of a field of one): a copy of a slice element, of a field
		// behind a pointer etc. keeps its own name
		base := load.X
		for {
			fa, ok := base.(*ssa.FieldAddr)
			if !ok {
				break
			}

			base = fa.X
		}

		if _, ok := base.(*ssa.Alloc); !ok {
			return addr
		}

		addr = load.X
	}

	return addr
}

// singleStoreSeenBy returns the only store to the captured local al if the function literal that
// reads it through fv always sees that value: the store is made in al's own function and dominates
// the creation of the (outermost) literal that captures al. A variable that is assigned on one
// branch only still holds its zero value on the other.
func (p *Program) singleStoreSeenBy(al *ssa.Alloc, fv *ssa.FreeVar) *ssa.Store {
	st := SingleStore(al)
	if st == nil || st.Block() == nil || st.Block().Parent() != al.Parent() {
		return nil
	}

	// outermost literal on the chain from fv's function up to al's function
	fn := fv.Parent()
	for fn != nil && fn.Parent() != nil && fn.Parent() != al.Parent() {
		fn = fn.Parent()
	}

	if fn == nil || fn.Parent() != al.Parent() {
		return nil
	}

	mc := p.ClosureSite(fn)
	if mc == nil || mc.Block() == nil {
		return nil
	}

	if st.Block() == mc.Block() {
		for _, in := range st.Block().Instrs {
			if in == ssa.Instruction(st) {
				return st
			}

			if in == ssa.Instruction(mc) {
				return nil
			}
		}
	}

	if dominates(st.Block(), mc.Block()) {
		return st
	}

	return nil
}

// impliedAnyOf: disjunctions implied by the outcome of a computed flag — false(a && b) means !a or !b,
// true(a || b) means a or b, and a bool variable that is only ever assigned `true` behind a chain of
// tests reaching back to the function entry reads false only if one of those tests went the other way.
func (p *Program) impliedAnyOf(v ssa.Value, truth bool, depth int) [][]CondTruth {
	if depth > 4 || v == nil {
		return nil
	}

	v = Fwd(v)

	for {
		u, ok := v.(*ssa.UnOp)
		if !ok || u.Op != token.NOT {
			break
		}

		truth = !truth
		v = Fwd(u.X)
	}

	switch x := v.(type) {
	case *ssa.FreeVar:
		fn := x.Parent()
		if mc := p.ClosureSite(fn); mc != nil {
			for i, fv := range fn.FreeVars {
				if fv == x && i < len(mc.Bindings) {
					return p.impliedAnyOf(mc.Bindings[i], truth, depth+1)
				}
			}
		}
	case *ssa.Phi:
		j := x.Block()
		if j == nil || len(x.Edges) != 2 || len(j.Preds) != 2 {
			return nil
		}

		for k := range 2 {
			c, ok := x.Edges[k].(*ssa.Const)
			if !ok || c.Value == nil || c.Value.Kind() != constant.Bool || constant.BoolVal(c.Value) != truth {
				continue
			}

			// the outcome equals the constant arm: either the deciding test went straight to the join,
			// or the other operand evaluated to this outcome
			test := j.Preds[k]
			other := x.Edges[1-k]

			if len(test.Instrs) == 0 {
				return nil
			}

			ifi, ok := test.Instrs[len(test.Instrs)-1].(*ssa.If)
			if !ok || len(test.Succs) != 2 || test.Succs[0] == test.Succs[1] {
				return nil
			}

			return [][]CondTruth{{{Cond: ifi.Cond, Truth: test.Succs[0] == j}, {Cond: other, Truth: truth}}}
		}
	case *ssa.UnOp:
		if sv := p.loadedSingleValue(x); sv != nil {
			if _, isConst := sv.(*ssa.Const); !isConst {
				return p.impliedAnyOf(sv, truth, depth+1)
			}
		}

		if x.Op != token.MUL || truth {
			return nil
		}

		var al *ssa.Alloc

		switch a := x.X.(type) {
		case *ssa.Alloc:
			al = a
		case *ssa.FreeVar:
			al = p.freeVarAlloc(a)
		}

		if al == nil {
			return nil
		}

		if b, ok := al.Type().(*types.Pointer).Elem().Underlying().(*types.Basic); !ok || b.Kind() != types.Bool {
			return nil
		}

		stores := AllStores(al)

		if len(stores) != 1 {
			return nil
		}

		st := stores[0]
		if c, ok := st.Val.(*ssa.Const); !ok || c.Value == nil || c.Value.Kind() != constant.Bool || !constant.BoolVal(c.Value) || st.Block() == nil || st.Block().Parent() != al.Parent() {
			return nil
		}

		// the store is behind these edges and executes whenever all are taken: reading false needs (at
		// least) one of the tests to have gone the other way
		// ... relative to where the variable is read: the load itself, or the creation of the function
		// literal that reads it
		at := x.Block()

		if fv, ok := x.X.(*ssa.FreeVar); ok {
			fn := fv.Parent()
			for fn != nil && fn.Parent() != nil && fn.Parent() != al.Parent() {
				fn = fn.Parent()
			}

			at = nil

			if fn != nil {
				if mc := p.ClosureSite(fn); mc != nil {
					at = mc.Block()
				}
			}
		}

		des, complete := p.domChainEdges(st.Block(), at)

		if !complete || len(des) == 0 {
			return nil
		}

		// an edge that also dominates the reading site was certainly taken: it is not an alternative
		var group []CondTruth

		for _, e := range des {
			ifi := e.If
			if ifi != nil && at != nil {
				succ := ifi.Block().Succs[1]
				if e.Truth {
					succ = ifi.Block().Succs[0]
				}

				if dominates(succ, at) {
					continue
				}
			}

			group = append(group, CondTruth{Cond: e.Cond, Truth: !e.Truth})
		}

		if len(group) == 0 {
			return nil
		}

		return [][]CondTruth{group}
	}

	return nil
}

// loadedSingleValue: for a load of a local (possibly captured) that is assigned exactly once, at a
// place that dominates the load / the capture, the assigned value; nil otherwise.
func (p *Program) loadedSingleValue(load *ssa.UnOp) ssa.Value {
	if load.Op != token.MUL {
		return nil
	}

	switch a := load.X.(type) {
	case *ssa.FreeVar:
		if al := p.freeVarAlloc(a); al != nil {
			if st := p.singleStoreSeenBy(al, a); st != nil {
				return st.Val
			}
		}
	case *ssa.Alloc:
		if st := SingleStore(a); st != nil && st.Block() != nil && load.Block() != nil && st.Block().Parent() == load.Block().Parent() && dominates(st.Block(), load.Block()) {
			return st.Val
		}
	}

	return nil
}

// domChainEdges lists the If edges that dominate block s (each is taken whenever s executes), walking
// the chain of s's dominators from the entry. If `at` is given, complete reports whether, conversely,
// execution that reaches `at` having taken all of those edges must have executed s: no path from the
// entry to `at` avoids s while following the listed edges.
func (p *Program) domChainEdges(s, at *ssa.BasicBlock) (edges []CondTruth, complete bool) {
	f := s.Parent()
	if f == nil || len(f.Blocks) == 0 {
		return nil, false
	}

	var chain []*ssa.BasicBlock

	for _, d := range f.Blocks {
		if dominates(d, s) {
			chain = append(chain, d)
		}
	}

	depth := func(b *ssa.BasicBlock) int {
		n := 0

		for _, d := range f.Blocks {
			if dominates(d, b) {
				n++
			}
		}

		return n
	}

	sort.Slice(chain, func(i, j int) bool { return depth(chain[i]) < depth(chain[j]) })

	only := map[*ssa.BasicBlock]*ssa.BasicBlock{} // If block → the successor the chain takes

	for i := 0; i+1 < len(chain); i++ {
		d, n := chain[i], chain[i+1]

		if len(d.Instrs) > 0 {
			if ifi, ok := d.Instrs[len(d.Instrs)-1].(*ssa.If); ok && len(d.Succs) == 2 && d.Succs[0] != d.Succs[1] && len(n.Preds) == 1 && (d.Succs[0] == n || d.Succs[1] == n) {
				edges = append(edges, CondTruth{Cond: ifi.Cond, Truth: d.Succs[0] == n, If: ifi})
				only[d] = n
			}
		}
	}

	if at == nil || at.Parent() != f || len(chain) == 0 || chain[0] != f.Blocks[0] {
		return edges, false
	}

	// can `at` be reached from the entry without executing s, taking the listed edges where they apply?
	seen := map[*ssa.BasicBlock]bool{s: true}
	queue := []*ssa.BasicBlock{f.Blocks[0]}
	complete = true

	for len(queue) > 0 {
		b := queue[0]
		queue = queue[1:]

		if seen[b] {
			continue
		}

		seen[b] = true

		if b == at {
			complete = false

			break
		}

		if n, ok := only[b]; ok {
			queue = append(queue, n)

			continue
		}

		queue = append(queue, b.Succs...)
	}

	return edges, complete
}

// ifOfCond finds the If of f whose condition is cond.
func ifOfCond(f *ssa.Function, cond ssa.Value) *ssa.If {
	if f == nil {
		return nil
	}

	for _, b := range f.Blocks {
		if len(b.Instrs) == 0 {
			continue
		}

		if ifi, ok := b.Instrs[len(b.Instrs)-1].(*ssa.If); ok && ifi.Cond == cond {
			return ifi
		}
	}

	return nil
}

// buildCallSites indexes the static call sites of every top-level function of the module.
func (p *Program) buildCallSites() {
	if p.callSites != nil {
		return
	}

	{
		p.callSites = map[*ssa.Function][]ssa.CallInstruction{}

		var scan func(f *ssa.Function)

		scan = func(f *ssa.Function) {
			for _, b := range f.Blocks {
				for _, in := range b.Instrs {
					if c, ok := in.(ssa.CallInstruction); ok {
						if g := c.Common().StaticCallee(); g != nil && g.Parent() == nil {
							if o := g.Origin(); o != nil {
								g = o
							}

							p.callSites[g] = append(p.callSites[g], c)
						}
					}
				}
			}

			for _, a := range f.AnonFuncs {
				scan(a)
			}
		}

		for _, f := range p.AllOwnFuncs() {
			if f.Parent() == nil {
				scan(f)
			}
		}
	}

}

// knownCallers returns the call sites of f when f is an unexported top-level function or method that is
// only ever called directly (never taken as a value): all of its callers are in the module and known.
func (p *Program) knownCallers(f *ssa.Function) []ssa.CallInstruction {
	if f == nil || f.Parent() != nil {
		return nil
	}

	if o := f.Origin(); o != nil {
		f = o
	}

	obj, ok := f.Object().(*types.Func)
	if !ok || obj == nil || obj.Exported() {
		return nil
	}

	p.buildCallSites()

	// taken as a value somewhere: unknown callers
	for _, g := range p.AllOwnFuncs() {
		for _, b := range g.Blocks {
			for _, in := range b.Instrs {
				var buf [8]*ssa.Value

				for _, op := range in.Operands(buf[:0]) {
					if fn, isFn := (*op).(*ssa.Function); isFn && (fn == f || fn.Origin() == f) {
						if c, isCall := in.(ssa.CallInstruction); isCall && c.Common().Value == *op {
							continue
						}

						return nil
					}
				}
			}
		}
	}

	return p.callSites[f]
}
