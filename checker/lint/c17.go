package lint

import (
	"fmt"
	"go/token"
	"go/types"
	"sort"
	"strings"

	"golang.org/x/tools/go/ssa"
)

const (
	pkgDep = "pkg/controller/runtime/internal/dependency"
	dbT    = "(*" + pkgDep + ".Database)"
	rtT    = "(*" + pkgRuntime + ".Runtime)"
)

var depLock = LockSpec{Rel: pkgDep, Struct: "Database", Mutex: "mu", Guarded: []string{"exclusiveOutputs", "sharedOutputs", "inputLookup", "inputLookupID", "controllerInputs"}}

func init() {
	register(&PropertyInfo{
		ID: "C17",
		Explanation: "R17.1: all five tables of the dependency database are accessed only under its mutex. " +
			"R17.2: an exclusive claim is written only when no exclusive owner and no shared owner exists; a shared claim only when no exclusive owner exists and the controller is not yet listed; nothing is written on an error path. " +
			"R17.3: an input is inserted only when no neighbour with equal keys exists; Add/Delete/DeleteController/GetDependentControllers build their lookup keys from the same three fields (namespace, type, id) and choose the kind-wide vs per-ID table by ID presence; GetDependentControllers returns a fresh concatenation of both lookups (never an internal slice). " +
			"R17.4: the exported graph covers every input and output kind and reads all three tables. " +
			"R17.5: registration is all-or-nothing — after the adapter constructor ran (it adds to the database), an error return rolls the controller's entries back; the rollback is reachable only from that failure, never from the duplicate-name rejection. " +
			"R17.6: event delivery uses controllers[name] only behind a presence test. R17.7: duplicate-name guard before adapter creation, map insert only on success, under controllersMu. R17.8: each runtime flavour rejects exactly the other flavour's input kinds.",
		NotCovered:  "the sorted-merge algorithm of UpdateInputs (only its success exit and kind validation are pinned); histories.",
		Assumptions: []string{"slices.Concat / slices.Clone return fresh slices"},
		Run:         runC17,
	})
}

func runC17(c *Ctx) {
	p := c.P

	// ---------- R17.1
	c.Rule("R17.1", "E2", "dependency database tables only under Database.mu", 9)

	li := p.Lockset(depLock, pkgDep)
	c.LocksetReport("R17.1", li, nil)

	tableWrite := func(table string) InstrPred {
		return OrInstr(MapWriteOnField("Database", table))
	}

	// ---------- R17.2 output guards
	c.Rule("R17.2", "E1", "exclusive/shared output claims written only behind their conflict guards; no write before an error return", 6)

	if f := p.Method(pkgDep, "Database", "AddControllerOutput"); c.NeedFunc("R17.2", f, dbT+".AddControllerOutput") {
		noExcl := FactEdge("false(lookup(*param#0.exclusiveOutputs,param#2.Type)#1)", "false(lookup(*param#0.exclusiveOutputs,*param#2*.Type)#1)", "false(lookup(*param#0.exclusiveOutputs,*.Type)#1)")
		noShared := FactEdge("false(lookup(*param#0.sharedOutputs,*.Type)#1)")
		notListed := FactEdge("false(call:slices.BinarySearch(lookup(*param#0.sharedOutputs,*.Type)*,param#1)#1)")

		c.MustCut("R17.2", "exclusive claim ⊣ {no exclusive owner}", f, tableWrite("exclusiveOutputs"), CutSpec{Edges: noExcl}, 1)
		c.MustCut("R17.2", "exclusive claim ⊣ {no shared owner}", f, tableWrite("exclusiveOutputs"), CutSpec{Edges: noShared}, 1)
		c.MustCut("R17.2", "shared claim ⊣ {no exclusive owner}", f, tableWrite("sharedOutputs"), CutSpec{Edges: noExcl}, 1)
		c.MustCut("R17.2", "shared claim ⊣ {controller not yet listed}", f, tableWrite("sharedOutputs"), CutSpec{Edges: notListed}, 1)
		c.MustFollow("R17.2", "after a table write only success is returned", f, OrInstr(tableWrite("exclusiveOutputs"), tableWrite("sharedOutputs")), ReturnsNonNil(0), CutSpec{}, 2)

		kinds := p.ConstsByPrefix("pkg/controller", "Output")
		c.Check(len(kinds) == 2, "R17.2", "controller.OutputKind has exactly {Exclusive, Shared}", 0, "2", fmt.Sprintf("%d output kinds: AddControllerOutput's switch no longer covers all", len(kinds)))

		for _, in := range Find(f, tableWrite("exclusiveOutputs")) {
			if mu, ok := in.(*ssa.MapUpdate); ok {
				c.Check(p.Desc(mu.Value) == "param#1" && strings.HasSuffix(p.Desc(mu.Key), ".Type"), "R17.2", FuncName(f)+" :: exclusiveOutputs[out.Type] = controllerName", mu.Pos(), "yes", "stores "+p.Desc(mu.Value)+" under "+p.Desc(mu.Key))
			}
		}
	}

	// ---------- R17.3 input guards & key agreement
	c.Rule("R17.3", "E3", "inputs: duplicate guard before insert; lookup keys agree across Add/Delete/DeleteController/GetDependentControllers; result is a fresh slice", 8)

	if f := p.Method(pkgDep, "Database", "AddControllerInput"); c.NeedFunc("R17.3", f, dbT+".AddControllerInput") {
		anyWrite := OrInstr(tableWrite("controllerInputs"), tableWrite("inputLookup"), tableWrite("inputLookupID"))
		c.NoReach("R17.3", "no table write once an equal-keys neighbour was found", f, p.EdgeSuccs(f, "true(call:(pkg/controller.Input).EqualKeys(*"), 1, anyWrite, CutSpec{})
		c.MustCut("R17.3", "kind-wide lookup ⊣ {ID absent}", f, tableWrite("inputLookup"), CutSpec{Edges: FactEdge("false(call:(github.com/siderolabs/gen/optional.Optional[T]).Get(*)#1)")}, 1)
		c.MustCut("R17.3", "per-ID lookup ⊣ {ID present}", f, tableWrite("inputLookupID"), CutSpec{Edges: FactEdge("true(call:(github.com/siderolabs/gen/optional.Optional[T]).Get(*)#1)")}, 1)
		c.MustCut("R17.3", "return nil ⊣ {controllerInputs updated}", f, ReturnsNilConst(0), CutSpec{Nodes: tableWrite("controllerInputs")}, 1)
		c.MustCut("R17.3", "return nil ⊣ {a lookup table updated}", f, ReturnsNilConst(0), CutSpec{Nodes: OrInstr(tableWrite("inputLookup"), tableWrite("inputLookupID"))}, 1)
	}

	// key literals: every namespaceType / namespaceTypeID literal in the package takes Namespace and Type (and ID) from the same value
	nKeys := 0

	for _, f := range p.PkgFuncs(pkgDep) {
		for _, in := range Find(f, func(in ssa.Instruction) bool { al, ok := in.(*ssa.Alloc); return ok && al.Comment == "complit" }) {
			al := in.(*ssa.Alloc)

			tn := al.Type().String()
			if !strings.HasSuffix(tn, ".namespaceType") && !strings.HasSuffix(tn, ".namespaceTypeID") {
				continue
			}

			fields := allocFields(al)
			ns, typ := "", ""

			for k, v := range fields {
				if k == "Namespace" || strings.HasSuffix(k, ".Namespace") {
					ns = p.Desc(v)
				}

				if k == "Type" || strings.HasSuffix(k, ".Type") {
					typ = p.Desc(v)
				}
			}

			if ns == "" && typ == "" {
				continue // outer literal whose embedded key is a separate literal
			}

			nKeys++
			base := strings.TrimSuffix(ns, ".Namespace")
			c.Touch(f)
			c.Check(strings.HasSuffix(ns, ".Namespace") && typ == base+".Type", "R17.3", FuncName(f)+" :: lookup key built from one input's Namespace and Type", al.Pos(), ns+" / "+typ, "key mixes fields: "+ns+" / "+typ)
		}
	}

	if nKeys < 3 {
		c.Unknown("R17.3", "anchor-unresolved: lookup key literals", 0, fmt.Sprintf("found %d key literals, expected >= 3", nKeys))
	}

	dependentsFresh(c, "R17.3")

	for _, name := range []string{"GetControllerInputs"} {
		if f := p.Method(pkgDep, "Database", name); c.NeedFunc("R17.3", f, dbT+"."+name) {
			ok := true

			for _, in := range Find(f, ReturnsNilConst(1)) {
				call, _ := CallOf(in.(*ssa.Return).Results[0])
				ok = ok && call != nil && p.CalleeName(call) == "slices.Clone"
			}

			c.Check(ok, "R17.3", FuncName(f)+" :: returns a clone of the stored list", fpos(f), "slices.Clone", "returns the internal slice")
		}
	}

	// accepted inputs are recorded: UpdateInputs reports success only after the merge against the database ran and the adapter's set was replaced
	c.Rule("R17.9", "E1", "UpdateInputs succeeds only after the declared inputs were merged into the database and recorded", 2)

	if ui := p.Method(pkgRRuntime, "Adapter", "UpdateInputs"); c.NeedFunc("R17.9", ui, pkgRRuntime+".Adapter.UpdateInputs") {
		setInputs := func(in ssa.Instruction) bool {
			return StoreToField("StateAdapter", "Inputs")(in) && Glob("call:slices.Clone(param#1)", p.Desc(in.(*ssa.Store).Val))
		}
		c.MustCut("R17.9", "return nil ⊣ {adapter.Inputs = slices.Clone(deps)}", ui, ReturnsNilConst(0), CutSpec{Nodes: setInputs}, 1)
		c.MustCut("R17.9", "return nil ⊣ {registered inputs fetched for the merge}", ui, ReturnsNilConst(0), CutSpec{Edges: FactEdge("nil(call:" + dbT + ".GetControllerInputs(*)#1)")}, 1)
	}

	// ---------- R17.4 export
	c.Rule("R17.4", "E4", "Export covers every input and output kind and reads all three tables", 3)

	if f := p.Method(pkgDep, "Database", "Export"); c.NeedFunc("R17.4", f, dbT+".Export") {
		inKinds := p.ConstsByPrefix("pkg/controller", "Input")
		seen := map[string]bool{}

		for _, lf := range p.LinFactsOf(f, nil) {
			for name, val := range inKinds {
				if strings.HasPrefix(lf, "eq:") && strings.HasSuffix(lf, ".Kind-"+val) || val == "0" && strings.HasPrefix(lf, "eq:") && strings.HasSuffix(lf, ".Kind") {
					seen[name] = true
				}
			}
		}

		c.Check(len(seen) == len(inKinds) && len(inKinds) == 6, "R17.4", FuncName(f)+" :: edge-kind switch covers all input kinds", fpos(f), fmt.Sprintf("%d kinds", len(seen)), fmt.Sprintf("covers %d of %d kinds: %s", len(seen), len(inKinds), joinSorted(seen)))

		tables := map[string]bool{}

		for _, in := range Find(f, func(in ssa.Instruction) bool { _, ok := in.(*ssa.Range); return ok }) {
			for _, t := range []string{"exclusiveOutputs", "sharedOutputs", "controllerInputs"} {
				if LoadsField(in.(*ssa.Range).X, "Database", t) {
					tables[t] = true
				}
			}
		}

		c.Check(len(tables) == 3, "R17.4", FuncName(f)+" :: iterates exclusiveOutputs, sharedOutputs and controllerInputs", fpos(f), "3 tables", "reads only "+joinSorted(tables))

		// each input kind maps to the edge constant of the same name: rows of the phi that feeds DependencyEdge.EdgeType
		edge := p.ConstsOfType("pkg/controller", "DependencyEdgeType")
		okMap := true
		nMap := 0

		for _, in := range Find(f, StoreToField("DependencyEdge", "EdgeType")) {
			phi, isPhi := in.(*ssa.Store).Val.(*ssa.Phi)
			if !isPhi {
				continue
			}

			for kname, kval := range inKinds {
				for _, loc := range p.EdgeSuccs(f, "eq(*.Kind,const:"+kval+")") {
					for i, pb := range phi.Block().Preds {
						if pb == loc.B && i < len(phi.Edges) {
							nMap++

							if edge["Edge"+kname] != strings.TrimPrefix(p.Desc(phi.Edges[i]), "const:") {
								okMap = false
							}
						}
					}
				}
			}
		}

		c.Check(okMap && nMap == 6, "R17.4", FuncName(f)+" :: Input<K> ↦ EdgeInput<K> for every kind", fpos(f), "6 rows", fmt.Sprintf("%d rows resolved, names agree=%v", nMap, okMap))
	}

	// ---------- R17.5 all-or-nothing registration / R17.7 registry
	c.Rule("R17.5", "E1", "a registration that fails after the adapter constructor ran is rolled back (DeleteController); the rollback is not reachable from the duplicate-name rejection", 4)
	c.Rule("R17.7", "E1", "duplicate-name guard before adapter creation; controllers[name] set only on success; under controllersMu", 6)

	rtLock := p.Lockset(LockSpec{Rel: pkgRuntime, Struct: "Runtime", Mutex: "controllersMu", Guarded: []string{"controllers"}}, pkgRuntime)

	for name, ctor := range map[string]string{"RegisterController": pkgRRuntime + ".NewAdapter", "RegisterQController": pkgQRuntime + ".NewAdapter"} {
		// the registration logic may live in the method itself or in a helper it calls
		f := p.Method(pkgRuntime, "Runtime", name)
		if !c.NeedFunc("R17.5", f, rtT+"."+name) {
			continue
		}

		body := f
		if len(p.Calls(f, ctor)) == 0 {
			for _, call := range p.Calls(f, rtT+".*") {
				if g := StaticOrClosureCallee(call); g != nil && p.ReachesCall(g, p.CallTo(ctor), 2) {
					body = g
				}
			}
		}

		c.Touch(body)

		rollback := p.CallTo(dbT + ".DeleteController")
		ctorErr := "nonnil(call:" + ctor + "(*)#1)"
		ctorOK := "nil(call:" + ctor + "(*)#1)"
		exists := "true(lookup(*param#0.controllers,*)#1)"

		// deferred rollbacks run on every exit after they are registered: treat the defer as the call site and demand the same guards
		starts := p.EdgeSuccs(body, ctorErr)
		if len(Find(body, func(in ssa.Instruction) bool {
			d, ok := in.(*ssa.Defer)
			return ok && p.ReachesCall(StaticOrClosureCalleeOf(d), rollback, 1)
		})) > 0 {
			c.Bad("R17.5", FuncName(body)+" :: rollback is an explicit call on the constructor-failure path", fpos(body),
				"the rollback is deferred: it also runs for rejections that happen before anything was added (e.g. duplicate name), wiping an existing controller's entries")
		}

		c.NoReach("R17.5", "constructor failure → error return only through DeleteController(name)", body, starts, 1, IsReturn, CutSpec{Nodes: rollback})
		c.MustCut("R17.5", "DeleteController ⊣ {constructor returned an error}", body, rollback, CutSpec{Edges: FactEdge(ctorErr)}, 1)
		c.NoReach("R17.5", "duplicate-name rejection never reaches the rollback or the constructor", body, p.EdgeSuccs(body, exists), 1, OrInstr(rollback, p.CallTo(ctor)), CutSpec{})

		for _, call := range p.Calls(body, dbT+".DeleteController") {
			d := p.ArgDesc(call, 1)
			c.Check(Glob("call:(pkg/controller.*).Name(param#1)", d), "R17.5", FuncName(body)+" :: rollback is keyed by the rejected controller's name", call.Pos(), d, "rolls back "+d)
		}

		c.MustCut("R17.7", "adapter constructor ⊣ {name not registered}", body, p.CallTo(ctor), CutSpec{Edges: FactEdge("false(lookup(*param#0.controllers,*)#1)")}, 1)
		c.MustCut("R17.7", "registerAdapter ⊣ {constructor ok}", body, p.CallTo(rtT+".registerAdapter"), CutSpec{Edges: FactEdge(ctorOK)}, 1)
		c.MustCut("R17.7", "return nil ⊣ {registerAdapter}", body, ReturnsNilConst(0), CutSpec{Nodes: p.CallTo(rtT + ".registerAdapter")}, 1)

		for _, in := range Find(body, p.CallTo(ctor, rtT+".registerAdapter")) {
			c.Check(rtLock.HeldAt(in) > 0 || body != f, "R17.7", FuncName(body)+" :: controllersMu held at "+p.CalleeName(in.(ssa.CallInstruction)), in.Pos(), "held", "registration step outside controllersMu")
		}
	}

	// the adapter constructors are the only place (besides UpdateInputs) that add to the database
	nAdd := 0

	for _, f := range p.AllOwnFuncs() {
		for _, call := range p.Calls(f, dbT+".AddControllerOutput", dbT+".AddControllerInput") {
			root := f
			for root.Parent() != nil {
				root = root.Parent()
			}

			nAdd++
			ok := root.Name() == "NewAdapter" || root.Name() == "UpdateInputs"
			c.Check(ok, "R17.5", FuncName(f)+" :: dependency database additions happen only in NewAdapter / UpdateInputs", call.Pos(), root.Name(), "addition in "+FuncName(f)+" is not covered by the registration rollback")
		}
	}

	if nAdd == 0 {
		c.Unknown("R17.5", "anchor-unresolved: database additions", 0, "no AddControllerOutput/AddControllerInput call found")
	}

	// DeleteController clears all five tables for that name
	if f := p.Method(pkgDep, "Database", "DeleteController"); c.NeedFunc("R17.5", f, dbT+".DeleteController") {
		touched := map[string]bool{}

		for _, g := range append([]*ssa.Function{f}, AllClosures(f)...) {
			for _, in := range Find(g, func(ssa.Instruction) bool { return true }) {
				for _, t := range depLock.Guarded {
					if MapWriteOnField("Database", t)(in) {
						touched[t] = true
					}
				}
			}
		}

		c.Check(len(touched) == 5, "R17.5", FuncName(f)+" :: rollback edits all five tables", fpos(f), "5 tables", "rollback leaves entries in some table; edits only "+joinSorted(touched))
	}

	// ---------- R17.6 delivery nil-safety
	c.Rule("R17.6", "E3", "deliverDeduplicatedEvents: controllers[name] is used as a receiver only behind a presence test", 1)

	if f := p.Method(pkgRuntime, "Runtime", "deliverDeduplicatedEvents"); c.NeedFunc("R17.6", f, rtT+".deliverDeduplicatedEvents") {
		wt := p.CallTo("(" + "pkg/controller/runtime/internal/adapter" + ".Adapter).WatchTrigger")
		c.MustCut("R17.6", "WatchTrigger ⊣ {controllers[name] present}", f, wt, CutSpec{Edges: FactEdge("true(lookup(*param#0.controllers,*)#1)", "nonnil(lookup(*param#0.controllers,*))")}, 1)

		for _, call := range p.Calls(f, "("+"pkg/controller/runtime/internal/adapter"+".Adapter).WatchTrigger") {
			c.Check(rtLock.HeldAt(call.(ssa.Instruction)) > 0 || len(Find(f, p.PlainCallTo("(*sync.RWMutex).RLock"))) == 1, "R17.6", FuncName(f)+" :: controllers map read under controllersMu", call.Pos(), "RLock held", "map read without the lock")
		}
	}

	// ---------- R17.8 kind validation
	c.Rule("R17.8", "E4", "rruntime rejects exactly the Q input kinds; qruntime rejects exactly the non-Q kinds", 2)

	kinds := p.ConstsByPrefix("pkg/controller", "Input")

	check := func(f *ssa.Function, wantRejected map[string]bool, what string) {
		if !c.NeedFunc("R17.8", f, what) {
			return
		}

		rejected := map[string]bool{}

		for name, val := range kinds {
			// under the assumption `Kind == val` (every edge that contradicts it is cut — wherever the kind tests
			// are written: in line, in a switch, in a predicate helper), can the input still be registered?
			assume := func(e EdgeInfo) bool {
				for _, fact := range e.Facts {
					if Glob("ne(*.Kind,const:"+val+")", fact) {
						return true
					}

					for _, other := range kinds {
						if other != val && Glob("eq(*.Kind,const:"+other+")", fact) {
							return true
						}
					}
				}

				return false
			}

			// from every place reached through a `Kind == val` edge (also one that only shows after a
			// predicate helper's result is resolved)
			starts := p.EdgeSuccs(f, "eq(*.Kind,const:"+val+")")
			if len(starts) == 0 {
				continue
			}

			if bad, _ := p.Reach(starts, p.CallTo(dbT+".AddControllerInput", dbT+".GetControllerInputs"), CutSpec{Edges: assume}); !bad {
				rejected[name] = true
			}
		}

		if len(p.Calls(f, dbT+".AddControllerInput", dbT+".GetControllerInputs")) == 0 {
			c.Unknown("R17.8", FuncName(f)+" :: rejected input kinds", fpos(f), "anchor-unresolved: the function no longer registers or compares inputs through the dependency database")

			return
		}

		c.Check(joinSorted(rejected) == joinSorted(wantRejected), "R17.8", FuncName(f)+" :: rejected input kinds", fpos(f), joinSorted(rejected), "rejects {"+joinSorted(rejected)+"}, expected {"+joinSorted(wantRejected)+"}")
	}

	check(p.Method(pkgRRuntime, "Adapter", "UpdateInputs"), map[string]bool{"InputQPrimary": true, "InputQMapped": true, "InputQMappedDestroyReady": true}, "rruntime.UpdateInputs")
	check(p.Func(pkgQRuntime, "NewAdapter"), map[string]bool{"InputWeak": true, "InputStrong": true, "InputDestroyReady": true}, "qruntime.NewAdapter")

	// ---------- error discipline (E8)
	errDisciplineFor(c, "C17")

	// ---------- R17.11 failure atomicity
	c.Rule("R17.11", "E8", "dependency database and runtime registration: no method writes its tables and can still fail afterwards (a rejected registration leaves no trace); listed: Run's start-up, which cancels its context again when the watches cannot be set up, and watch()'s not-yet-started marker", 3)
	c.FailureAtomicity("R17.11", []string{pkgDep, pkgRuntime}, map[string]string{
		"Runtime.runCtx":       "set before setupWatches; on failure the context is cancelled and Run returns the error: the runtime is not usable afterwards by design",
		"Runtime.runCtxCancel": "see runCtx",
		"Runtime.watched":      "the key is recorded as not-yet-watched (false) before the watch is started; a failed start is reported and the runtime stops",
	}, pkgRRuntime, 4)

	// ---------- R17.12 conflicting inputs are neighbours in the sort order
	c.Rule("R17.12", "E4", "Input.Compare orders by the fields EqualKeys compares (namespace, type, id) before anything else, so inputs with conflicting keys are adjacent in a sorted list — the duplicate test of AddControllerInput (binary search ±1) and the merge in UpdateInputs rely on it", 1)

	if cmpF, eqF := p.Method("pkg/controller", "Input", "Compare"), p.Method("pkg/controller", "Input", "EqualKeys"); c.NeedFunc("R17.12", cmpF, "Input.Compare") && c.NeedFunc("R17.12", eqF, "Input.EqualKeys") {
		fieldsIn := func(v ssa.Value) string {
			// the Input field a compared value is read from
			seen := map[ssa.Value]bool{}

			var walk func(v ssa.Value, d int) string

			walk = func(v ssa.Value, d int) string {
				if v == nil || seen[v] || d > 6 {
					return ""
				}

				seen[v] = true

				switch x := v.(type) {
				case *ssa.FieldAddr:
					if sn, fn := FieldOf(x.X, x.Field); sn == "Input" {
						return fn
					}
				case *ssa.Field:
					if sn, fn := FieldOf(x.X, x.Field); sn == "Input" {
						return fn
					}
				case *ssa.UnOp:
					return walk(x.X, d+1)
				case *ssa.Call:
					for _, a := range x.Call.Args {
						if r := walk(a, d+1); r != "" {
							return r
						}
					}
				case *ssa.MakeInterface:
					return walk(x.X, d+1)
				case *ssa.ChangeType:
					return walk(x.X, d+1)
				case *ssa.Convert:
					return walk(x.X, d+1)
				}

				return ""
			}

			return walk(v, 0)
		}

		keys := map[string]bool{}

		for _, in := range Find(eqF, func(in ssa.Instruction) bool { _, ok := in.(*ssa.FieldAddr); return ok }) {
			if sn, fn := FieldOf(in.(*ssa.FieldAddr).X, in.(*ssa.FieldAddr).Field); sn == "Input" {
				keys[fn] = true
			}
		}

		cmpCalls := p.Calls(cmpF, "cmp.Compare")

		switch {
		case len(keys) < 3 || len(cmpCalls) < 2:
			c.Unknown("R17.12", FuncName(cmpF)+" :: key fields first", fpos(cmpF), fmt.Sprintf("anchor-unresolved: %d key fields in EqualKeys, %d cmp.Compare calls in Compare", len(keys), len(cmpCalls)))
		case len(p.Calls(cmpF, "cmp.Or")) > 0:
			// lexicographic list: key fields must come before the others
			ok, detail := true, ""

			for _, or := range p.Calls(cmpF, "cmp.Or") {
				elems, _ := VarargElems(CallArgs(or)[0])

				// VarargElems does not promise an order: take the element index from the address
				type at struct {
					idx   int64
					field string
				}

				var seq []at

				if sl, isSl := Fwd(CallArgs(or)[0]).(*ssa.Slice); isSl {
					if al, isAl := sl.X.(*ssa.Alloc); isAl && al.Referrers() != nil {
						for _, r := range *al.Referrers() {
							ia, isIA := r.(*ssa.IndexAddr)
							if !isIA || ia.Referrers() == nil {
								continue
							}

							k, isConst := ia.Index.(*ssa.Const)
							if !isConst {
								continue
							}

							for _, rr := range *ia.Referrers() {
								if st, isSt := rr.(*ssa.Store); isSt && st.Addr == ssa.Value(ia) {
									seq = append(seq, at{k.Int64(), fieldsIn(st.Val)})
								}
							}
						}
					}
				}

				sort.Slice(seq, func(i, j int) bool { return seq[i].idx < seq[j].idx })

				if len(seq) != len(elems) || len(seq) < len(keys) {
					ok, detail = false, "the compared list could not be read"
				}

				for i, e := range seq {
					if i < len(keys) && !keys[e.field] {
						ok, detail = false, fmt.Sprintf("position %d compares %q before all key fields were compared", i, e.field)
					}
				}
			}

			c.Check(ok, "R17.12", FuncName(cmpF)+" :: key fields first", fpos(cmpF), "lexicographic list starts with the EqualKeys fields", detail)
		default:
			// decision chain: a non-key field decides only behind the equal edges of all key fields
			n := 0

			for _, call := range cmpCalls {
				fld := fieldsIn(CallArgs(call)[0])
				if keys[fld] || fld == "" {
					continue
				}

				n++

				this := call

				for k := range keys {
					c.MustCut("R17.12", "Compare decides on "+fld+" ⊣ {"+k+" equal}", cmpF, func(in ssa.Instruction) bool { return in == ssa.Instruction(this.(*ssa.Call)) },
						CutSpec{Edges: FactEdge("eq(*Input*." + k + ",*Input*." + k + ")")}, 1)
				}
			}

			if n == 0 {
				c.Unknown("R17.12", FuncName(cmpF)+" :: key fields first", fpos(cmpF), "anchor-unresolved: no comparison of a non-key field found")
			}
		}
	}

	// ---------- R17.14 presence in sharedOutputs means "at least one sharer"
	c.Rule("R17.14", "E1", "dependency database: an entry of sharedOutputs is never left behind empty — a shortened sharer list (slices.Delete/DeleteFunc) is stored back only behind a test that it keeps an element; the exclusive claim in AddControllerOutput treats presence of the key as 'shared by sharedControllers[0]' and would index an empty list (a rejected registration that was the only sharer, then an exclusive claim on the type)", 1)

	{
		shrunk := func(in ssa.Instruction) bool {
			mu, ok := in.(*ssa.MapUpdate)
			if !ok || !LoadsField(mu.Map, "Database", "sharedOutputs") {
				return false
			}

			call, ok := mu.Value.(*ssa.Call)
			if !ok {
				return false
			}

			name := p.CalleeName(call)

			return strings.HasPrefix(name, "slices.Delete")
		}
		keeps := FactEdge(
			"ne(call:builtin.len(*),const:1)", "gt(call:builtin.len(*),const:1)", "ge(call:builtin.len(*),const:2)",
			"ne(call:builtin.len(*),const:0)", "gt(call:builtin.len(*),const:0)", "ge(call:builtin.len(*),const:1)",
		)
		n := 0

		for _, f := range p.PkgFuncs(pkgDep) {
			if len(Find(f, shrunk)) == 0 {
				continue
			}

			n++

			c.MustCut("R17.14", "sharedOutputs[type] = shortened list ⊣ {the list keeps an element}", f, shrunk, CutSpec{Edges: keeps}, 1)
		}

		if n == 0 {
			// no shortened list is ever stored back (e.g. entries are always deleted and rebuilt): nothing to require
			c.Check(true, "R17.14", pkgDep+" :: no shortened sharer list is stored back into sharedOutputs", token.NoPos, "no such store in the package", "")
		}
	}

	// ---------- R17.13 tables are not edited while they are walked
	c.Rule("R17.13", "E3", "dependency database / input bookkeeping: a slice is never shortened, extended or re-sliced in place (slices.Delete / DeleteFunc / Insert / append, or an update of the map entry it came from) inside a loop that ranges over that same slice — elements would be skipped or visited twice, leaving stale lookup entries behind", 2)

	mutators := []string{"slices.Delete", "slices.DeleteFunc", "slices.Insert", "slices.Compact", "slices.CompactFunc", "slices.Replace", "builtin.append"}

	for _, rel := range []string{pkgDep, pkgRRuntime, pkgQRuntime} {
		nLoops, bad := 0, ""

		var badPos token.Pos

		for _, f := range p.PkgFuncs(rel) {
			// ranged slices: X of an element access whose index is a loop-header join
			for _, in := range Find(f, func(in ssa.Instruction) bool {
				switch x := in.(type) {
				case *ssa.IndexAddr:
					_, isSlice := x.X.Type().Underlying().(*types.Slice)

					return isLoopIndex(x.Index) && isSlice
				case *ssa.Index:
					return isLoopIndex(x.Index)
				}

				return false
			}) {
				var ranged ssa.Value

				switch x := in.(type) {
				case *ssa.IndexAddr:
					ranged = x.X
				case *ssa.Index:
					ranged = x.X
				}

				loops := loopsContaining(f, in.Block())
				if len(loops) == 0 {
					continue
				}

				nLoops++

				d := p.DescN(ranged, 5)

				for _, body := range loops {
					for b := range body {
						for _, bi := range b.Instrs {
							switch y := bi.(type) {
							case *ssa.Call:
								if GlobAny(mutators, p.CalleeName(y)) && len(y.Call.Args) > 0 && p.DescN(y.Call.Args[0], 5) == d {
									bad = FuncName(f) + ": " + p.CalleeName(y) + " on " + d + " inside the loop that ranges over it"
									badPos = y.Pos()
								}
							case *ssa.MapUpdate:
								if lk, ok := Fwd(ranged).(*ssa.Lookup); ok && p.Desc(lk.X) == p.Desc(y.Map) && p.Desc(lk.Index) == p.Desc(y.Key) {
									bad = FuncName(f) + ": the map entry " + d + " is replaced inside the loop that ranges over its old value"
									badPos = y.Pos()
								}
							}
						}
					}
				}
			}
		}

		if nLoops == 0 {
			c.Unknown("R17.13", rel+" :: no slice is edited in place while it is ranged over", token.NoPos, "anchor-unresolved: no range loop over a slice found in the package")

			continue
		}

		c.Check(bad == "", "R17.13", rel+" :: no slice is edited in place while it is ranged over", badPos, fmt.Sprintf("%d range loops over slices examined", nLoops), bad)
	}

}

// StaticOrClosureCalleeOf resolves the function a defer/go/call instruction invokes.
func StaticOrClosureCalleeOf(c ssa.CallInstruction) *ssa.Function {
	return StaticOrClosureCallee(c)
}

// dependentsFresh: GetDependentControllers returns a fresh concatenation of the kind-wide and the per-ID lookup on every
// success path (the delivery loop walks the result after the database lock is released).
func dependentsFresh(c *Ctx, rule string) {
	p := c.P

	if f := p.Method(pkgDep, "Database", "GetDependentControllers"); c.NeedFunc(rule, f, dbT+".GetDependentControllers") {
		ok := true
		d := ""
		n := 0

		for _, in := range Find(f, ReturnsNilConst(1)) {
			n++
			d = p.DescN(in.(*ssa.Return).Results[0], 5)
			// a fresh slice holding both lookups: slices.Concat(a, b), or append(append(nil/fresh, a...), b...)
			fresh, parts := concatParts(p, in.(*ssa.Return).Results[0], 0)
			okThis := fresh && len(parts) == 2

			if okThis {
				d0, d1 := p.Desc(parts[0]), p.Desc(parts[1])
				okThis = Glob("lookup(*param#0.inputLookup,*", d0+d1) && strings.Contains(d0+d1, "inputLookupID") && (strings.Contains(d0, "inputLookupID") != strings.Contains(d1, "inputLookupID"))
			}

			if !okThis {
				ok = false

				break
			}
		}

		ok = ok && n >= 1

		c.Check(ok, rule, FuncName(f)+" :: returns a fresh slices.Concat(kind-wide lookup, per-ID lookup)", fpos(f), short(d, 120), "returns "+d+" — an internal slice would be mutated under the delivery loop")
	}

}

// isLoopIndex: the index expression of a range loop (the counter join, or counter+1 in the rotated form).
func isLoopIndex(v ssa.Value) bool {
	switch x := v.(type) {
	case *ssa.Phi:
		return true
	case *ssa.BinOp:
		_, a := x.X.(*ssa.Phi)
		_, b := x.Y.(*ssa.Phi)

		return a || b
	}

	return false
}

// concatParts decomposes a slice built by concatenation: whether the storage is allocated by the
// expression itself, and the slices whose elements are copied into it, in order.
func concatParts(p *Program, v ssa.Value, d int) (bool, []ssa.Value) {
	v = Fwd(v)
	if d > 6 {
		return false, nil
	}

	if isNilConst(v) {
		return true, nil
	}

	if _, ok := v.(*ssa.MakeSlice); ok {
		return true, nil
	}

	call, _ := CallOf(v)
	if call == nil {
		return false, nil
	}

	switch p.CalleeName(call) {
	case "slices.Concat":
		elems, lit := VarargElems(CallArgs(call)[0])

		return lit, elems
	case "slices.Clone":
		return true, []ssa.Value{CallArgs(call)[0]}
	case "builtin.append":
		args := CallArgs(call)
		if len(args) != 2 {
			return false, nil
		}

		fresh, parts := concatParts(p, args[0], d+1)

		return fresh, append(parts, args[1])
	}

	return false, nil
}
