package lint

import (
	"fmt"
	"strings"

	"golang.org/x/tools/go/ssa"
)

// Dump prints the SSA of every module function whose FuncName contains substr, with the
// canonical callee names and edge facts the rules see. Debug aid only.
func Dump(p *Program, substr string) {
	for _, f := range p.AllOwnFuncs() {
		if !strings.Contains(FuncName(f), substr) {
			continue
		}

		fmt.Printf("=== %s  (%s)\n", FuncName(f), p.Pos(fpos(f)))

		for _, b := range f.Blocks {
			preds := make([]string, len(b.Preds))
			for i, pb := range b.Preds {
				preds[i] = fmt.Sprint(pb.Index)
			}

			fmt.Printf(" b%d: <- %s  %s\n", b.Index, strings.Join(preds, ","), b.Comment)

			for _, in := range b.Instrs {
				extra := ""

				switch x := in.(type) {
				case ssa.CallInstruction:
					extra = "   ;; " + p.CalleeName(x)
				case *ssa.If:
					if lt := p.LinFact(x.Cond, true, CollectionAliases); lt != "" {
						fmt.Printf("    ;; lin T:%s  F:%s\n", lt, p.LinFact(x.Cond, false, CollectionAliases))
					}

					extra = fmt.Sprintf("   ;; T:%v F:%v -> b%d b%d", p.Facts(x.Cond, true), p.Facts(x.Cond, false), b.Succs[0].Index, b.Succs[1].Index)
				case *ssa.Jump:
					extra = fmt.Sprintf("   -> b%d", b.Succs[0].Index)
				}

				fmt.Printf("    %-60s%s\n", instrString(in), extra)
			}
		}
	}
}

// DumpInline prints what the inlining normal form did.
func DumpInline(p *Program) {
	for _, c := range p.Inline.Callees {
		println("inlined:", c)
	}

	for _, c := range p.Inline.Skipped {
		println("kept as call:", c)
	}
}

// DebugChain prints domChainEdges for every block of functions whose name contains sub that stores a bool constant.
func DebugChain(p *Program, sub string) {
	for _, f := range p.AllOwnFuncs() {
		if !strings.Contains(FuncName(f), sub) {
			continue
		}

		for _, b := range f.Blocks {
			for _, in := range b.Instrs {
				st, ok := in.(*ssa.Store)
				if !ok {
					continue
				}

				if c, ok := st.Val.(*ssa.Const); ok && c.Value != nil && c.Value.String() == "true" {
					es, complete := p.domChainEdges(b, nil)
					println(FuncName(f), "b", b.Index, "complete", complete)

					for _, b2 := range f.Blocks {
						for _, in2 := range b2.Instrs {
							if mc, ok := in2.(*ssa.MakeClosure); ok {
								_, c2 := p.domChainEdges(b, b2)
								println("   at closure", mc.Fn.Name(), "b", b2.Index, "complete", c2)
							}
						}
					}
					for _, e := range es {
						println("   ", e.Truth, p.Desc(e.Cond))
					}
				}
			}
		}
	}
}
