package lint

import (
	"fmt"
	"go/token"
	"go/types"
	"strings"

	"golang.org/x/tools/go/ssa"
)

// CollectionAliases names the ring-buffer variables of inmem.ResourceCollection as seen from its
// methods and from the closures they spawn.
var CollectionAliases = []Alias{
	{Glob: "*param#0.writePos", Name: "W"}, {Glob: "*free:param#0.writePos", Name: "W"},
	{Glob: "*param#0.capacity", Name: "C"}, {Glob: "*free:param#0.capacity", Name: "C"},
	{Glob: "*param#0.maxCapacity", Name: "M"}, {Glob: "*free:param#0.maxCapacity", Name: "M"},
	{Glob: "*param#0.gap", Name: "G"}, {Glob: "*free:param#0.gap", Name: "G"},
	{Name: "P", Match: isWatcherPos},
	{Glob: "*var:pkg/state.Watch*Options.TailEvents", Name: "T"}, {Glob: "*free:var:pkg/state.Watch*Options.TailEvents", Name: "T"},
}

const (
	// canonical atoms (see guards.go): X ≤ 0 forms
	linOverrun    = "le:+1*C+1*P-1*W+1" // writePos - pos > capacity
	linNotOverrun = "le:-1*C-1*P+1*W"   // writePos - pos <= capacity
	linCaughtUp   = "eq:+1*P-1*W"       // pos == writePos
	linBehind     = "ne:+1*P-1*W"
	linPosLtW     = "le:+1*P-1*W+1" // pos < writePos
)

// isWatcherPosAddr identifies the watcher's position variable by role rather than by name or type
// order: the int64 local of Watch/WatchAll (possibly captured by the delivery goroutine) that is
// initialised from the collection's writePos.
func isWatcherPosAddr(addr ssa.Value) bool {
	var al *ssa.Alloc

	for range 6 {
		switch a := addr.(type) {
		case *ssa.Alloc:
			al = a
		case *ssa.FreeVar:
			// resolve the captured variable through the closure's creation site
			fn := a.Parent()
			if fn == nil || fn.Parent() == nil {
				return false
			}

			var next ssa.Value

			for _, b := range fn.Parent().Blocks {
				for _, in := range b.Instrs {
					mc, ok := in.(*ssa.MakeClosure)
					if !ok || mc.Fn != ssa.Value(fn) {
						continue
					}

					for i, fv := range fn.FreeVars {
						if fv == a && i < len(mc.Bindings) {
							next = mc.Bindings[i]
						}
					}
				}
			}

			if next == nil {
				return false
			}

			addr = next

			continue
		}

		break
	}

	if al == nil || !isIntType(al.Type().(*types.Pointer).Elem()) {
		return false
	}

	for _, st := range AllStores(al) {
		if LoadsField(st.Val, "ResourceCollection", "writePos") {
			return true
		}
	}

	return false
}

func isWatcherPos(v ssa.Value) bool {
	// the position decoded from a bookmark is the same quantity (it is what pos is set from)
	if ex, ok := v.(*ssa.Extract); ok && ex.Index == 0 {
		if call, ok := ex.Tuple.(*ssa.Call); ok {
			if g := call.Call.StaticCallee(); g != nil && g.Name() == "decodeBookmark" {
				return true
			}
		}
	}

	// the position handed by value to a function literal (e.g. of an inlined helper)
	if fv, ok := v.(*ssa.FreeVar); ok {
		if b := freeVarBinding(fv); b != nil {
			return isWatcherPos(b)
		}

		return false
	}

	load, ok := v.(*ssa.UnOp)
	if !ok || load.Op != token.MUL {
		return false
	}

	if isWatcherPosAddr(load.X) {
		return true
	}

	// a by-value copy of the position (a helper's parameter that its own function literal captures):
	// reads of the copy are reads of the position, stores that initialise it are not changes of it
	addr := load.X
	if fv, ok := addr.(*ssa.FreeVar); ok {
		if b := freeVarBinding(fv); b != nil {
			addr = b
		}
	}

	if al, ok := addr.(*ssa.Alloc); ok {
		if st := SingleStore(al); st != nil && st.Val != v {
			return isWatcherPos(st.Val)
		}
	}

	return false
}

// freeVarBinding finds what the enclosing function bound the captured variable to.
func freeVarBinding(fv *ssa.FreeVar) ssa.Value {
	fn := fv.Parent()
	if fn == nil || fn.Parent() == nil {
		return nil
	}

	for _, b := range fn.Parent().Blocks {
		for _, in := range b.Instrs {
			mc, ok := in.(*ssa.MakeClosure)
			if !ok || mc.Fn != ssa.Value(fn) {
				continue
			}

			for i, f := range fn.FreeVars {
				if f == fv && i < len(mc.Bindings) {
					return mc.Bindings[i]
				}
			}
		}
	}

	return nil
}

func init() {
	register(&PropertyInfo{
		ID: "C02",
		Explanation: "The ring-buffer protocol is decided structurally. R02.1: publish and every reader access stream/writePos/capacity only under the collection mutex (lockset). " +
			"R02.2: publish stores the event at writePos % capacity, then advances writePos by exactly one on every path, then broadcasts; capacity grows only under writePos == capacity ∧ capacity < maxCapacity (first lap), is clamped to maxCapacity, and stream is only extended by append. " +
			"R02.3: the watcher's start position and its snapshot (initial event / bootstrap list) are read in one critical section, before the delivery goroutine is spawned; pos is only changed under the lock. " +
			"R02.4: in both delivery loops every read of stream is behind the pass edge of a guard whose normal form is exactly writePos − pos ≤ capacity, re-evaluated in the same critical section; the fail edge sends one Errored event and terminates (no further read, lock or send loop). " +
			"R02.5: reader and writer use the same index expression (pos % capacity); WatchAll copies exactly [pos, writePos) (one slice when first < last, else tail ++ head) and sets pos = writePos before unlocking; Watch advances pos by one per slot while pos < writePos. " +
			"R02.6: Cond.Wait only under pos == writePos, condition re-tested and ctx checked after every wake-up; the ctx watcher broadcasts under the mutex. R02.7: Watch forwards a stream event only through the ID == id edge. R02.8: event contents (Old = previous stored, Resource = new stored).",
		NotCovered: "exactly-once in-order DELIVERY for every consumer speed and the equality 'replay == state' are behavioural over schedules and are not decided; (a) 'every committed change is in the log in commit order' is covered only as the necessary condition publish-under-lock (R02.1/2) + R01.x.",
		Assumptions: []string{
			"loads of writePos/capacity/pos inside one critical section of the delivery loop see one consistent value (no store in between: checked by the lockset, R02.1)",
			"sync.Cond semantics",
		},
		Run: runC02,
	})
}

func isStreamRead(in ssa.Instruction) bool {
	switch x := in.(type) {
	case *ssa.IndexAddr:
		return LoadsField(x.X, "ResourceCollection", "stream")
	case *ssa.Slice:
		return LoadsField(x.X, "ResourceCollection", "stream")
	}

	return false
}

func plainMutexOp(p *Program, name string) InstrPred {
	return func(in ssa.Instruction) bool {
		call, ok := in.(*ssa.Call)
		if !ok || p.CalleeName(call) != "(*sync.Mutex)."+name {
			return false
		}

		return Glob("*param#0.mu", p.ArgDesc(call, 0))
	}
}

// deliveryClosures returns (ctxWatcher, delivery) goroutine closures of Watch/WatchAll.
func deliveryClosures(p *Program, f *ssa.Function) (*ssa.Function, *ssa.Function) {
	var ctxw, del *ssa.Function

	for _, g := range GoClosures(f) {
		if len(p.Calls(g, gSend)) > 0 {
			del = g
		} else if len(p.Calls(g, "(*sync.Cond).Broadcast")) > 0 {
			ctxw = g
		}
	}

	return ctxw, del
}

func runC02(c *Ctx) {
	p := c.P
	al := CollectionAliases

	// ---------- R02.1
	c.Rule("R02.1", "E2", "stream/writePos/capacity (and storage) only under the collection mutex, at every access site", 8)

	li := p.Lockset(collectionLock, pkgInmem)
	c.LocksetReport("R02.1", li, collectionLockExceptions)

	// ---------- R02.2 publish shape
	c.Rule("R02.2", "E1", "publish: slot = writePos % capacity; writePos += 1 exactly once after the slot store; Broadcast; growth only on the first lap, clamped, by append", 9)

	pub := p.Method(pkgInmem, "ResourceCollection", "publish")
	if c.NeedFunc("R02.2", pub, gPublish) {
		slotStore := func(in ssa.Instruction) bool {
			st, ok := in.(*ssa.Store)
			if !ok {
				return false
			}

			ia, ok := st.Addr.(*ssa.IndexAddr)

			return ok && LoadsField(ia.X, "ResourceCollection", "stream")
		}
		wpStore := StoreToField("ResourceCollection", "writePos")

		ss := Find(pub, slotStore)
		okSlot := len(ss) == 1
		d := ""

		if okSlot {
			d = p.LinOf(ss[0].(*ssa.Store).Addr.(*ssa.IndexAddr).Index, al).String()
			okSlot = d == "+1*(+1*W%+1*C)"
		}

		c.Check(okSlot, "R02.2", FuncName(pub)+" :: one slot store at index writePos % capacity", fpos(pub), d, "slot index is "+d)

		ws := Find(pub, wpStore)
		okW := len(ws) == 1

		if okW {
			d = p.LinOf(ws[0].(*ssa.Store).Val, al).String()
			okW = d == "+1*W+1"
		}

		c.Check(okW, "R02.2", FuncName(pub)+" :: writePos = writePos + 1, once", fpos(pub), d, fmt.Sprintf("%d stores to writePos, value %s", len(ws), d))
		c.MustCut("R02.2", "return ⊣ {writePos advanced}", pub, IsReturn, CutSpec{Nodes: wpStore}, 1)
		c.MustCut("R02.2", "writePos advanced ⊣ {slot stored}", pub, wpStore, CutSpec{Nodes: slotStore}, 1)
		c.MustCut("R02.2", "return ⊣ {Broadcast}", pub, IsReturn, CutSpec{Nodes: p.CallTo("(*sync.Cond).Broadcast")}, 1)
		c.MustCut("R02.2", "Broadcast ⊣ {writePos advanced}", pub, p.CallTo("(*sync.Cond).Broadcast"), CutSpec{Nodes: wpStore}, 1)

		capStore := StoreToField("ResourceCollection", "capacity")
		streamStore := StoreToField("ResourceCollection", "stream")
		grow := OrInstr(capStore, streamStore)

		c.MustCut("R02.2", "growth ⊣ {writePos == capacity}", pub, grow, CutSpec{Edges: p.LinEdge(al, "eq:+1*C-1*W")}, 2)
		c.MustCut("R02.2", "growth ⊣ {capacity < maxCapacity}", pub, grow, CutSpec{Edges: p.LinEdge(al, "le:+1*C-1*M+1")}, 2)
		// no growth after the slot store
		c.NoReach("R02.2", "no capacity/stream change after the slot store", pub, After(pub, slotStore), 1, grow, CutSpec{})

		// accepted forms: `capacity *= 2; if capacity > maxCapacity { capacity = maxCapacity }` and
		// `capacity = min(capacity*2, maxCapacity)`
		okVals := true
		sawClamp, sawDouble, sawMin := false, false, false

		for _, in := range Find(pub, capStore) {
			v := p.LinOf(in.(*ssa.Store).Val, al).String()

			switch v {
			case "+2*C":
				sawDouble = true
			case "+1*M":
				sawClamp = true
			case "+1*min(+1*M,+2*C)":
				sawMin = true
			default:
				okVals = false
				d = v
			}
		}

		c.Check(okVals && (sawMin && !sawDouble || sawDouble && sawClamp), "R02.2", FuncName(pub)+" :: capacity ∈ {2·capacity, maxCapacity} with a clamp", fpos(pub), "doubling with clamp", "capacity set to "+d+" / clamp present: "+fmt.Sprint(sawClamp || sawMin))

		if sawMin && !sawDouble && !sawClamp {
			c.OK("R02.2", FuncName(pub)+" :: clamp store ⊣ {2·capacity > maxCapacity}", fpos(pub), "clamped by min(2·capacity, maxCapacity)")
			c.OK("R02.2", FuncName(pub)+" :: after doubling, the clamp test is passed before the buffer is extended", fpos(pub), "clamped by min(2·capacity, maxCapacity)")
		} else {
			c.MustCut("R02.2", "clamp store ⊣ {2·capacity > maxCapacity}", pub, func(in ssa.Instruction) bool {
				return capStore(in) && p.LinOf(in.(*ssa.Store).Val, al).String() == "+1*M"
			}, CutSpec{Edges: p.LinEdge(al, "le:-2*C+1*M+1")}, 1)
			// the unclamped value never survives above maxCapacity: from the doubling store, reaching the append requires passing the clamp test
			c.MustFollow("R02.2", "after doubling, the clamp test is passed before the buffer is extended", pub, func(in ssa.Instruction) bool {
				return capStore(in) && p.LinOf(in.(*ssa.Store).Val, al).String() == "+2*C"
			}, streamStore, CutSpec{Edges: p.LinEdge(al, "le:-2*C+1*M+1", "le:+2*C-1*M")}, 1)
		}

		okApp := true

		for _, in := range Find(pub, streamStore) {
			if !Glob("call:builtin.append(*param#0.stream,makeslice)", p.Desc(in.(*ssa.Store).Val)) {
				okApp = false
			}
		}

		c.Check(okApp, "R02.2", FuncName(pub)+" :: stream only extended by append(stream, make(...)...)", fpos(pub), "append", "stream is replaced, not extended: positions already written would move")
	}

	for _, name := range []string{"Watch", "WatchAll"} {
		f := p.Method(pkgInmem, "ResourceCollection", name)
		if !c.NeedFunc("R02.3", f, collT+"."+name) {
			continue
		}

		ctxw, del := deliveryClosures(p, f)

		// ---------- R02.3 snapshot atomicity
		c.Rule("R02.3", "E2", "start position and snapshot read in one critical section before the goroutines are spawned; pos only changes under the lock", 8)

		nl := len(Find(f, plainMutexOp(p, "Lock")))
		nu := len(Find(f, plainMutexOp(p, "Unlock")))
		c.Check(nl == 1 && nu == 0, "R02.3", FuncName(f)+" :: one Lock, released only by the deferred Unlock", fpos(f), "single critical section", fmt.Sprintf("%d Lock, %d early Unlock", nl, nu))

		isGo := func(in ssa.Instruction) bool { _, ok := in.(*ssa.Go); return ok }
		c.NoReach("R02.3", "no read of writePos/storage after a goroutine was spawned", f, After(f, isGo), 2,
			func(in ssa.Instruction) bool { fld, ok := li.guardedAccess(in); return ok && fld != "" }, CutSpec{})

		if name == "WatchAll" {
			// the bootstrap snapshot is built here, from storage, inside the critical section that also fixes pos
			// (a snapshot obtained through a self-locking helper such as List would be a second critical section)
			okSnap, nApp := true, 0
			why := ""

			for _, in := range Find(f, func(in ssa.Instruction) bool {
				st, ok := in.(*ssa.Store)

				return ok && Glob("var:[]pkg/resource.Resource*", p.Desc(st.Addr))
			}) {
				v := Fwd(in.(*ssa.Store).Val)

				// (any local slice of resources: the snapshot may be accumulated in a helper's local and
				// handed over — nil, make, append under the lock, or a copy of another such local)
				isLocalCopy := func(x ssa.Value) bool {
					u, ok := x.(*ssa.UnOp)
					if !ok || u.Op != token.MUL {
						return false
					}

					_, isAlloc := u.X.(*ssa.Alloc)

					return isAlloc && Glob("var:[]pkg/resource.Resource*", p.Desc(u.X))
				}

				if isLocalCopy(v) {
					continue
				}

				if _, isPhi := v.(*ssa.Phi); isPhi {
					allLocal := true

					for _, l := range PhiLeaves(v) {
						if !isLocalCopy(l) {
							allLocal = false
						}
					}

					if allLocal {
						continue
					}
				}

				switch x := v.(type) {
				case *ssa.Const, *ssa.MakeSlice:
				case *ssa.Call:
					if p.CalleeName(x) != "builtin.append" || li.HeldAt(in) <= 0 {
						okSnap, why = false, "bootstrapList assigned from "+p.Desc(v)
					} else {
						nApp++
					}
				default:
					okSnap, why = false, "bootstrapList assigned from "+p.Desc(v)
				}
			}

			rng := Find(f, func(in ssa.Instruction) bool {
				r, ok := in.(*ssa.Range)
				return ok && LoadsField(r.X, "ResourceCollection", "storage")
			})
			c.Check(okSnap && nApp >= 1 && len(rng) == 1 && li.HeldAt(rng[0]) > 0, "R02.3", FuncName(f)+" :: bootstrap snapshot is built from storage inside the critical section that reads writePos", fpos(f),
				"range over storage + append under the lock", "snapshot not taken in this critical section: "+why)

			for _, call := range p.Calls(f, collT+".List", collT+".Get") {
				c.Bad("R02.3", FuncName(f)+" :: no self-locking collection method is used for the snapshot", call.Pos(), p.CalleeName(call)+" takes the mutex itself: snapshot and start position end up in different critical sections")
			}
		}

		if c.NeedFunc("R02.3", del, name+" delivery goroutine") && c.NeedFunc("R02.3", ctxw, name+" ctx watcher goroutine") {
			okPos := true
			n := 0

			for _, in := range Find(del, func(in ssa.Instruction) bool {
				st, ok := in.(*ssa.Store)

				return ok && isWatcherPosAddr(st.Addr)
			}) {
				n++

				if li.HeldAt(in) <= 0 {
					okPos = false
				}
			}

			c.Check(okPos && n >= 1, "R02.3", FuncName(del)+" :: pos is only advanced with the lock held", fpos(del), fmt.Sprintf("%d stores", n), "pos changed outside the critical section")

			bc := p.Calls(ctxw, "(*sync.Cond).Broadcast")
			c.Check(len(bc) == 1 && li.HeldAt(bc[0].(ssa.Instruction)) > 0, "R02.3", FuncName(ctxw)+" :: ctx watcher broadcasts under the mutex", fpos(ctxw), "held", "broadcast without the lock: a waiter can miss it")
		}

		if del == nil {
			continue
		}

		// ---------- R02.4 overrun before read
		c.Rule("R02.4", "E6", "every stream read in a delivery loop is behind writePos − pos ≤ capacity, checked after the last Lock/Wait; overrun ⇒ one Errored event and the goroutine ends", 10)

		c.MustCut("R02.4", "stream read ⊣ {writePos − pos ≤ capacity}", del, isStreamRead, CutSpec{Edges: p.LinEdge(al, linNotOverrun)}, 1)
		// re-evaluated in the same critical section: from any Lock or Wait, a stream read needs a fresh pass of the guard
		c.MustFollow("R02.4", "after Lock/Wait a stream read needs a fresh overrun test", del, OrInstr(plainMutexOp(p, "Lock"), p.CallTo("(*sync.Cond).Wait")), isStreamRead,
			CutSpec{Edges: p.LinEdge(al, linNotOverrun)}, 2)
		over := p.LinEdgeSuccs(del, al, linOverrun)
		c.NoReach("R02.4", "overrun: no stream read, no further lock", del, over, 1, OrInstr(isStreamRead, plainMutexOp(p, "Lock"), p.CallTo("(*sync.Cond).Wait")), CutSpec{})

		if len(over) > 0 {
			// exactly one of singleCh/aggCh is non-nil (R02.3: the two callers pass (ch,nil) resp. (nil,ch)); the both-nil path is infeasible
			bad, w := p.Reach(over, IsReturn, CutSpec{Nodes: p.CallTo(gSend), Edges: FactEdge("nil(free:param#3)")})
			c.Check(!bad, "R02.4", FuncName(del)+" :: overrun: an event is sent before the goroutine returns", fpos(del), "Errored event sent", "overrun exit without notifying the subscriber: "+strings.Join(w, " "))
			bad, w = p.Reach(over, p.CallTo(gSend), CutSpec{Nodes: plainMutexOp(p, "Unlock")})
			c.Check(!bad, "R02.4", FuncName(del)+" :: overrun: the lock is released before the blocking send", fpos(del), "Unlock first", "send with the collection lock held: "+strings.Join(w, " "))
		}

		erroredConst := p.ConstVal(pkgState, "Errored")
		okE := false

		for _, in := range Find(del, StoreToField("Event", "Type")) {
			if p.Desc(in.(*ssa.Store).Val) == erroredConst {
				okE = true
			}
		}

		c.Check(okE, "R02.4", FuncName(del)+" :: the overrun event has Type Errored", fpos(del), "yes", "no Errored event literal in the delivery goroutine")

		// ---------- R02.5 reader/writer agreement
		c.Rule("R02.5", "E6", "read index = pos % capacity (same as the writer); WatchAll copies exactly [pos,writePos) and sets pos = writePos before unlocking; Watch advances by one slot while pos < writePos", 6)

		posStore := func(want string) InstrPred {
			return func(in ssa.Instruction) bool {
				st, ok := in.(*ssa.Store)

				return ok && isWatcherPosAddr(st.Addr) && p.LinOf(st.Val, al).String() == want
			}
		}

		if name == "Watch" {
			okIdx := true
			n := 0

			for _, in := range Find(del, isStreamRead) {
				ia, isIdx := in.(*ssa.IndexAddr)
				if !isIdx {
					okIdx = false

					continue
				}

				n++

				if p.LinOf(ia.Index, al).String() != "+1*(+1*P%+1*C)" {
					okIdx = false
				}
			}

			c.Check(okIdx && n == 1, "R02.5", FuncName(del)+" :: slot read at pos % capacity", fpos(del), "pos % capacity", "read index differs from the writer's")
			c.MustCut("R02.5", "slot read ⊣ {pos < writePos}", del, isStreamRead, CutSpec{Edges: p.LinEdge(al, linPosLtW)}, 1)
			c.MustFollow("R02.5", "after a slot read pos advances by one before the next read / unlock", del, isStreamRead, OrInstr(isStreamRead, plainMutexOp(p, "Unlock")), CutSpec{Nodes: posStore("+1*P+1")}, 1)
			c.Check(len(Find(del, posStore("+1*P+1"))) == 1 && len(Find(del, func(in ssa.Instruction) bool {
				st, ok := in.(*ssa.Store)

				return ok && isWatcherPosAddr(st.Addr)
			})) == 1, "R02.5", FuncName(del)+" :: the only change of pos is pos+1", fpos(del), "yes", "pos is changed in another way")
		} else {
			var slices []*ssa.Slice

			for _, in := range Find(del, isStreamRead) {
				if s, ok := in.(*ssa.Slice); ok {
					slices = append(slices, s)
				}
			}

			first, last := "+1*(+1*P%+1*C)", "+1*(+1*W%+1*C)"
			lin := func(v ssa.Value) string {
				if v == nil {
					return "-"
				}

				return p.LinOf(v, al).String()
			}

			shapes := map[string]int{}
			for _, s := range slices {
				shapes[lin(s.Low)+":"+lin(s.High)]++
			}

			okShape := len(slices) == 3 && shapes[first+":"+last] == 1 && shapes[first+":-"] == 1 && shapes["-:"+last] == 1
			c.Check(okShape, "R02.5", FuncName(del)+" :: copies stream[first:last] or stream[first:] ++ stream[:last] with first = pos % capacity, last = writePos % capacity", fpos(del), "3 slice expressions", fmt.Sprintf("slice shapes: %v", shapes))

			c.MustCut("R02.5", "single-slice copy ⊣ {first < last}", del, func(in ssa.Instruction) bool {
				s, ok := in.(*ssa.Slice)

				return ok && isStreamRead(in) && s.Low != nil && s.High != nil
			}, CutSpec{Edges: p.LinEdge(al, "le:+1*(+1*P%+1*C)-1*(+1*W%+1*C)+1")}, 1)
			c.MustCut("R02.5", "wrapped copy ⊣ {first >= last}", del, func(in ssa.Instruction) bool {
				s, ok := in.(*ssa.Slice)

				return ok && isStreamRead(in) && (s.Low == nil || s.High == nil)
			}, CutSpec{Edges: p.LinEdge(al, "le:-1*(+1*P%+1*C)+1*(+1*W%+1*C)")}, 2)

			// the concat is tail then head
			for _, call := range p.Calls(del, "slices.Concat") {
				elems, ok := VarargElems(CallArgs(call)[0])
				okOrder := ok && len(elems) == 2

				if okOrder {
					s0, ok0 := Fwd(elems[0]).(*ssa.Slice)
					s1, ok1 := Fwd(elems[1]).(*ssa.Slice)
					okOrder = ok0 && ok1 && s0.Low != nil && s0.High == nil && s1.Low == nil && s1.High != nil
				}

				c.Check(okOrder, "R02.5", FuncName(del)+" :: wrapped copy is stream[first:] then stream[:last]", call.Pos(), "tail ++ head", "concat order/shape differs")
			}

			c.MustFollow("R02.5", "after the copy pos = writePos before Unlock", del, isStreamRead, plainMutexOp(p, "Unlock"), CutSpec{Nodes: posStore("+1*W")}, 1)
			// the copied events are cloned (not aliases of the ring) before the lock is dropped
			okClone := len(p.Calls(del, "slices.Clone")) >= 1 && len(p.Calls(del, "slices.Concat")) == 1
			c.Check(okClone, "R02.5", FuncName(del)+" :: pending events are copied out of the ring (Clone/Concat) under the lock", fpos(del), "yes", "events are processed from the ring itself after unlocking")
		}

		// ---------- R02.6 wait loop
		c.Rule("R02.6", "E1", "Cond.Wait only under pos == writePos; condition re-tested and ctx checked after each wake-up", 6)

		wait := p.CallTo("(*sync.Cond).Wait")
		c.MustCut("R02.6", "Wait ⊣ {pos == writePos}", del, wait, CutSpec{Edges: p.LinEdge(al, linCaughtUp)}, 1)
		c.MustFollow("R02.6", "after Wait, reads need pos != writePos re-tested", del, wait, isStreamRead, CutSpec{Edges: p.LinEdge(al, linBehind)}, 1)
		c.MustFollow("R02.6", "after Wait, the ctx is polled before the condition is re-tested", del, wait, OrInstr(isStreamRead, wait), CutSpec{Nodes: func(in ssa.Instruction) bool { _, ok := in.(*ssa.Select); return ok }}, 1)

		for _, in := range Find(del, wait) {
			c.Check(li.HeldAt(in) > 0, "R02.6", FuncName(del)+" :: Wait is called with the mutex held", in.Pos(), "held", "Cond.Wait without the lock")
		}

		// ---------- R02.7 no leakage
		if name == "Watch" {
			c.Rule("R02.7", "E1", "Watch delivers a stream event only through the ID == id edge", 1)

			sendEvent := func(in ssa.Instruction) bool {
				call, ok := in.(ssa.CallInstruction)

				return ok && p.CalleeName(call) == gSend && p.ArgDesc(call, 2) == "*var:pkg/state.Event"
			}
			idEq := FactEdge("eq(call:(pkg/resource.Metadata).ID(*call:(pkg/resource.Resource).Metadata(*var:pkg/state.Event.Resource)),free:param#2)")
			c.MustCut("R02.7", "send(stream event) ⊣ {event.Resource.ID == id}", del, sendEvent, CutSpec{Edges: idEq}, 1)
			// the test that gates the send is evaluated on the value that is sent (after the last slot read)
			c.MustFollow("R02.7", "after a slot read, a send needs a fresh ID test", del, isStreamRead, sendEvent, CutSpec{Edges: idEq}, 1)
		}
	}

	// callers of WatchAll pass exactly one channel
	for m, want := range map[string][2]string{"WatchKind": {"param#3", "nil"}, "WatchKindAggregated": {"nil", "param#3"}} {
		f := p.Method(pkgInmem, "State", m)
		if !c.NeedFunc("R02.3", f, "inmem.State."+m) {
			continue
		}

		calls := p.Calls(f, collT+".WatchAll")
		ok := len(calls) == 1 && p.ArgDesc(calls[0], 1) == "param#1" && p.ArgDesc(calls[0], 2) == want[0] && p.ArgDesc(calls[0], 3) == want[1] && p.ArgDesc(calls[0], 4) == "param#4"
		c.Check(ok, "R02.3", FuncName(f)+" :: WatchAll gets exactly one of (single, aggregated) channel, ctx and options forwarded", fpos(f), "yes", "WatchAll called with other arguments")
	}

	// ---------- R02.8
	c.Rule("R02.8", "E3", "event contents: Updated carries Old = previous stored value and Resource = new stored value; Destroyed the removed value; Created the stored value", 6)
	c01Effects(c, "R02.8",
		p.Method(pkgInmem, "ResourceCollection", "Create"),
		p.Method(pkgInmem, "ResourceCollection", "Update"),
		p.Method(pkgInmem, "ResourceCollection", "Destroy"))

	// ---------- R02.9 the gRPC client never re-subscribes from nowhere
	c.Import(runC13, "R13.2", "", "R02.9", "E1", "client watch adapter: a re-Watch after a stream failure happens only once a bookmark was recorded — otherwise the new stream would start at the server's current position and silently skip the events in between", 1)

	// ---------- R02.11 ring slots are addressed with the ring's current capacity
	c.Rule("R02.11", "E3", "inmem ring: every slot address stream[x % m] takes m from the collection's capacity field at the time of the access — the ring grows during its first lap, and a modulus remembered from before a growth step addresses a first-lap slot: an old event is delivered again, the real one is dropped, and no Errored event is sent", 1)

	{
		n, bad := 0, ""

		var badPos token.Pos

		for _, f := range p.PkgFuncs(pkgInmem) {
			for _, in := range Find(f, func(in ssa.Instruction) bool {
				ia, ok := in.(*ssa.IndexAddr)

				return ok && LoadsField(ia.X, "ResourceCollection", "stream")
			}) {
				ia := in.(*ssa.IndexAddr)

				idx := ia.Index
				for {
					if cv, ok := idx.(*ssa.Convert); ok {
						idx = cv.X

						continue
					}

					break
				}

				bo, ok := idx.(*ssa.BinOp)
				if !ok || bo.Op != token.REM {
					continue
				}

				n++

				y := bo.Y
				for {
					if cv, ok := y.(*ssa.Convert); ok {
						y = cv.X

						continue
					}

					break
				}

				if d := p.DescN(bo.Y, 6); !LoadsField(y, "ResourceCollection", "capacity") {
					bad, badPos = FuncName(f)+": stream is indexed modulo "+d+", which is not the capacity field read at the access", ia.Pos()
				}
			}
		}

		if n < 3 {
			c.Unknown("R02.11", pkgInmem+" :: ring slots are addressed modulo the current capacity", token.NoPos, fmt.Sprintf("anchor-unresolved: expected >= 3 modular slot addresses, found %d", n))
		} else {
			c.Check(bad == "", "R02.11", pkgInmem+" :: ring slots are addressed modulo the current capacity", badPos, fmt.Sprintf("%d modular slot addresses examined", n), bad)
		}
	}

	// ---------- R02.10 (shared with C13 R13.1)
	c.Rule("R02.10", "E3", "a re-established remote watch carries every field of the initial request (API version included — the server only sends the terminal Errored event to API version >= 1): a resumed stream still fails loudly on overrun", 4)
	resumeRequestRule(c, "R02.10")

}
