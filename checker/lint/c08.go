package lint

import (
	"fmt"
	"go/token"
	"go/types"
	"strings"

	"golang.org/x/tools/go/ssa"
)

const (
	pkgCtrlState = "pkg/controller/runtime/internal/controllerstate"
	pkgOwned     = "pkg/state/owned"
	pkgRRuntime  = "pkg/controller/runtime/internal/rruntime"
	pkgQRuntime  = "pkg/controller/runtime/internal/qruntime"
	pkgCache     = "pkg/controller/runtime/internal/cache"
)

func init() {
	register(&PropertyInfo{
		ID: "C08",
		Explanation: "Access control is program shape. R08.1: in controllerstate.StateAdapter every delegated call on OwnedState / the read cache is reachable only through the pass edge of the matching guard applied to the SAME target value " +
			"(reads: checkReadAccess(ns,type,id) of the delegate's pointer; writes: isOutput(type of the delegate's target); finalizers: checkFinalizerAccess of the delegate's pointer). " +
			"R08.2: the guards' accepting exits are behind exactly the comparisons the property names (type equality; ns ∧ type ∧ id rule; kind ∈ {Strong,QPrimary,QMapped}). " +
			"R08.3: both runtime adapters expose to user callbacks only themselves, and every Reader/Writer method they have resolves to the StateAdapter method or to an override that only calls it. " +
			"R08.4: StateAdapter.OwnedState is touched only inside controllerstate (plus the two constructors); Inputs/Outputs are written only by construction and UpdateInputs. " +
			"R08.5: owned.State attaches to every inner write an owner option whose value comes only from st.owner, the explicit no-owner flag or the explicit owner option; owned.New receives the controller's Name().",
		NotCovered: "the iteration logic inside the guard loops beyond the comparison footprint on accepting paths; the store-level owner check is covered by C01 (R01.3).",
		Assumptions: []string{
			"Go visibility: unexported fields of owned.State are unreachable outside package owned (enforced by the compiler)",
			"user controllers cannot obtain the raw state other than through values the runtime hands them (checked for the callback arguments)",
		},
		Run: runC08,
	})
}

// Leaves returns the Desc of every non-phi leaf of v (through phis).
func (p *Program) Leaves(v ssa.Value) []string {
	seen := map[ssa.Value]bool{}
	out := map[string]bool{}

	var walk func(v ssa.Value)

	walk = func(v ssa.Value) {
		v = Fwd(v)
		if seen[v] {
			return
		}

		seen[v] = true

		if phi, ok := v.(*ssa.Phi); ok {
			for _, e := range phi.Edges {
				walk(e)
			}

			return
		}

		out[p.DescN(v, 6)] = true
	}

	walk(v)

	var res []string
	for k := range out {
		res = append(res, k)
	}

	sortStrings(res)

	return res
}

func runC08(c *Ctx) {
	p := c.P
	adapterT := "(*" + pkgCtrlState + ".StateAdapter)"

	// ---------- R08.1
	c.Rule("R08.1", "E1", "StateAdapter: every delegated call on OwnedState/Cache is behind the pass edge of the right guard applied to the same target value", 13)

	readM := map[string]bool{"Get": true, "List": true, "ContextWithTeardown": true}
	writeM := map[string]bool{"Create": true, "Update": true, "Modify": true, "ModifyWithResult": true, "Teardown": true, "Destroy": true}
	finM := map[string]bool{"AddFinalizer": true, "RemoveFinalizer": true}

	for _, m := range p.Methods(pkgCtrlState, "StateAdapter") {
		c.Touch(m)

		for _, in := range Find(m, func(in ssa.Instruction) bool { _, ok := in.(ssa.CallInstruction); return ok }) {
			call := in.(ssa.CallInstruction)
			callee := call.Common().StaticCallee()

			if callee == nil || callee.Signature.Recv() == nil {
				continue
			}

			args := CallArgs(call)
			if len(args) == 0 {
				continue
			}

			onOwned := LoadsField(args[0], "StateAdapter", "OwnedState")
			onCache := LoadsField(args[0], "StateAdapter", "Cache")

			if !onOwned && !onCache {
				continue
			}

			name := callee.Name()
			if onCache && !readM[name] {
				continue // IsHandled etc.: no resource contents
			}

			construct := FuncName(m) + " :: delegate " + map[bool]string{true: "OwnedState.", false: "Cache."}[onOwned] + name

			if len(args) < 3 {
				c.Unknown("R08.1", construct, call.Pos(), "delegate without a target argument")

				continue
			}

			tgt := p.DescN(args[2], 3)

			var guard []string

			switch {
			case readM[name]:
				id := "call:github.com/siderolabs/gen/optional.Some(call:(pkg/resource.Pointer).ID(" + tgt + "))"
				if name == "List" {
					id = "call:github.com/siderolabs/gen/optional.None()"
				}

				guard = []string{"nil(call:" + adapterT + ".checkReadAccess(param#0,call:(pkg/resource.*).Namespace(" + tgt + "),call:(pkg/resource.*).Type(" + tgt + ")," + id + "))"}

				// whoever may change the finalizers of this very resource (a strong / primary / mapped input covering its id) may read it
				if name != "List" {
					guard = append(guard, "nil(call:"+adapterT+".checkFinalizerAccess(param#0,call:(pkg/resource.*).Namespace("+tgt+"),call:(pkg/resource.*).Type("+tgt+"),call:(pkg/resource.Pointer).ID("+tgt+")))")
				}
			case writeM[name]:
				guard = []string{
					"true(call:" + adapterT + ".isOutput(param#0,call:(pkg/resource.*).Type(" + tgt + ")))",
					// Type() of the target's metadata, called on the concrete *Metadata or through the Pointer/Reference interface
					"true(call:" + adapterT + ".isOutput(param#0,call:(pkg/resource.*).Type(*call:(pkg/resource.Resource).Metadata(" + tgt + "))))",
				}
			case finM[name]:
				guard = []string{"nil(call:" + adapterT + ".checkFinalizerAccess(param#0,call:(pkg/resource.*).Namespace(" + tgt + "),call:(pkg/resource.*).Type(" + tgt + "),call:(pkg/resource.Pointer).ID(" + tgt + ")))"}
			default:
				c.Bad("R08.1", construct, call.Pos(), "delegated method is not classified as read/write/finalizer: no guard is known for it")

				continue
			}

			bad, w := p.Reach(Entry(m), func(i ssa.Instruction) bool { return i == in }, CutSpec{Edges: FactEdge(guard...)})
			if bad {
				c.Bad("R08.1", construct, call.Pos(), "reachable without "+guard[0]+" — "+strings.Join(w, " "))
			} else {
				c.OK("R08.1", construct, call.Pos(), "behind "+short(guard[0], 120))
			}
		}
	}

	// ---------- R08.2 guard bodies
	c.Rule("R08.2", "E1", "guard bodies accept only through the comparisons the property names", 9)

	f := p.Method(pkgCtrlState, "StateAdapter", "isOutput")
	retTrue := func(in ssa.Instruction) bool {
		r, ok := in.(*ssa.Return)
		if !ok || len(r.Results) != 1 {
			return false
		}

		k, ok := Fwd(r.Results[0]).(*ssa.Const)

		return !ok || k.Value == nil || k.Value.String() != "false"
	}
	c.MustCut("R08.2", "return true ⊣ {output.Type == resourceType}", f, retTrue, CutSpec{Edges: FactEdge("eq(*.Type,param#1)")}, 1)

	f = p.Method(pkgCtrlState, "StateAdapter", "checkReadAccess")
	isOut := "true(call:" + adapterT + ".isOutput(param#0,param#2))"
	c.mustCutEach("R08.2", "return nil", f, ReturnsNilConst(0), 1, map[string]EdgePred{
		"output or namespace equal": FactEdge(isOut, "eq(*.Namespace,param#1)"),
		"output or type equal":      FactEdge(isOut, "eq(*.Type,param#2)"),
		"output or id rule":         FactEdge(isOut, "false(call:(github.com/siderolabs/gen/optional.Optional[T]).IsPresent(*.ID))", "eq(*.ID,param#3)"),
	})

	f = p.Method(pkgCtrlState, "StateAdapter", "checkFinalizerAccess")
	kinds := []string{}
	for _, k := range []string{"InputStrong", "InputQPrimary", "InputQMapped"} {
		kinds = append(kinds, "eq(*.Kind,"+p.ConstVal("pkg/controller", k)+")")
	}

	c.mustCutEach("R08.2", "return nil", f, ReturnsNilConst(0), 1, map[string]EdgePred{
		"namespace equal":                   FactEdge("eq(*.Namespace,param#1)"),
		"type equal":                        FactEdge("eq(*.Type,param#2)"),
		"kind in {Strong,QPrimary,QMapped}": FactEdge(kinds...),
		"id rule":                           FactEdge("false(call:(github.com/siderolabs/gen/optional.Optional[T]).IsPresent(*.ID))", "eq(call:(github.com/siderolabs/gen/optional.Optional[T]).ValueOrZero(*.ID),param#3)", "eq(*.ID,*param#3*"),
	})

	// all four tests have to hold for one and the same declared input: the function walks the input list once
	if c.NeedFunc("R08.2", f, "StateAdapter.checkFinalizerAccess") {
		walks := 0

		for _, g := range append([]*ssa.Function{f}, AllClosures(f)...) {
			for _, in := range Find(g, func(in ssa.Instruction) bool {
				u, ok := in.(*ssa.UnOp)

				return ok && u.Op == token.MUL && LoadsField(u, "StateAdapter", "Inputs")
			}) {
				_ = in
				walks++
			}
		}

		c.Check(walks == 1, "R08.2", FuncName(f)+" :: kind, namespace, type and id are tested on the same input (one walk over the inputs)", fpos(f), "one walk", fmt.Sprintf("the input list is walked %d times: a strong input and a covering input need not be the same one", walks))
	}

	// ---------- R08.3 exposure
	c.Rule("R08.3", "E5", "runtime adapters: user callbacks receive the adapter itself; every Reader/Writer/UncachedReader method resolves to StateAdapter's or to an override that only wraps it", 30)

	ifaceMethods := map[string]bool{}

	for _, in := range []string{"Reader", "Writer", "UncachedReader"} {
		n := p.Named("pkg/controller", in)
		if n == nil {
			c.Unknown("R08.3", "anchor-unresolved: controller."+in, 0, "interface not found")

			continue
		}

		it, ok := n.Underlying().(*types.Interface)
		if !ok {
			continue
		}

		for i := range it.NumMethods() {
			ifaceMethods[it.Method(i).Name()] = true
		}
	}

	stateAdapter := p.Named(pkgCtrlState, "StateAdapter")

	for _, rel := range []string{pkgRRuntime, pkgQRuntime} {
		ad := p.Named(rel, "Adapter")
		if ad == nil || stateAdapter == nil {
			c.Unknown("R08.3", "anchor-unresolved: "+rel+".Adapter", 0, "type not found")

			continue
		}

		ms := types.NewMethodSet(types.NewPointer(ad))

		names := []string{}
		for n := range ifaceMethods {
			names = append(names, n)
		}

		sortStrings(names)

		for _, name := range names {
			sel := ms.Lookup(ad.Obj().Pkg(), name)
			construct := rel + ".Adapter." + name

			if sel == nil {
				c.Bad("R08.3", construct, ad.Obj().Pos(), "method missing from the adapter's method set")

				continue
			}

			fn := sel.Obj().(*types.Func)
			recv := fn.Type().(*types.Signature).Recv().Type()

			if pt, ok := recv.(*types.Pointer); ok {
				recv = pt.Elem()
			}

			if types.Identical(recv, stateAdapter) {
				c.OK("R08.3", construct, fn.Pos(), "promoted from StateAdapter")

				continue
			}

			// an override: it may only call the same-named StateAdapter method and touch no state itself
			body := p.SSA.FuncValue(fn)
			if body == nil {
				c.Unknown("R08.3", construct, fn.Pos(), "no SSA body for override")

				continue
			}

			c.Touch(body)

			wraps := len(p.Calls(body, adapterT+"."+name)) > 0
			leaks := ""

			for _, g := range append([]*ssa.Function{body}, AllClosures(body)...) {
				for _, in := range Find(g, func(ssa.Instruction) bool { return true }) {
					switch x := in.(type) {
					case *ssa.FieldAddr:
						if sn, fld := FieldOf(x.X, x.Field); sn == "StateAdapter" && (fld == "OwnedState" || fld == "Cache") {
							leaks = "touches StateAdapter." + fld
						}
					case ssa.CallInstruction:
						cn := p.CalleeName(x)
						if strings.HasPrefix(cn, "(*"+pkgOwned+".State)") || strings.HasPrefix(cn, "(pkg/state.") || strings.HasPrefix(cn, "(*pkg/state.") {
							leaks = "calls " + cn
						}

						if strings.HasPrefix(cn, adapterT+".") && cn != adapterT+"."+name {
							leaks = "calls a different StateAdapter method: " + cn
						}
					}
				}
			}

			c.Check(wraps && leaks == "", "R08.3", construct, fn.Pos(), "override wraps StateAdapter."+name+" only",
				fmt.Sprintf("override wraps=%v %s", wraps, leaks))
		}
	}

	// what user callbacks receive
	callbacks := []struct {
		rel, fn string
		globs   []string
		argIdx  int
	}{
		{pkgRRuntime, "runOnce", []string{"(pkg/controller.Controller).Run"}, 2},
		{pkgQRuntime, "runOnce", []string{"(pkg/controller.QController).Reconcile", "(pkg/controller.QController).MapInput"}, 3},
		{pkgQRuntime, "runWithBackoff", []string{"dyn:param#2", "dyn:free:param#2"}, 2},
	}

	for _, cb := range callbacks {
		f := p.Method(cb.rel, "Adapter", cb.fn)
		if !c.NeedFunc("R08.3", f, cb.rel+".Adapter."+cb.fn) {
			continue
		}

		n := 0

		for _, g := range append([]*ssa.Function{f}, AllClosures(f)...) {
			for _, call := range p.Calls(g, cb.globs...) {
				n++
				d := p.ArgDesc(call, cb.argIdx)
				c.Check(d == "param#0" || d == "free:param#0", "R08.3", FuncName(g)+" :: runtime handed to "+p.CalleeName(call), call.Pos(),
					"the adapter itself", "callback receives "+d+" instead of the adapter")
			}
		}

		if n == 0 {
			c.Unknown("R08.3", FuncName(f)+" :: user callback invocation", fpos(f), "anchor-unresolved: no invocation of "+strings.Join(cb.globs, "|"))
		}
	}

	// ---------- R08.4 field confinement
	c.Rule("R08.4", "E5", "StateAdapter.OwnedState only inside controllerstate (+constructors); Inputs/Outputs written only by constructors and UpdateInputs; UpdateInputs succeeds only after the access set was replaced", 5)

	accessOK := map[string]int{}

	for _, g := range p.AllOwnFuncs() {
		for _, in := range Find(g, func(in ssa.Instruction) bool { _, ok := in.(*ssa.FieldAddr); return ok }) {
			fa := in.(*ssa.FieldAddr)

			sn, fld := FieldOf(fa.X, fa.Field)
			if sn != "StateAdapter" {
				continue
			}

			if t, ok := fa.X.Type().Underlying().(*types.Pointer); !ok || !types.Identical(t.Elem(), stateAdapter) {
				continue
			}

			pkg := ""
			if g.Package() != nil {
				pkg = strings.TrimPrefix(g.Package().Pkg.Path(), Mod)
			}

			root := g
			for root.Parent() != nil {
				root = root.Parent()
			}

			isStore := false

			for _, r := range *fa.Referrers() {
				if st, ok := r.(*ssa.Store); ok && st.Addr == ssa.Value(fa) {
					isStore = true
				}
			}

			switch fld {
			case "OwnedState":
				ok := pkg == pkgCtrlState || (root.Name() == "NewAdapter" && isStore && (pkg == pkgRRuntime || pkg == pkgQRuntime))
				if !ok {
					c.Bad("R08.4", FuncName(g)+" :: access to StateAdapter.OwnedState", fa.Pos(), "the owned state must not be reachable outside controllerstate")
				} else {
					accessOK["OwnedState"]++
				}
			case "Inputs", "Outputs":
				if !isStore {
					continue
				}

				ok := root.Name() == "NewAdapter" || (root.Name() == "UpdateInputs" && fld == "Inputs" && pkg == pkgRRuntime)
				if !ok {
					c.Bad("R08.4", FuncName(g)+" :: write to StateAdapter."+fld, fa.Pos(), "declared access sets may only change through registration / UpdateInputs")
				} else {
					accessOK[fld]++
				}
			}
		}
	}

	for _, fld := range []string{"OwnedState", "Inputs", "Outputs"} {
		if accessOK[fld] > 0 {
			c.OK("R08.4", "StateAdapter."+fld+" access sites", stateAdapter.Obj().Pos(), fmt.Sprintf("%d allowed site(s), no other", accessOK[fld]))
		} else {
			c.Unknown("R08.4", "StateAdapter."+fld+" access sites", stateAdapter.Obj().Pos(), "anchor-unresolved: no access site found at all")
		}
	}

	// declared access set and dependency database change together: UpdateInputs succeeds only after adapter.Inputs := clone(deps)
	if ui := p.Method(pkgRRuntime, "Adapter", "UpdateInputs"); c.NeedFunc("R08.4", ui, pkgRRuntime+".Adapter.UpdateInputs") {
		setInputs := func(in ssa.Instruction) bool {
			return StoreToField("StateAdapter", "Inputs")(in) && Glob("call:slices.Clone(param#1)", p.Desc(in.(*ssa.Store).Val))
		}
		c.MustCut("R08.4", "return nil ⊣ {adapter.Inputs = slices.Clone(deps)}", ui, ReturnsNilConst(0), CutSpec{Nodes: setInputs}, 1)
		// ... and only after the merge loop over declared vs registered inputs ran to completion
		c.MustCut("R08.4", "adapter.Inputs updated ⊣ {registered inputs fetched}", ui, setInputs, CutSpec{Edges: FactEdge("nil(call:(*" + "pkg/controller/runtime/internal/dependency" + ".Database).GetControllerInputs(*)#1)")}, 1)
	}

	// ---------- R08.5 owner injection
	c.Rule("R08.5", "E3", "owned.State: every inner write carries an owner option derived only from st.owner / explicit no-owner / explicit owner; owned.New gets the controller name", 12)

	ownerOpt := map[string]string{
		"Create": "pkg/state.WithCreateOwner", "Update": "pkg/state.WithUpdateOwner", "ModifyWithResult": "pkg/state.WithUpdateOwner",
		"Teardown": "pkg/state.WithTeardownOwner", "Destroy": "pkg/state.WithDestroyOwner",
	}
	allowedLeaf := func(d string) bool {
		return d == "*param#0.owner" || d == `const:""` || Glob("**call:"+pkgOwned+".ToDeleteOptions(*).Owner", d) || Glob("*var:"+pkgOwned+".DeleteOptions.Owner", d) || Glob("**.Owner", d) && strings.Contains(d, "ToDeleteOptions")
	}

	for _, name := range []string{"Create", "Destroy", "ModifyWithResult", "Teardown", "Update"} {
		f := p.Method(pkgOwned, "State", name)
		if !c.NeedFunc("R08.5", f, pkgOwned+".State."+name) {
			continue
		}

		inner := p.CallTo("(pkg/state.CoreState)."+name, "(pkg/state.State)."+name, "(pkg/state.*)."+name)
		optCalls := p.Calls(f, ownerOpt[name])

		if len(optCalls) == 0 {
			c.Bad("R08.5", FuncName(f)+" :: owner option", fpos(f), "no call to "+ownerOpt[name])

			continue
		}

		for _, oc := range optCalls {
			leaves := p.Leaves(CallArgs(oc)[0])
			bad := ""

			for _, l := range leaves {
				if !allowedLeaf(l) {
					bad = l
				}
			}

			c.Check(bad == "", "R08.5", FuncName(f)+" :: owner value of "+ownerOpt[name], oc.Pos(), strings.Join(leaves, " | "), "owner derives from "+bad)
		}

		c.MustCut("R08.5", "inner "+name+" ⊣ {"+ownerOpt[name]+" built}", f, inner, CutSpec{Nodes: p.CallTo(ownerOpt[name])}, 1)

		// the option built must be what is passed: the variadic argument of the inner call contains a With*Owner result
		for _, ic := range Find(f, inner) {
			call := ic.(ssa.CallInstruction)
			args := CallArgs(call)
			last := args[len(args)-1]
			c.Check(p.sliceContainsCall(last, ownerOpt[name], 0), "R08.5", FuncName(f)+" :: options passed to inner "+name+" contain the owner option", call.Pos(),
				"yes", "the inner call's options do not derive from "+ownerOpt[name]+": "+p.Desc(last))
		}
	}

	for _, m := range p.Methods(pkgOwned, "State") {
		c.delegateOnce("R08.5", m, "(pkg/state.State)."+m.Name(), "(pkg/state.CoreState)."+m.Name())
	}

	for _, rel := range []string{pkgRRuntime, pkgQRuntime} {
		f := p.Func(rel, "NewAdapter")
		if !c.NeedFunc("R08.5", f, rel+".NewAdapter") {
			continue
		}

		calls := p.Calls(f, pkgOwned+".New")
		if len(calls) != 1 {
			c.Bad("R08.5", FuncName(f)+" :: owned.New", fpos(f), fmt.Sprintf("expected exactly one owned.New call, found %d", len(calls)))

			continue
		}

		d := p.ArgDesc(calls[0], 1)
		c.Check(Glob("call:(pkg/controller.*).Name(param#0)", d), "R08.5", FuncName(f)+" :: owned.New owner", calls[0].Pos(), d, "owner is "+d+", not the controller's Name()")
	}

	// ---------- R08.6 the store compares the stored owner
	c.Import(runC01, "R01.3", ".Update ::", "R08.6", "E1", "inmem Update: the owner test is made on the stored resource, under the lock, before the version test and before any effect", 3)

	// ---------- error discipline (E8)
	errDisciplineFor(c, "C08")

	// ---------- R08.8 no answer without asking the state
	c.Rule("R08.8", "E1", "StateAdapter mutating methods: a success return is reachable only after the owned state's operation was called", 8)
	delegateBeforeSuccess(c, "R08.8")

}

// sliceContainsCall reports whether slice value v (a variadic argument) certainly contains, on
// every incoming path, an element produced by a call to callee: literal varargs, append chains,
// phis of those.
func (p *Program) sliceContainsCall(v ssa.Value, callee string, depth int) bool {
	if depth > 8 {
		return false
	}

	v = Fwd(v)

	switch x := v.(type) {
	case *ssa.Phi:
		for _, e := range x.Edges {
			if !p.sliceContainsCall(e, callee, depth+1) {
				return false
			}
		}

		return len(x.Edges) > 0
	case *ssa.Call:
		if b, ok := x.Call.Value.(*ssa.Builtin); ok && b.Name() == "append" {
			if p.sliceContainsCall(x.Call.Args[0], callee, depth+1) {
				return true
			}

			if len(x.Call.Args) > 1 {
				return p.sliceContainsCall(x.Call.Args[1], callee, depth+1)
			}
		}

		return false
	case *ssa.Slice:
		elems, ok := VarargElems(x)
		if !ok {
			return false
		}

		for _, e := range elems {
			if c, _ := CallOf(e); c != nil && Glob(callee, p.CalleeName(c)) {
				return true
			}
		}
	}

	return false
}

// delegateBeforeSuccess: every mutating method of the controller state adapter reports success only
// after the corresponding operation of the owned state was called: no fast path answers for the state.
func delegateBeforeSuccess(c *Ctx, rule string) {
	p := c.P

	for _, name := range []string{"Create", "Update", "Modify", "ModifyWithResult", "Teardown", "Destroy", "AddFinalizer", "RemoveFinalizer"} {
		f := p.Method(pkgCtrlState, "StateAdapter", name)
		if !c.NeedFunc(rule, f, "StateAdapter."+name) {
			continue
		}

		n := f.Signature.Results().Len()
		c.MustCut(rule, "success ⊣ {owned-state operation called}", f, ReturnsNilConst(n-1), CutSpec{Nodes: p.CallTo("(*pkg/state/owned.State).*")}, 0)
	}
}
