package lint

import (
	"fmt"
	"strings"

	"golang.org/x/tools/go/ssa"
)

const (
	wrapT   = "(" + pkgState + ".coreWrapper)"
	gGet    = "(pkg/state.CoreState).Get"
	gUpdate = "(pkg/state.CoreState).Update"
	gCreate = "(pkg/state.CoreState).Create"
	gUWC    = wrapT + ".UpdateWithConflicts"

	dCurrent = "call:" + gGet + "(param#0.CoreState,param#1,param#2,nil)#0"
	dNewRes  = "call:(pkg/resource.Resource).DeepCopy(" + dCurrent + ")"
)

func init() {
	register(&PropertyInfo{
		ID: "C04",
		Explanation: "The optimistic read-modify-write helpers are decided by shape. R04.1: UpdateWithConflicts applies the mutator to DeepCopy() of the value it just read, submits exactly that object and returns it. " +
			"R04.2: the retry back-edge is taken only on a plain version conflict (IsConflictError ∧ ¬owner ∧ ¬phase) and every iteration re-reads before it writes. " +
			"R04.3: the expected-phase test precedes the mutator, the no-op exit and the write. R04.4: Modify creates only on NotFound (with the caller's owner), otherwise goes through UpdateWithConflicts with the caller's options, default phase Running. " +
			"R04.5: finalizer helpers go through UpdateWithConflicts with the owner read from the current value and any phase, mutating Finalizers() of the copy. " +
			"R04.6: no error return is reachable after a successful Update/Create, and errors of those calls are returned unchanged. " +
			"Together with the store's version guard (+1, C01 R01.3/R01.5) a retried mutation is applied exactly once on top of the then-current value.",
		NotCovered: "the statement 'as if executed one at a time' as a whole (it follows from R04.1/2 + the store's version token by the usual optimistic-concurrency argument, stated not mechanised); user mutator side effects.",
		Assumptions: []string{
			"the wrapped CoreState satisfies C01 (version guard, +1, failed => untouched)",
		},
		Run: runC04,
	})
}

func runC04(c *Ctx) {
	p := c.P
	f := p.Method(pkgState, "coreWrapper", "UpdateWithConflicts")

	// ---------- R04.1
	c.Rule("R04.1", "E3", "UpdateWithConflicts: mutate DeepCopy(current); Update receives that object; success returns that object", 4)

	if c.NeedFunc("R04.1", f, gUWC) {
		muts := p.Calls(f, "dyn:param#3")
		c.Check(len(muts) == 1 && Glob(dNewRes, p.ArgDesc(muts[0], 0)), "R04.1", FuncName(f)+" :: mutator applied to DeepCopy of the value just read", fpos(f), "f(current.DeepCopy())", "mutator argument: "+descOfFirst(p, muts, 0))

		ups := p.Calls(f, gUpdate)
		c.Check(len(ups) == 1 && Glob(dNewRes, p.ArgDesc(ups[0], 2)) && p.ArgDesc(ups[0], 3) == "param#4", "R04.1", FuncName(f)+" :: Update submits the mutated copy with the caller's options", fpos(f),
			"Update(ctx, newResource, opts...)", "Update arguments: "+descOfFirst(p, ups, 2)+" / "+descOfFirst(p, ups, 3))

		gets := p.Calls(f, gGet)
		c.Check(len(gets) == 1 && p.ArgDesc(gets[0], 2) == "param#2", "R04.1", FuncName(f)+" :: reads the target it was given", fpos(f), "Get(ctx, resourcePointer)", "Get target: "+descOfFirst(p, gets, 2))

		okRet := true
		n := 0

		// (evaluated per path by E1: results joined by a helper's return sites are resolved on the path taken,
		// so a combination that cannot occur — "retry" together with the final return — is not considered)
		wrong, wit := p.Reach(Entry(f), func(in ssa.Instruction) bool {
			r, ok := in.(*ssa.Return)

			return ok && ReturnsNilConst(1)(in) && !Glob(dNewRes, p.Desc(r.Results[0]))
		}, CutSpec{})
		okRet = !wrong

		if found, _ := p.Reach(Entry(f), func(in ssa.Instruction) bool {
			r, ok := in.(*ssa.Return)

			return ok && ReturnsNilConst(1)(in) && Glob(dNewRes, p.Desc(r.Results[0]))
		}, CutSpec{}); found {
			n = 1
		}

		_ = wit

		c.Check(okRet && n >= 1, "R04.1", FuncName(f)+" :: every success return yields the mutated copy", fpos(f), fmt.Sprintf("%d success returns", n), "a success return yields another object")
	}

	// ---------- R04.2
	c.Rule("R04.2", "E1", "retry only on plain version conflict; each iteration re-reads before writing", 5)

	upd := "call:" + gUpdate + "(*"
	afterUpdate := func() []Loc { return After(f, p.CallTo(gUpdate)) }

	if f != nil {
		for name, fact := range map[string]string{
			"IsConflictError":       "true(call:pkg/state.IsConflictError(" + upd,
			"not IsOwnerConflict":   "false(call:pkg/state.IsOwnerConflictError(" + upd,
			"not IsPhaseConflict":   "false(call:pkg/state.IsPhaseConflictError(" + upd,
			"Update returned error": "nonnil(" + upd,
		} {
			c.NoReach("R04.2", "retry (re-Get after Update) needs "+name, f, afterUpdate(), 1, p.CallTo(gGet), CutSpec{Edges: FactEdge(fact)})
		}

		c.NoReach("R04.2", "a second Update needs a fresh Get in between", f, afterUpdate(), 1, p.CallTo(gUpdate), CutSpec{Nodes: p.CallTo(gGet)})
		c.MustCut("R04.2", "Update ⊣ {Get err == nil}", f, p.CallTo(gUpdate), CutSpec{Edges: FactEdge("nil(call:" + gGet + "(*)#1)")}, 1)
	}

	// ---------- R04.3
	c.Rule("R04.3", "E1", "expected-phase guard (on the value just read) precedes mutator, no-op exit and write", 1)

	phaseOK := FactEdge("nil(*var:pkg/state.UpdateOptions.ExpectedPhase)",
		"eq(**var:pkg/state.UpdateOptions.ExpectedPhase,call:(pkg/resource.Metadata).Phase(*call:(pkg/resource.Resource).Metadata("+dCurrent+")))")
	c.MustCut("R04.3", "mutator / resource.Equal / Update ⊣ {ExpectedPhase==nil, phase(current)==*ExpectedPhase}", f,
		OrInstr(p.CallTo("dyn:param#3", "pkg/resource.Equal", gUpdate)), CutSpec{Edges: phaseOK}, 3)

	// options are the defaults overridden by the caller's opts
	if f != nil {
		ok := len(p.Calls(f, "pkg/state.DefaultUpdateOptions")) == 1 && len(p.Calls(f, "dyn:*index(param#4,*")) == 1
		c.Check(ok, "R04.3", FuncName(f)+" :: options = DefaultUpdateOptions() overridden by the caller's opts", fpos(f), "yes", "options are not built from DefaultUpdateOptions + opts")
	}

	// ---------- R04.4 Modify
	c.Rule("R04.4", "E1", "ModifyWithResult: Create only on NotFound with the caller's owner; otherwise UpdateWithConflicts with the caller's options; default phase Running", 6)

	m := p.Method(pkgState, "coreWrapper", "ModifyWithResult")
	if c.NeedFunc("R04.4", m, wrapT+".ModifyWithResult") {
		getErr := "call:" + gGet + "(*)#1"
		c.MustCut("R04.4", "Create ⊣ {IsNotFoundError(Get err)}", m, p.CallTo(gCreate), CutSpec{Edges: FactEdge("true(call:pkg/state.IsNotFoundError(" + getErr + "))")}, 1)
		c.MustCut("R04.4", "Create ⊣ {updateFunc(emptyResource) == nil}", m, p.CallTo(gCreate), CutSpec{Edges: FactEdge("nil(call:dyn:param#3(param#2))")}, 1)
		c.MustCut("R04.4", "UpdateWithConflicts ⊣ {Get err == nil}", m, p.CallTo(gUWC), CutSpec{Edges: FactEdge("nil(" + getErr + ")")}, 1)

		cr := p.Calls(m, gCreate)
		okC := len(cr) == 1 && p.ArgDesc(cr[0], 2) == "param#2"

		if okC {
			elems, lit := VarargElems(CallArgs(cr[0])[3])
			okC = lit && len(elems) == 1 && Glob("call:pkg/state.WithCreateOwner(*var:pkg/state.UpdateOptions.Owner)", p.Desc(elems[0]))
		}

		c.Check(okC, "R04.4", FuncName(m)+" :: Create(emptyResource, WithCreateOwner(opts.Owner))", fpos(m), "yes", "Create is not called with the caller's owner on the caller's object")

		uw := p.Calls(m, gUWC)
		okU := len(uw) == 1 && Glob("call:(pkg/resource.Resource).Metadata(param#2)", p.ArgDesc(uw[0], 2)) && p.ArgDesc(uw[0], 3) == "param#3"

		if okU {
			elems, lit := VarargElems(CallArgs(uw[0])[4])
			okU = lit && len(elems) == 1 && Glob("call:pkg/state.WithUpdateOptions(*var:pkg/state.UpdateOptions)", p.Desc(elems[0]))
		}

		c.Check(okU, "R04.4", FuncName(m)+" :: UpdateWithConflicts(emptyResource.Metadata(), updateFunc, WithUpdateOptions(opts))", fpos(m), "yes", "UpdateWithConflicts not called with the caller's target/mutator/options")

		// default expected phase
		okD := false

		for _, in := range Find(m, StoreToField("UpdateOptions", "ExpectedPhase")) {
			if Glob("call:github.com/siderolabs/go-pointer.To("+p.ConstVal(pkgResource, "PhaseRunning")+")", p.Desc(in.(*ssa.Store).Val)) {
				okD = true
			}
		}

		c.Check(okD, "R04.4", FuncName(m)+" :: default ExpectedPhase is Running", fpos(m), "yes", "default expected phase is not PhaseRunning")
	}

	// ---------- R04.5 finalizer helpers
	c.Rule("R04.5", "E3", "Add/RemoveFinalizer: UpdateWithConflicts on the same target with owner = current owner and any phase; the mutator changes Finalizers() of its argument", 6)

	for name, op := range map[string]string{"AddFinalizer": "(*pkg/resource.Finalizers).Add", "RemoveFinalizer": "(*pkg/resource.Finalizers).Remove"} {
		h := p.Method(pkgState, "coreWrapper", name)
		if !c.NeedFunc("R04.5", h, wrapT+"."+name) {
			continue
		}

		uw := p.Calls(h, gUWC)
		ok := len(uw) == 1 && p.ArgDesc(uw[0], 2) == "param#2"
		detail := ""

		if ok {
			elems, lit := VarargElems(CallArgs(uw[0])[4])
			seenOwner, seenAny := false, false

			for _, e := range elems {
				d := p.DescN(e, 7)
				if Glob("call:pkg/state.WithUpdateOwner(call:(pkg/resource.Metadata).Owner(*call:(pkg/resource.Resource).Metadata(call:"+gGet+"(param#0.CoreState,param#1,param#2,nil)#0)))", d) {
					seenOwner = true
				}

				if d == "call:pkg/state.WithExpectedPhaseAny()" {
					seenAny = true
				}
			}

			ok = lit && seenOwner && seenAny && len(elems) == 2
			detail = fmt.Sprintf("owner-from-current=%v any-phase=%v options=%d", seenOwner, seenAny, len(elems))
		}

		c.Check(ok, "R04.5", FuncName(h)+" :: UpdateWithConflicts(target, …, WithUpdateOwner(current owner), WithExpectedPhaseAny())", fpos(h), "yes", "helper options: "+detail)
		c.MustCut("R04.5", "UpdateWithConflicts ⊣ {Get err == nil}", h, p.CallTo(gUWC), CutSpec{Edges: FactEdge("nil(call:" + gGet + "(*)#1)")}, 1)

		mut := StaticOrClosureCallee2First(uw, 3)
		if c.NeedFunc("R04.5", mut, FuncName(h)+" mutator closure") {
			calls := p.Calls(mut, op)
			okM := len(calls) == 1 && Glob("call:(*pkg/resource.Metadata).Finalizers(call:(pkg/resource.Resource).Metadata(param#0))", p.ArgDesc(calls[0], 0))
			c.Check(okM, "R04.5", FuncName(mut)+" :: mutates Finalizers() of its own argument via "+op, fpos(mut), "yes", "mutator does not call "+op+" on its argument's finalizers")
		}

		// the helper's result is UpdateWithConflicts' error
		okR := true

		for _, in := range Find(h, IsReturn) {
			r := in.(*ssa.Return)
			if isNilConst(Fwd(r.Results[0])) {
				okR = false
			}
		}

		c.Check(okR, "R04.5", FuncName(h)+" :: never returns nil on its own", fpos(h), "returns Get's or UpdateWithConflicts' error value", "returns a constant nil")
	}

	c.Rule("R04.9", "E1", "owned.State and the typed helpers invoke their delegate at most once (a retry around Modify would re-apply the caller's mutator to the caller's object)", 8)

	for _, m := range p.Methods(pkgOwned, "State") {
		c.delegateOnce("R04.9", m, "(pkg/state.State)."+m.Name(), "(pkg/state.CoreState)."+m.Name())
	}

	for _, name := range []string{"StateUpdateWithConflicts", "StateModify", "StateModifyWithResult", "WriterModify", "WriterModifyWithResult"} {
		c.delegateOnce("R04.9", p.Func("pkg/safe", name), "(pkg/state.State).*", "(pkg/state/owned.Writer).*")
	}

	// ModifyWithResult applies the mutator to the caller's object in place before Create: it must run at most once per call
	if m := p.Method(pkgState, "coreWrapper", "ModifyWithResult"); m != nil {
		c.NoReach("R04.9", "updateFunc(emptyResource) runs at most once", m, After(m, p.CallTo("dyn:param#3")), 1, p.CallTo("dyn:param#3"), CutSpec{})
	}

	c.Rule("R04.8", "E5", "pkg/safe typed wrappers forward to the untyped helper 1:1 and apply the caller's function exactly once", 10)
	typedWrappers(c, "R04.8")

	// ---------- R04.6 error => no effect
	c.Rule("R04.6", "E1", "after a successful Update/Create no error return is reachable; their errors are returned unchanged", 3)

	if f != nil {
		c.NoReach("R04.6", "after Update()==nil only success returns", f, p.EdgeSuccs(f, "nil("+upd), 1, ReturnsNonNil(1), CutSpec{})

		okE := true

		for _, in := range Find(f, ReturnsNonNil(1)) {
			// (through joins left by helpers: every value the error can be)
			for _, l := range PhiLeaves(in.(*ssa.Return).Results[1]) {
				d := p.Desc(l)
				if !(Glob("call:"+gGet+"(*)#1", d) || Glob(upd, d) || Glob("call:pkg/state.errPhaseConflict(*", d) || p.IsDynType(l, "pkg/state.ePhaseConflict") || Glob("call:dyn:param#3(*", d)) {
					okE = false
				}
			}
		}

		c.Check(okE, "R04.6", FuncName(f)+" :: error returns are Get's, the phase conflict, the mutator's or Update's error, unchanged", fpos(f), "yes", "an error return yields something else")
	}

	if m != nil {
		c.NoReach("R04.6", "after Create()==nil only success return", m, p.EdgeSuccs(m, "nil(call:"+gCreate+"(*"), 1, ReturnsNonNil(1), CutSpec{})
		c.MustFollow("R04.6", "after Create returned an error it is what is returned", m, p.CallTo(gCreate), func(in ssa.Instruction) bool {
			r, ok := in.(*ssa.Return)
			if !ok || !IsReturn(in) {
				return false
			}

			return !isNilConst(Fwd(r.Results[1])) && !Glob("call:"+gCreate+"(*", p.Desc(r.Results[1]))
		}, CutSpec{}, 1)
	}

	// ---------- R04.10 finalizer sets are copy-on-write (same obligations as C19 R19.3 on resource.Finalizers): a
	// mutator applied to a private copy must not write through to the object another caller holds
	c.Import(runC19, "R19.3", "pkg/resource.Finalizers)", "R04.10", "E3", "Finalizers.Add/Remove write only to storage created in the same call: an attempt that is later rejected leaves no trace in shared metadata", 2)

	// ---------- error discipline (E8)
	errDisciplineFor(c, "C04")

	// ---------- R04.12 (shared with C15 R15.10)
	c.Rule("R04.12", "E5", "the controller-facing read-modify-write operations (Modify, Teardown, AddFinalizer, RemoveFinalizer …) read what they decide on from the live state, never from the lagging read cache: success means the mutation was applied to the then-current value", 10)
	liveStateRules(c, "R04.12")

	// ---------- R04.14 (shared with C03 R03.6)
	c.Rule("R04.14", "E3", "the Get+Update fallback of Teardown is one read-modify-write: marked through UpdateWithConflicts with the owner option, and the ready flag is Finalizers().Empty() of the value the committed update returned — never of the first Get, which a concurrent AddFinalizer may have overtaken (ready=true with a pending finalizer is explained by no serial order)", 5)
	teardownRule(c, "R04.14")

	// ---------- R04.13 (shared with C08 R08.8)
	c.Rule("R04.13", "E1", "controller-facing RMW operations report success only after the owned state's operation ran: there is no fast path that answers for the state", 8)
	delegateBeforeSuccess(c, "R04.13")

}

// typedWrappers (R04.8): the generic helpers in pkg/safe make exactly one call to the untyped
// method, forward ctx/target/options unchanged, and their closure applies the caller's function
// once to its own (type-asserted) argument and returns that function's error.
func typedWrappers(c *Ctx, rule string) {
	p := c.P

	for _, spec := range []struct{ fn, callee string }{
		{"StateUpdateWithConflicts", "(pkg/state.State).UpdateWithConflicts"},
		{"StateModify", "(pkg/state.State).Modify"},
		{"StateModifyWithResult", "(pkg/state.State).ModifyWithResult"},
		{"WriterModify", "(pkg/state/owned.Writer).Modify"},
		{"WriterModifyWithResult", "(pkg/state/owned.Writer).ModifyWithResult"},
	} {
		f := p.Func("pkg/safe", spec.fn)
		if !c.NeedFunc(rule, f, "pkg/safe."+spec.fn) {
			continue
		}

		calls := p.Calls(f, spec.callee)
		ok := len(calls) == 1
		detail := fmt.Sprintf("%d calls to %s", len(calls), spec.callee)

		if ok {
			a := CallArgs(calls[0])
			ok = p.Desc(a[0]) == "param#1" && p.Desc(a[1]) == "param#0" && p.Desc(a[2]) == "param#2" && p.Desc(a[4]) == "param#4"
			detail = fmt.Sprintf("receiver=%s ctx=%s target=%s options=%s", p.Desc(a[0]), p.Desc(a[1]), p.Desc(a[2]), p.Desc(a[4]))
		}

		c.Check(ok, rule, "pkg/safe."+spec.fn+" :: one untyped call, ctx/target/options forwarded", fpos(f), detail, detail)

		if !ok {
			continue
		}

		cl := StaticOrClosureCallee2(calls[0], 3)
		if !c.NeedFunc(rule, cl, "pkg/safe."+spec.fn+" closure") {
			continue
		}

		inner := p.Calls(cl, "dyn:free:param#3")
		okI := len(inner) == 1 && Glob("assert[T](param#0)#0", p.ArgDesc(inner[0], 0))

		if okI {
			c.MustCut(rule, "fn(arg) ⊣ {type assertion ok}", cl, p.CallTo("dyn:free:param#3"), CutSpec{Edges: FactEdge("true(assert[T](param#0)#1)")}, 1)

			for _, in := range Find(cl, IsReturn) {
				d := p.Desc(in.(*ssa.Return).Results[0])
				if !(Glob("call:dyn:free:param#3(*", d) || Glob("call:fmt.Errorf(*", d) || Glob("call:pkg/safe.typeMismatchErr(*", d)) {
					okI = false
				}
			}
		}

		c.Check(okI, rule, "pkg/safe."+spec.fn+" closure :: applies fn once to its own argument and returns fn's error", fpos(cl), "yes", "closure does not apply fn exactly once to its argument / swallows its error")
	}
}

func descOfFirst(p *Program, calls []ssa.CallInstruction, idx int) string {
	if len(calls) == 0 {
		return "<no call>"
	}

	return fmt.Sprintf("%s (of %d calls)", p.ArgDesc(calls[0], idx), len(calls))
}

// StaticOrClosureCallee2First resolves argument argIdx of the first call to a closure.
func StaticOrClosureCallee2First(calls []ssa.CallInstruction, argIdx int) *ssa.Function {
	if len(calls) == 0 {
		return nil
	}

	return StaticOrClosureCallee2(calls[0], argIdx)
}

var _ = strings.Contains
