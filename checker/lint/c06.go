package lint

import (
	"fmt"
	"strings"

	"golang.org/x/tools/go/ssa"
)

func init() {
	register(&PropertyInfo{
		ID: "C06",
		Explanation: "Convergence is NOT decided. Decided necessary structure of the transform controllers: R06.1 the declared inputs/outputs wire the feedback loops the algorithm relies on (a destroy-ready input on the output kind, strong/weak primary by option; QPrimary + QMappedDestroyReady for the queue flavour; the output type is declared); " +
			"R06.2 a destroy-ready output event is mapped back to its input through the unmap function; R06.3 an output is marked as touched before it is written, and a pending finalizer removal also keeps the output; " +
			"R06.4 cleanup tears down every owned output that is untouched or already tearing down (the only skips are: not owned, or running ∧ touched); R06.5 finalizer release is decoupled from output destruction in the same cycle: every input scheduled in removeInputFinalizers is released by the trailing loop unless an output iteration withdrew it (so an input whose output is already gone still gets released); " +
			"R06.6 errors of runtime calls are never dropped and the 'conflict, skip' exits are scoped to the primary output's namespace and type; R06.7 an accumulated error is returned (⇒ restart with backoff and a fresh reconcile, C16) and the backoff is reset only on a clean cycle.",
		NotCovered:  "that the outputs at quiescence are exactly the images of the running inputs (convergence over all histories and timings); user transform functions.",
		Assumptions: []string{"the runtime re-triggers the controller on every input/destroy-ready change (C05) and restarts it after an error (C16)"},
		Run:         runC06,
	})
}

func runC06(c *Ctx) {
	p := c.P

	kind := func(n string) string { return p.ConstVal("pkg/controller", n) }

	// ---------- R06.1 declared inputs
	c.Rule("R06.1", "E4", "declared inputs/outputs of transform and qtransform", 5)

	if f := p.Method(pkgTransform, "Controller", "Inputs"); c.NeedFunc("R06.1", f, "transform.Inputs") {
		var kinds []string

		for _, in := range Find(f, StoreToField("Input", "Kind")) {
			kinds = append(kinds, p.Desc(in.(*ssa.Store).Val))
		}

		sortStrings(kinds)
		want := []string{kind("InputDestroyReady"), "phi(" + kind("InputWeak") + "|" + kind("InputStrong") + ")"}
		alt := []string{kind("InputDestroyReady"), "phi(" + kind("InputStrong") + "|" + kind("InputWeak") + ")"}
		c.Check(strings.Join(kinds, ",") == strings.Join(want, ",") || strings.Join(kinds, ",") == strings.Join(alt, ","), "R06.1", "transform.Inputs: primary {Weak|Strong} + DestroyReady on the output kind", fpos(f), strings.Join(kinds, ","), "declared kinds: "+strings.Join(kinds, ","))
		// the watch on the outputs is left out only when the output kind IS the input kind (same type and same namespace)
		drStore := func(in ssa.Instruction) bool {
			st, ok := in.(*ssa.Store)

			return ok && StoreToField("Input", "Kind")(in) && p.Desc(st.Val) == kind("InputDestroyReady")
		}
		c.MustCut("R06.1", "no DestroyReady input on the outputs ⊣ {output type == input type}", f, IsReturn, CutSpec{Nodes: drStore, Edges: FactEdge("eq(*.Type,*.Type)")}, 1)
		c.MustCut("R06.1", "no DestroyReady input on the outputs ⊣ {output namespace == input namespace}", f, IsReturn, CutSpec{Nodes: drStore, Edges: FactEdge("eq(*.DefaultNamespace,*.DefaultNamespace)")}, 1)
		// the strong/weak choice follows the option
		okOpt := len(p.EdgeSuccs(f, "true(*param#0.options.inputFinalizers)")) == 1
		c.Check(okOpt, "R06.1", "transform.Inputs: Strong iff input finalizers are enabled", fpos(f), "yes", "primary input kind does not depend on the inputFinalizers option")
	}

	if f := p.Method(pkgTransform, "Controller", "Outputs"); c.NeedFunc("R06.1", f, "transform.Outputs") {
		n := len(Find(f, StoreToField("Output", "Type")))
		c.Check(n == 1, "R06.1", "transform.Outputs declares the output type", fpos(f), "yes", "output type not declared")
	}

	if f := p.Method(pkgQTransform, "QController", "Settings"); c.NeedFunc("R06.1", f, "qtransform.Settings") {
		var kinds []string

		for _, in := range Find(f, StoreToField("Input", "Kind")) {
			kinds = append(kinds, p.Desc(in.(*ssa.Store).Val))
		}

		sortStrings(kinds)
		c.Check(strings.Join(kinds, ",") == kind("InputQPrimary")+","+kind("InputQMappedDestroyReady"), "R06.1", "qtransform.Settings: QPrimary on the input kind + QMappedDestroyReady on the output kind", fpos(f), strings.Join(kinds, ","), "declared kinds: "+strings.Join(kinds, ","))
		c.Check(len(Find(f, StoreToField("Output", "Type"))) == 1, "R06.1", "qtransform.Settings declares the output type", fpos(f), "yes", "output type not declared")
	}

	// ---------- R06.2 output → input mapping
	c.Rule("R06.2", "E3", "qtransform.MapInput maps a destroy-ready output back to unmapFunc(output).Metadata()", 1)

	if f := p.Method(pkgQTransform, "QController", "MapInput"); c.NeedFunc("R06.2", f, "qtransform.MapInput") {
		ok := false

		for _, in := range Find(f, func(in ssa.Instruction) bool { _, isSt := in.(*ssa.Store); return isSt }) {
			d := p.DescN(in.(*ssa.Store).Val, 6)
			if strings.Contains(d, "Metadata(call:dyn:*param#0.unmapFunc(call:pkg/safe.ReaderGet") {
				ok = true
			}
		}

		c.Check(ok, "R06.2", FuncName(f)+" :: returns the metadata of unmapFunc(<the output that was read>)", fpos(f), "yes", "output is not mapped back through unmapFunc")
		c.MustCut("R06.2", "unmap ⊣ {event is of the output type}", f, p.CallTo("dyn:*param#0.unmapFunc"), CutSpec{Edges: FactEdge("eq(call:(pkg/resource.*).Type(param#4),*)")}, 1)
	}

	// ---------- R06.3 touched bookkeeping
	c.Rule("R06.3", "E1", "processInputs marks the output as touched before writing it; a pending finalizer removal keeps the output", 2)

	if f := p.Method(pkgTransform, "Controller", "processInputs"); c.NeedFunc("R06.3", f, "transform.processInputs") {
		body := f
		if len(Find(f, p.CallTo(gWriterModify))) == 0 {
			body = ClosureWith(f, p.CallTo(gWriterModify))
		}

		c.MustCut("R06.3", "WriterModify ⊣ {touchedOutputIDs[id] set}", body, p.CallTo(gWriterModify), CutSpec{Nodes: MapWriteOnField("runState", "touchedOutputIDs")}, 1)
	}

	if f := p.Method(pkgTransform, "Controller", "reconcileTearingDownInput"); c.NeedFunc("R06.3", f, "transform.reconcileTearingDownInput") {
		c.NoReach("R06.3", "failed removal callback ⇒ the output is kept (touched)", f, p.EdgeSuccs(f, "nonnil(call:dyn:*param#0.finalizerRemovalFunc(*"), 1, IsReturn, CutSpec{Nodes: MapWriteOnField("runState", "touchedOutputIDs")})
	}

	// ---------- R06.4 cleanup reach / R06.5 finalizer release
	c.Rule("R06.4", "E1", "cleanupOutputs: an owned output escapes Teardown only if it is running and touched", 1)
	c.Rule("R06.5", "E1", "removeInputFinalizers entries are released by the trailing loop unless withdrawn by an output iteration", 2)

	if f := p.Method(pkgTransform, "Controller", "cleanupOutputs"); c.NeedFunc("R06.4", f, "transform.cleanupOutputs") {
		body := f
		if len(Find(f, p.CallTo(gTeardown))) == 0 {
			body = ClosureWith(f, p.CallTo(gTeardown))
		}

		if c.NeedFunc("R06.4", body, "cleanupOutputs loop body") {
			td := p.ConstVal(pkgResource, "PhaseTearingDown")
			c.MustCut("R06.4", "iteration ends without Teardown ⊣ {not owned, touched}", body, IsReturn, CutSpec{Nodes: p.CallTo(gTeardown),
				Edges: FactEdge("ne(call:(pkg/resource.Metadata).Owner(*),call:(*pkg/controller/generic.NamedController).Name(*))", "true(lookup(*.touchedOutputIDs,*)#1)")}, 1)
			// ... and running: the same escape needs the phase != TearingDown edge as well (in either order)
			c.MustCut("R06.4", "touched lookup ⊣ {phase != TearingDown}", body, IsReturn, CutSpec{Nodes: p.CallTo(gTeardown),
				Edges: FactEdge("ne(call:(pkg/resource.Metadata).Owner(*),call:(*pkg/controller/generic.NamedController).Name(*))", "ne(call:(pkg/resource.Metadata).Phase(*),"+td+")")}, 1)
		}

		// trailing loop
		rf := p.Calls(f, gRemoveFinalizer)
		okLoop := len(rf) == 1

		if okLoop {
			d := p.ArgDesc(rf[0], 2)
			okLoop = strings.Contains(d, "range(*") && strings.Contains(d, ".removeInputFinalizers")
		}

		c.Check(okLoop, "R06.5", FuncName(f)+" :: RemoveFinalizer runs for every entry left in removeInputFinalizers, after the output loop", fpos(f), "trailing range loop",
			"finalizer release is tied to an output iteration: an input whose output is already gone (or never existed) keeps the finalizer forever")

		for _, g := range AllClosures(f) {
			if n := len(p.Calls(g, gRemoveFinalizer)); n > 0 {
				c.Bad("R06.5", FuncName(g)+" :: no finalizer release inside the output iteration", fpos(g), "RemoveFinalizer inside the per-output loop only runs when an output is processed in this cycle")
			}
		}

		c.MustCut("R06.5", "return ⊣ {removeInputFinalizers ranged}", f, ReturnsNilConst(0), CutSpec{Nodes: func(in ssa.Instruction) bool {
			r, ok := in.(*ssa.Range)

			return ok && LoadsField(r.X, "runState", "removeInputFinalizers")
		}, Edges: FactEdge("nonnil(call:pkg/safe.ReaderList*")}, 1)
	}

	// ---------- R06.6 error discipline
	c.Rule("R06.6", "E3", "runtime-call errors are never dropped; conflict-skip exits are scoped to the primary output", 12)

	apiCalls := []string{gDestroy, gTeardown, gAddFinalizer, gRemoveFinalizer, gWriterModify, "pkg/safe.ReaderList*", "pkg/safe.ReaderGet*", "(pkg/state/owned.Reader).Get", "(pkg/state/owned.Reader).List"}

	for _, spec := range []struct{ rel, recv string }{{pkgTransform, "Controller"}, {pkgQTransform, "QController"}, {pkgCleanup, "Controller"}, {pkgDestroy, "Controller"}} {
		for _, m := range p.Methods(spec.rel, spec.recv) {
			for _, g := range append([]*ssa.Function{m}, AllClosures(m)...) {
				for _, call := range p.Calls(g, apiCalls...) {
					v := call.Value()
					if v == nil {
						continue
					}

					n := call.Common().Signature().Results().Len()

					var errVal ssa.Value = v

					if n > 1 {
						errVal = nil

						for _, r := range *v.Referrers() {
							if ex, ok := r.(*ssa.Extract); ok && ex.Index == n-1 {
								errVal = ex
							}
						}
					}

					c.Touch(g)
					c.Check(errVal != nil && len(*errVal.Referrers()) > 0, "R06.6", FuncName(g)+" :: error of "+p.CalleeName(call)+" is used", call.Pos(), "used", "error dropped: a failed write/read is silently ignored and the controller believes it converged")
				}
			}
		}
	}

	scoped := func(f *ssa.Function, what string) {
		if !c.NeedFunc("R06.6", f, what) {
			return
		}

		calls := p.Calls(f, "pkg/state.IsConflictError")
		ok := len(calls) == 1

		if ok {
			elems, lit := VarargElems(CallArgs(calls[0])[1])
			ns, ty := false, false

			for _, e := range elems {
				d := p.DescN(e, 7)
				if strings.HasPrefix(d, "call:pkg/state.WithResourceNamespace(call:(pkg/resource.Metadata).Namespace(") {
					ns = true
				}

				if strings.HasPrefix(d, "call:pkg/state.WithResourceType(call:(pkg/resource.Metadata).Type(") {
					ty = true
				}
			}

			a0 := p.ArgDesc(calls[0], 0)
			ok = lit && ns && ty && (Glob("call:"+gWriterModify[:len(gWriterModify)-1]+"*", a0) || p.MayHoldCall(CallArgs(calls[0])[0], gWriterModify))
		}

		c.Check(ok, "R06.6", FuncName(f)+" :: 'conflict, skip' is IsConflictError(Modify err, WithResourceNamespace(out), WithResourceType(out))", fpos(f), "scoped to the primary output",
			"the skip is not scoped to the primary output: a conflict raised inside the user's transform (another resource) is swallowed and nothing retries")

		for _, other := range p.Calls(f, "pkg/state.IsPhaseConflictError", "pkg/state.IsOwnerConflictError") {
			c.Bad("R06.6", FuncName(f)+" :: unscoped conflict predicate "+p.CalleeName(other), other.Pos(), "matches conflicts of any resource touched by the transform function")
		}
	}

	if f := p.Method(pkgQTransform, "QController", "reconcileRunning"); f != nil {
		scoped(f, "qtransform.reconcileRunning")
	}

	if f := p.Method(pkgTransform, "Controller", "processInputs"); f != nil {
		body := f
		if len(p.Calls(f, "pkg/state.IsConflictError")) == 0 {
			body = ClosureWith(f, p.CallTo("pkg/state.IsConflictError"))
		}

		scoped(body, "transform.processInputs loop body")
	}

	// ---------- R06.7 retry on failure
	c.Rule("R06.7", "E1", "transform.Run returns the accumulated error; ResetRestartBackoff only on a clean cycle", 2)

	if f := p.Method(pkgTransform, "Controller", "Run"); c.NeedFunc("R06.7", f, "transform.Run") {
		reset := p.CallTo("(pkg/controller.Runtime).ResetRestartBackoff")
		c.MustCut("R06.7", "ResetRestartBackoff ⊣ {multiErr.ErrorOrNil() == nil}", f, reset, CutSpec{Edges: FactEdge("nil(call:(*github.com/hashicorp/go-multierror.Error).ErrorOrNil(*")}, 1)
		c.MustCut("R06.7", "ResetRestartBackoff ⊣ {processInputs ok, cleanupOutputs ok}", f, reset, CutSpec{Edges: FactEdge("nil(call:(*" + pkgTransform + ".Controller[*]).cleanupOutputs(*")}, 1)
		c.MustFollow("R06.7", "accumulated error ⇒ returned", f, p.CallTo("(*github.com/hashicorp/go-multierror.Error).ErrorOrNil"), OrInstr(reset, func(in ssa.Instruction) bool { _, ok := in.(*ssa.Select); return ok }),
			CutSpec{Edges: FactEdge("nil(call:(*github.com/hashicorp/go-multierror.Error).ErrorOrNil(*")}, 1)
	}

	if f := p.Method(pkgCleanup, "Controller", "Run"); c.NeedFunc("R06.7", f, "cleanup.Run") {
		c.MustCut("R06.7", "cleanup: ResetRestartBackoff ⊣ {no error accumulated}", f, p.CallTo("(pkg/controller.Runtime).ResetRestartBackoff"), CutSpec{Edges: FactEdge("nil(*var:error)", "nil(*var:error#*)", "nil(phi(*")}, 1)
	}

	_ = fmt.Sprint

	// ---------- R06.8 no output without the finalizer on its input (same obligations as C07 R07.3): otherwise the
	// input can be destroyed while the output exists, and nothing ever tears the output down
	c.Import(runC07, "R07.3", "", "R06.8", "E1", "qtransform.reconcileRunning: the output is modified only after the controller finalizer is on the input", 2)

	// ---------- R06.9 only a cancelled context is not a failure
	c.Rule("R06.9", "E1", "the controller adapters turn an error into success only for context.Canceled: any other error of a reconcile (a transient timeout included) is reported, so that it is retried / the controller restarted", 3)

	for _, rel := range []string{pkgRRuntime, pkgQRuntime} {
		for _, f := range p.PkgFuncs(rel) {
			clear := func(in ssa.Instruction) bool {
				st, ok := in.(*ssa.Store)
				if !ok || !isNilConst(st.Val) {
					return false
				}

				d := p.Desc(st.Addr)

				return Glob("free:var:error*", d)
			}

			if len(Find(f, clear)) == 0 {
				continue
			}

			c.MustCut("R06.9", "err = nil ⊣ {errors.Is(err, context.Canceled)}", f, clear, CutSpec{Edges: FactEdge("true(call:errors.Is(*,*global:context.Canceled))")}, 1)
		}
	}

	// ---------- R06.12 a torn-down input whose output is gone is released
	c.Rule("R06.12", "E1", "qtransform.reconcileTearingDown: once the mapped output is known to be absent (Teardown answered NotFound) or was destroyed, the reconcile does not end without RemoveFinalizer on the input — a nil return there is a successful reconcile nothing re-queues, and the input keeps the controller finalizer forever", 2)

	if f := p.Method(pkgQTransform, "QController", "reconcileTearingDown"); c.NeedFunc("R06.12", f, "qtransform.reconcileTearingDown") {
		rf := p.CallTo(gRemoveFinalizer)
		c.NoReach("R06.12", "output NotFound on Teardown → RemoveFinalizer(input) before the reconcile ends", f,
			p.EdgeSuccs(f, "true(call:"+gIsNotFound+"(call:"+gTeardown+"(*"), 1, IsReturn, CutSpec{Nodes: rf})
		c.NoReach("R06.12", "Destroy(output)==nil → RemoveFinalizer(input) before the reconcile ends", f,
			p.EdgeSuccs(f, factNil(gDestroy)), 1, IsReturn, CutSpec{Nodes: rf})
	}

	// ---------- error discipline (E8)
	errDisciplineFor(c, "C06")

	// ---------- R06.11 (shared with C15 R15.10)
	c.Rule("R06.11", "E5", "transform controllers write through the live state: the existence check of Modify and the phase checks of Teardown are not answered by the read cache (a stale NotFound turns into a create conflict that is skipped and never retried)", 10)
	liveStateRules(c, "R06.11")

}
