package lint

// Error-discipline tables (engine E8, see errdisc.go). One entry per property: the packages the rule
// ranges over and the census of allowed swallow sites in them, each confirmed by reading the pinned
// tree. Everything not listed has to propagate, retry or hand over its error.

const (
	clsNotFound = "true(call:pkg/state.IsNotFoundError($E*"
	clsConflict = "true(call:pkg/state.IsConflictError($E*"
	clsCanceled = "true(call:errors.Is($E,*global:context.Canceled))"
	clsEOF      = "true(call:errors.Is($E,*global:io.EOF))"
	clsTag      = "true(call:github.com/siderolabs/gen/xerrors.TagIs($E*"
)

type errTable struct {
	Rule string
	Doc  string
	Pkgs []string
	Rows []ErrRow
}

var errTables = map[string]errTable{
	"C01": {
		Rule: "R01.12",
		Doc:  "store implementations (inmem, namespaced, registry): no operation reports success after one of its steps failed — every error result is returned (or retried); there is no error class these packages may turn into success",
		Pkgs: []string{pkgInmem, "pkg/state/impl/namespaced", "pkg/state/registry"},
	},
	"C04": {
		Rule: "R04.11",
		Doc:  "pkg/state helpers: an error of the underlying state becomes success only as NotFound of the initial Get (the create arm of Modify) or as a version conflict of Update (the retry arm of UpdateWithConflicts)",
		Pkgs: []string{"pkg/state"},
		Rows: []ErrRow{
			{Pkg: "pkg/state", Callee: "(pkg/state.CoreState).Get", Allow: []string{clsNotFound}, Why: "Modify creates the resource when it does not exist yet"},
			{Pkg: "pkg/state", Callee: "(pkg/state.CoreState).Update", Allow: []string{clsConflict}, Why: "UpdateWithConflicts re-reads and retries on a version conflict"},
		},
	},
	"C06": {
		Rule: "R06.10",
		Doc:  "transform controllers: a failed state operation fails the reconcile (so it is retried) except for NotFound of something that is being cleaned up anyway, the pending-output-teardown sentinel and the phase conflict of a tearing-down output",
		Pkgs: []string{"pkg/controller/generic/qtransform", "pkg/controller/generic/transform", "pkg/controller/generic"},
		Rows: []ErrRow{
			{Pkg: "pkg/controller/generic/qtransform", Callee: "pkg/safe.ReaderGet", Allow: []string{clsNotFound}, Why: "the input is gone: nothing to reconcile / map"},
			{Pkg: "pkg/controller/generic/qtransform", Callee: "(pkg/state/owned.Reader).Get", Allow: []string{clsNotFound}, Why: "no output yet"},
			{Pkg: "pkg/controller/generic/qtransform", Callee: "(pkg/state/owned.Writer).Teardown", Allow: []string{clsNotFound}, Why: "output already gone"},
			{Pkg: "pkg/controller/generic/qtransform", Callee: "(pkg/state/owned.Writer).Destroy", Allow: []string{clsNotFound}, Why: "output already gone"},
			{Pkg: "pkg/controller/generic/qtransform", Callee: "(*pkg/controller/generic/qtransform.QController[*]).handleOutputTearingDown", Allow: []string{"true(call:errors.Is($E,*global:pkg/controller/generic/qtransform.errPendingOutputTeardown))"}, Why: "the output is still being torn down by its finalizer holders; the watch on outputs re-triggers the reconcile"},
			{Pkg: "pkg/controller/generic/qtransform", Callee: "pkg/safe.WriterModify", Allow: []string{clsConflict}, Why: "conflict due to the output's phase: skipped, the output event re-triggers"},
		},
	},
	"C07": {
		Rule: "R07.11",
		Doc:  "finalizer bookkeeping (cleanup, destroy controllers, controller state adapter): the only errors turned into success are NotFound of a resource that is to disappear anyway (destroy.Reconcile's Get, StateAdapter.RemoveFinalizer) and a Skip-tagged removal callback — in particular AddFinalizer, Teardown and Destroy errors always reach the controller",
		Pkgs: []string{"pkg/controller/generic/cleanup", "pkg/controller/generic/destroy", pkgCtrlState},
		Rows: []ErrRow{
			{Pkg: "pkg/controller/generic/cleanup", Callee: "(pkg/controller/generic/cleanup.Handler[*]).FinalizerRemoval", Allow: []string{clsTag}, Why: "SkipReconcileTag: the handler asks to leave the finalizer for now"},
			{Pkg: "pkg/controller/generic/destroy", Callee: "(pkg/state/owned.Reader).Get", Allow: []string{clsNotFound}, Why: "already destroyed"},
			{Pkg: pkgCtrlState, Callee: "(*pkg/state/owned.State).RemoveFinalizer", Allow: []string{clsNotFound}, Why: "resource already gone: nothing holds the finalizer"},
		},
	},
	"C08": {
		Rule: "R08.7",
		Doc:  "owned state wrapper: every error of the wrapped state (owner conflicts included) reaches the controller",
		Pkgs: []string{"pkg/state/owned"},
	},
	"C10": {
		Rule: "R10.7",
		Doc:  "backing stores: no store or marshaler error is turned into success — an acknowledged write was persisted",
		Pkgs: []string{pkgStore, "pkg/state/impl/store/bolt"},
	},
	"C11": {
		Rule: "R11.11",
		Doc:  "gRPC server and client: an error of the wrapped state / of the transport becomes success only as io.EOF ending a List stream and as a watch stream failure followed by a successful re-Watch",
		Pkgs: []string{pkgServer, pkgClient},
		Rows: []ErrRow{
			{Pkg: pkgClient, Callee: "(google.golang.org/grpc.ServerStreamingClient[api/v1alpha1.ListResponse]).Recv", Allow: []string{clsEOF}, Why: "end of the list stream"},
			{Pkg: pkgClient, Callee: "(google.golang.org/grpc.ServerStreamingClient[api/v1alpha1.WatchResponse]).Recv", Allow: []string{"nil(call:(api/v1alpha1.StateClient).Watch(*)#1)"}, Why: "watch retry: a failed Recv is followed by a re-established stream (C13 rules decide when that is allowed)"},
		},
	},
	"C15": {
		Rule: "R15.8",
		Doc:  "runtime cache: no error of the underlying state or of the cache bookkeeping is turned into success",
		Pkgs: []string{pkgCache},
	},
	"C16": {
		Rule: "R16.9",
		Doc:  "controller runtime and adapters fail loudly: an error becomes success only as context.Canceled of the initial listing at shutdown; the errgroup results dropped after cancel are the only ignored error values",
		Pkgs: []string{"pkg/controller/runtime", pkgQRuntime, pkgRRuntime, "pkg/controller/runtime/internal/adapter", "pkg/task"},
		Rows: []ErrRow{
			{Pkg: "pkg/controller/runtime", Callee: "(*golang.org/x/sync/errgroup.Group).Wait", Allow: []string{"dropped"}, Why: "after runCtxCancel; the watch error is what Run returns"},
			{Pkg: pkgQRuntime, Callee: "(*golang.org/x/sync/errgroup.Group).Wait", Allow: []string{"dropped"}, Why: "the group's functions only return nil / ctx errors at shutdown"},
			{Pkg: pkgQRuntime, Callee: "(*pkg/controller/runtime/internal/qruntime.Adapter).listPrimary", Allow: []string{clsCanceled}, Why: "shutdown while listing"},
			{Pkg: pkgQRuntime, Callee: "(*pkg/controller/runtime/internal/controllerstate.StateAdapter).List", Allow: []string{"eq(select#0,const:0)"}, Why: "listPrimary retries with backoff until the context is done"},
		},
	},
	"C17": {
		Rule: "R17.10",
		Doc:  "dependency database: every error of the underlying database operation reaches the registration code",
		Pkgs: []string{"pkg/controller/runtime/internal/dependency"},
	},
	"C18": {
		Rule: "R18.13",
		Doc:  "codecs: a decoder or encoder error is never turned into success, except the unregistered-type fallback of protobuf.UnmarshalResource (the generic resource is returned instead)",
		Pkgs: []string{pkgResource, pkgResProto, pkgCompression, pkgEncryption, "pkg/resource/internal/kv", "pkg/resource/meta", "pkg/resource/meta/spec", "pkg/resource/typed"},
		Rows: []ErrRow{
			{Pkg: pkgResProto, Callee: "pkg/resource/protobuf.CreateResource", Allow: []string{"nonnil($E)"}, Why: "type not registered: fall back to the dynamic decoder or hand out the generic resource"},
		},
	},
	"C20": {
		Rule: "R20.6",
		Doc:  "key storage: no crypto, encoding or verification error is turned into success; the only ignored error value is hash.Hash.Write (documented to never fail)",
		Pkgs: []string{pkgKS},
		Rows: []ErrRow{
			{Pkg: pkgKS, Callee: "(io.Writer).Write", Allow: []string{"dropped"}, Why: "hash.Hash.Write never returns an error"},
		},
	},
}

// errDisciplineFor states the error-discipline rule of property id.
func errDisciplineFor(c *Ctx, id string) {
	t, ok := errTables[id]
	if !ok {
		return
	}

	c.Rule(t.Rule, "E8", t.Doc, len(t.Pkgs)+len(t.Rows))
	c.ErrDiscipline(t.Rule, t.Pkgs, t.Rows)
}
