package lint

import (
	"fmt"
	"go/token"
	"go/types"
	"strings"

	"golang.org/x/tools/go/ssa"
)

const (
	pkgTask  = "pkg/task"
	pkgQueue = "pkg/controller/runtime/internal/qruntime/internal/queue"
)

func init() {
	register(&PropertyInfo{
		ID: "C16",
		Explanation: "R16.1: every invocation of user code (Controller.Run, QController.Reconcile/MapInput, RunHook, Spec.RunTask) happens in a function that, before the call on every path, registered a deferred function which ITSELF calls recover() (Go only recovers when recover is called directly by the deferred function) and converts the panic into the function's error result. " +
			"R16.2: restart loops — the loop is left only when the callback returned nil or the context is done; after an error a backoff interval is taken, the wait is cancellable, and (rruntime) a reconcile is re-triggered before the next run; ResetRestartBackoff resets that same backoff. " +
			"R16.3: a failing queue item never leaves the worker loop (the only exit is the context arm). R16.4: an Errored watch event is forwarded to watchErrors (capacity ≥ 1) and stops event processing; both callers in the dedup goroutine return on it; Run returns a non-nil error on that arm. " +
			"R16.5: shutdown — every return of Run after start is preceded by runCtxCancel and group.Wait; the runtime package starts goroutines only through the errgroup; blocking channel operations in the runtime, rruntime, qruntime and task packages have a context/done arm (named exceptions: the capacity-1 sends). " +
			"R16.6: the store's watch goroutines stop at every wait point once the context is done.",
		NotCovered: "numeric backoff growth (library), convergence after faults, 'no write issued after Run returned' (needs the write sites' happens-before with group.Wait: only the Wait itself is checked).",
		Assumptions: []string{
			"errgroup.Group.Wait returns after every function started with Go returned",
			"backoff.ExponentialBackOff grows and resets as documented",
		},
		Run: runC16,
	})
}

// recoverFence: at call site `call` in f, a deferred function that itself calls recover() and writes f's error result
// was registered on every path before the call.
func (c *Ctx) recoverFence(rule string, f *ssa.Function, callGlobs ...string) {
	p := c.P
	if !c.NeedFunc(rule, f, "callback invocation site") {
		return
	}

	calls := p.Calls(f, callGlobs...)
	if len(calls) == 0 {
		c.Unknown(rule, FuncName(f)+" :: user callback invocation", fpos(f), "anchor-unresolved: no call matching "+strings.Join(callGlobs, "|"))

		return
	}

	isFence := func(in ssa.Instruction) bool {
		d, ok := in.(*ssa.Defer)
		if !ok {
			return false
		}

		g := StaticOrClosureCallee(d)
		if g == nil || len(g.Blocks) == 0 {
			return false
		}

		// recover() must be called by the deferred function itself
		recs := p.Calls(g, "builtin.recover")
		if len(recs) == 0 {
			return false
		}

		// ... and its non-nil result must lead to a write of an error: the enclosing function's named result (free var) or *errPtr parameter
		for _, in2 := range Find(g, func(in ssa.Instruction) bool { _, ok := in.(*ssa.Store); return ok }) {
			st := in2.(*ssa.Store)
			if !isErrorType(st.Val.Type()) {
				continue
			}

			bad, _ := p.Reach(Entry(g), func(i ssa.Instruction) bool { return i == in2 }, CutSpec{Edges: FactEdge("nonnil(call:builtin.recover())")})
			if !bad {
				return true
			}
		}

		return false
	}

	for _, call := range calls {
		construct := FuncName(f) + " :: " + p.CalleeName(call) + " runs under a recover fence"

		bad, w := p.Reach(Entry(f), func(in ssa.Instruction) bool { return in == call.(ssa.Instruction) }, CutSpec{Nodes: isFence, GoDeferCount: true})
		if bad {
			c.Bad(rule, construct, call.Pos(), "user code is invoked without a deferred function that itself calls recover() and reports the panic as an error: a panic crashes the process — "+strings.Join(w, " "))
		} else {
			c.OK(rule, construct, call.Pos(), "deferred recover registered before the call")
		}
	}
	// the function has a named error result the fence can assign
	res := f.Signature.Results()
	c.Check(res.Len() >= 1 && isErrorType(res.At(res.Len()-1).Type()) && res.At(res.Len()-1).Name() != "", rule, FuncName(f)+" :: has a named error result for the fence to set", fpos(f), "yes", "no named error result: a recovered panic cannot be reported")
}

func runC16(c *Ctx) {
	p := c.P

	// ---------- R16.1
	c.Rule("R16.1", "E1", "user callbacks run under a deferred function that itself calls recover() and sets the error result", 8)

	c.recoverFence("R16.1", p.Method(pkgRRuntime, "Adapter", "runOnce"), "(pkg/controller.Controller).Run")
	c.recoverFence("R16.1", p.Method(pkgQRuntime, "Adapter", "runOnce"), "(pkg/controller.QController).Reconcile", "(pkg/controller.QController).MapInput")
	c.recoverFence("R16.1", p.Method(pkgQRuntime, "Adapter", "runWithPanicHandler"), "dyn:param#1")
	c.recoverFence("R16.1", p.Method(pkgTask, "Task", "runWithPanicHandler"), "(pkg/task.Spec[T]).RunTask")

	// user callbacks are invoked nowhere else
	allowed := map[string]bool{}
	for _, f := range []*ssa.Function{p.Method(pkgRRuntime, "Adapter", "runOnce"), p.Method(pkgQRuntime, "Adapter", "runOnce"), p.Method(pkgTask, "Task", "runWithPanicHandler")} {
		if f != nil {
			allowed[FuncName(f)] = true
		}
	}

	nCB := 0

	for _, rel := range []string{pkgRuntime, pkgRRuntime, pkgQRuntime, pkgTask} {
		for _, f := range p.PkgFuncs(rel) {
			for _, call := range p.Calls(f, "(pkg/controller.Controller).Run", "(pkg/controller.QController).Reconcile", "(pkg/controller.QController).MapInput", "(pkg/task.Spec[T]).RunTask") {
				nCB++
				c.Check(allowed[FuncName(f)], "R16.1", FuncName(f)+" :: "+p.CalleeName(call)+" is invoked only from the fenced runner", call.Pos(), "yes", "user code invoked outside the recover fence")
			}
		}
	}

	// the run hook closure handed to runWithPanicHandler is the only place that calls the hook
	if f := p.Method(pkgQRuntime, "Adapter", "runWithBackoff"); c.NeedFunc("R16.1", f, "qruntime.runWithBackoff") {
		direct := p.Calls(f, "dyn:param#2")
		c.Check(len(direct) == 0, "R16.1", FuncName(f)+" :: the run hook is not called directly", fpos(f), "only via runWithPanicHandler", "hook called outside the panic handler")

		ph := p.Calls(f, "(*"+pkgQRuntime+".Adapter).runWithPanicHandler")
		okH := len(ph) == 1

		if okH {
			cl := StaticOrClosureCallee2(ph[0], 1)
			okH = cl != nil && len(p.Calls(cl, "dyn:free:param#2")) == 1
		}

		c.Check(okH, "R16.1", FuncName(f)+" :: the hook runs inside runWithPanicHandler", fpos(f), "yes", "hook is not wrapped by the panic handler")
	}

	// ---------- R16.2 restart loops
	c.Rule("R16.2", "E1", "restart loops end only on nil/ctx; error ⇒ backoff, cancellable wait, (rruntime) re-trigger; backoff reset targets the same object", 10)

	if f := p.Method(pkgRRuntime, "Adapter", "Run"); c.NeedFunc("R16.2", f, "rruntime.Adapter.Run") {
		ro := "call:(*" + pkgRRuntime + ".Adapter).runOnce(*)"
		run := p.CallTo("(*" + pkgRRuntime + ".Adapter).runOnce")
		c.MustCut("R16.2", "return ⊣ {runOnce == nil, ctx done}", f, IsReturn, CutSpec{Edges: FactEdge("nil("+ro+")", "eq(select#0,const:0)")}, 1)

		failed := p.EdgeSuccs(f, "nonnil("+ro+")")
		c.NoReach("R16.2", "after a failure the next run needs NextBackOff", f, failed, 1, run, CutSpec{Nodes: p.CallTo("(*github.com/cenkalti/backoff/v4.ExponentialBackOff).NextBackOff")})
		c.NoReach("R16.2", "after a failure the next run needs the cancellable wait", f, failed, 1, run, CutSpec{Nodes: func(in ssa.Instruction) bool { s, ok := in.(*ssa.Select); return ok && s.Blocking }})
		c.NoReach("R16.2", "after a failure the next run needs triggerReconcile", f, failed, 1, run, CutSpec{Nodes: p.CallTo("(*" + pkgRRuntime + ".Adapter).triggerReconcile")})

		for _, call := range p.Calls(f, "(*github.com/cenkalti/backoff/v4.ExponentialBackOff).NextBackOff") {
			c.Check(p.ArgDesc(call, 0) == "*param#0.backoff", "R16.2", FuncName(f)+" :: restart interval comes from the adapter's backoff", call.Pos(), "adapter.backoff", "interval from "+p.ArgDesc(call, 0))
		}

		for _, in := range Find(f, func(in ssa.Instruction) bool { s, ok := in.(*ssa.Select); return ok && s.Blocking }) {
			sel := in.(*ssa.Select)
			okSel := len(sel.States) == 2 && Glob("call:(context.Context).Done(param#1)", p.Desc(sel.States[0].Chan)) && Glob("call:time.After(call:(*github.com/cenkalti/backoff/v4.ExponentialBackOff).NextBackOff(*))", p.Desc(sel.States[1].Chan))
			c.Check(okSel, "R16.2", FuncName(f)+" :: the wait is select{ctx.Done, time.After(backoff interval)}", in.Pos(), "yes", "wait is not cancellable / not the backoff interval")
		}
	}

	if f := p.Method(pkgRRuntime, "Adapter", "ResetRestartBackoff"); c.NeedFunc("R16.2", f, "rruntime.ResetRestartBackoff") {
		rs := p.Calls(f, "(*github.com/cenkalti/backoff/v4.ExponentialBackOff).Reset")
		c.Check(len(rs) == 1 && p.ArgDesc(rs[0], 0) == "*param#0.backoff", "R16.2", FuncName(f)+" :: resets the backoff the restart loop uses", fpos(f), "adapter.backoff", "resets another object")
	}

	if f := p.Method(pkgQRuntime, "Adapter", "runWithBackoff"); f != nil {
		c.MustCut("R16.2", "return ⊣ {hook returned nil, ctx done}", f, IsReturn, CutSpec{Edges: FactEdge("nil(call:(*"+pkgQRuntime+".Adapter).runWithPanicHandler(*))", "eq(select#0,const:0)")}, 1)
		c.NoReach("R16.2", "after a failure the next run needs NextBackOff and the cancellable wait", f, p.EdgeSuccs(f, "nonnil(call:(*"+pkgQRuntime+".Adapter).runWithPanicHandler(*))"), 1,
			p.CallTo("(*"+pkgQRuntime+".Adapter).runWithPanicHandler"), CutSpec{Nodes: func(in ssa.Instruction) bool { s, ok := in.(*ssa.Select); return ok && s.Blocking }})
	}

	if f := p.Method(pkgTask, "Task", "runWithRestarts"); c.NeedFunc("R16.2", f, "task.runWithRestarts") {
		rp := "call:(*" + pkgTask + ".Task[T, S]).runWithPanicHandler(*)"
		c.MustCut("R16.2", "return ⊣ {task returned nil, ctx done}", f, IsReturn, CutSpec{Edges: FactEdge("nil("+rp+")", "eq(select#0,const:0)", "nonnil(call:(context.Context).Err(param#1))")}, 1)
		c.NoReach("R16.2", "after a failure the next run needs backoff and the cancellable wait", f, p.EdgeSuccs(f, "nonnil("+rp+")"), 1,
			p.CallTo("(*"+pkgTask+".Task[*]).runWithPanicHandler"), CutSpec{Nodes: func(in ssa.Instruction) bool { s, ok := in.(*ssa.Select); return ok && s.Blocking }})
		c.NoReach("R16.2", "a failed run ends the task only through the context (or a later successful run)", f, p.EdgeSuccs(f, "nonnil("+rp+")"), 1, IsReturn,
			CutSpec{Nodes: p.CallTo("(*" + pkgTask + ".Task[*]).runWithPanicHandler"), Edges: FactEdge("eq(select#0,const:0)", "nonnil(call:(context.Context).Err(param#1))")})
	}

	// ---------- R16.3 item isolation
	c.Rule("R16.3", "E1", "runReconcile: the worker loop is left only through the context arm; every item is released", 3)

	if f := p.Method(pkgQRuntime, "Adapter", "runReconcile"); c.NeedFunc("R16.3", f, "qruntime.runReconcile") {
		c.MustCut("R16.3", "return ⊣ {ctx done}", f, IsReturn, CutSpec{Edges: FactEdge("eq(select#0,const:0)")}, 1)

		body := p.BodyWith(f, p.CallTo("(*"+pkgQRuntime+".Adapter).runOnce"))
		if c.NeedFunc("R16.3", body, "runReconcile per-item closure") {
			defers := Find(body, func(in ssa.Instruction) bool { _, ok := in.(*ssa.Defer); return ok })
			okR := len(defers) >= 1 && defers[0].Block() == body.Blocks[0] && Glob("(*"+pkgQueue+".Item[*]).Release", p.CalleeName(defers[0].(ssa.CallInstruction)))
			c.Check(okR, "R16.3", FuncName(body)+" :: defer item.Release() is registered first", fpos(body), "yes", "item not released on every exit (a panic or early return leaves it on hold forever)")
			c.MustCut("R16.3", "runOnce ⊣ {Release deferred}", body, p.CallTo("(*"+pkgQRuntime+".Adapter).runOnce"), CutSpec{Nodes: func(in ssa.Instruction) bool { _, ok := in.(*ssa.Defer); return ok }, GoDeferCount: true}, 1)
		}
	}

	// ---------- R16.4 watch failure is fatal
	c.Rule("R16.4", "E1", "Errored event ⇒ watchErrors + processing stops; callers return; Run reports the error", 6)

	if f := p.Method(pkgRuntime, "Runtime", "processEvents"); c.NeedFunc("R16.4", f, "Runtime.processEvents") {
		errored := p.EdgeSuccs(f, "eq(*var:pkg/state.Event.Type,"+p.ConstVal(pkgState, "Errored")+")")
		isSend := func(in ssa.Instruction) bool {
			s, ok := in.(*ssa.Send)

			return ok && Glob("*param#0.watchErrors", p.Desc(s.Chan))
		}
		c.NoReach("R16.4", "Errored: no return without forwarding the error", f, errored, 1, IsReturn, CutSpec{Nodes: isSend})
		c.NoReach("R16.4", "Errored: processing stops (returns false, no further event handled)", f, errored, 1, OrInstr(p.RetIs(0, "const:true"), func(in ssa.Instruction) bool { _, ok := in.(*ssa.MapUpdate); return ok }), CutSpec{})

		for _, in := range Find(f, isSend) {
			c.Check(p.Desc(in.(*ssa.Send).X) == "*var:pkg/state.Event.Error", "R16.4", FuncName(f)+" :: forwards the event's error", in.Pos(), "e.Error", "sends "+p.Desc(in.(*ssa.Send).X))
		}
	}

	if f := p.Func(pkgRuntime, "NewRuntime"); f != nil {
		okCap := false

		for _, in := range Find(f, StoreToField("Runtime", "watchErrors")) {
			if mc, ok := in.(*ssa.Store).Val.(*ssa.MakeChan); ok && p.LinOf(mc.Size, nil).Const >= 1 {
				okCap = true
			}
		}

		c.Check(okCap, "R16.4", "NewRuntime :: watchErrors has capacity >= 1 (the send cannot block the watch pipeline forever)", fpos(f), "yes", "unbuffered watchErrors: processEvents blocks if Run is not at its select")
	}

	if f := p.Method(pkgRuntime, "Runtime", "deduplicateWatchEvents"); c.NeedFunc("R16.4", f, "Runtime.deduplicateWatchEvents") {
		stopped := p.EdgeSuccs(f, "false(call:(*"+pkgRuntime+".Runtime).processEvents(*")
		c.Check(len(stopped) == 2, "R16.4", FuncName(f)+" :: both processEvents call sites test the result", fpos(f), "2", fmt.Sprintf("%d tested call sites", len(stopped)))
		c.NoReach("R16.4", "processEvents == false ⇒ the goroutine returns", f, stopped, 2, func(in ssa.Instruction) bool {
			switch in.(type) {
			case *ssa.Select, *ssa.Send, ssa.CallInstruction:
				return true
			}

			return false
		}, CutSpec{})
	}

	fRun := p.Method(pkgRuntime, "Runtime", "Run")
	if c.NeedFunc("R16.4", fRun, "Runtime.Run") {
		okW := false

		for _, in := range Find(fRun, IsReturn) {
			d := p.Desc(in.(*ssa.Return).Results[0])
			if strings.Contains(d, "fmt.Errorf(") && strings.Contains(d, "nil") {
				okW = true
			}
		}

		c.Check(okW, "R16.4", FuncName(fRun)+" :: the watch-error arm makes Run return a non-nil error", fpos(fRun), "yes", "Run swallows the watch error")

		// ---------- R16.5 shutdown
		c.Rule("R16.5", "E1", "Run: cancel + group.Wait before every post-start return; goroutines only via the errgroup; blocking channel ops have a ctx/done arm", 6)

		wait := p.CallTo("(*golang.org/x/sync/errgroup.Group).Wait")
		cancel := p.CallTo("dyn:*param#0.runCtxCancel")
		// (the start-up step is a function literal called in place, or an unexported method of the runtime)
		startErr := FactEdge("nonnil(call:closure:" + FuncName(fRun) + "$1())")
		if sb := p.BodyWith(fRun, p.CallTo("(*"+pkgRuntime+".Runtime).setupWatches")); sb != nil && sb.Parent() == nil {
			startErr = FactEdge("nonnil(call:" + FuncName(sb) + "(param#0*")
		}

		c.MustCut("R16.5", "return ⊣ {group.Wait, start-up failed}", fRun, IsReturn, CutSpec{Nodes: wait, Edges: startErr}, 1)
		c.MustCut("R16.5", "group.Wait ⊣ {runCtxCancel}", fRun, wait, CutSpec{Nodes: cancel}, 1)

		for _, call := range p.Calls(fRun, "(*golang.org/x/sync/errgroup.Group).Wait") {
			c.Check(p.ArgDesc(call, 0) == "param#0.group", "R16.5", FuncName(fRun)+" :: waits for the group all goroutines were started in", call.Pos(), "runtime.group", "waits on "+p.ArgDesc(call, 0))
		}

		// start order: watches before controllers (shared with C05)
		if start := p.BodyWith(fRun, p.CallTo("(*"+pkgRuntime+".Runtime).setupWatches")); c.NeedFunc("R16.5", start, "Run start closure") {
			c.NoReach("R16.5", "setupWatches failure cancels and starts nothing", start, p.EdgeSuccs(start, "nonnil(call:(*"+pkgRuntime+".Runtime).setupWatches(*"), 1,
				p.CallTo("(*golang.org/x/sync/errgroup.Group).Go", pkgRuntime+".goFunc"), CutSpec{})
		}
	}

	// goroutines only via the errgroup in the runtime package
	nGo := 0

	for _, f := range p.PkgFuncs(pkgRuntime) {
		for _, in := range Find(f, func(in ssa.Instruction) bool { _, ok := in.(*ssa.Go); return ok }) {
			nGo++
			c.Bad("R16.5", FuncName(f)+" :: bare go statement in the runtime package", in.Pos(), "a goroutine outside the errgroup is not waited for by Run")
		}
	}

	c.OK("R16.5", "runtime package :: no bare go statement", 0, fmt.Sprintf("%d found", nGo))

	if f := p.Func(pkgRuntime, "goFunc"); c.NeedFunc("R16.5", f, "runtime.goFunc") {
		c.Check(len(p.Calls(f, "(*golang.org/x/sync/errgroup.Group).Go")) == 1, "R16.5", "goFunc starts the function in the given errgroup", fpos(f), "yes", "goFunc does not use the errgroup")
	}

	// blocking channel operations
	blockingOps(c, "R16.5")

	// ---------- R16.7 one context stops everything
	c.Rule("R16.7", "E3", "the runtime runs every controller adapter and every watch on its own run context (the one cancelled on a watch failure), never on the caller's context", 3)

	for _, f := range p.PkgFuncs(pkgRuntime) {
		for _, call := range p.Calls(f, "(pkg/controller/runtime/internal/adapter.Adapter).Run", "(pkg/state.*).WatchKindAggregated", "(pkg/state.*).WatchKind", "(pkg/state.*).Watch") {
			d := p.DescN(CallArgs(call)[1], 4)
			ok := strings.ReplaceAll(d, "free:", "") == "*param#0.runCtx" // (captured through any number of function literals)
			c.Check(ok, "R16.7", FuncName(f)+" :: "+p.CalleeName(call)+" runs on runtime.runCtx", call.Pos(), d, "context is "+d+": a watch failure cancels runCtx only, this goroutine / watch keeps running and Run never returns")
		}
	}

	// ---------- R16.6 store watchers stop
	c.Rule("R16.6", "E1", "store watch goroutines: a failed (cancelled) send or a done context ends the goroutine at every wait point", 4)

	for _, name := range []string{"Watch", "WatchAll"} {
		f := p.Method(pkgInmem, "ResourceCollection", name)
		if f == nil {
			continue
		}

		_, del := deliveryClosures(p, f)
		if !c.NeedFunc("R16.6", del, name+" delivery goroutine") {
			continue
		}

		c.NoReach("R16.6", "cancelled send ⇒ no further lock/wait/send", del, p.EdgeSuccs(del, "false(call:"+gSend+"(*"), 1, OrInstr(plainMutexOp(p, "Lock"), p.CallTo("(*sync.Cond).Wait", gSend)), CutSpec{})
		c.NoReach("R16.6", "ctx done after Lock ⇒ unlock and return", del, p.EdgeSuccs(del, "nonnil(call:(context.Context).Err(free:param#1))"), 1, OrInstr(isStreamRead, p.CallTo("(*sync.Cond).Wait", gSend)), CutSpec{})
		c.NoReach("R16.6", "ctx done after Wait ⇒ unlock and return", del, p.EdgeSuccs(del, "eq(select#0,const:0)"), 1, OrInstr(isStreamRead, p.CallTo("(*sync.Cond).Wait", gSend)), CutSpec{})
	}

	// ---------- R16.11 a crashed run leaves no tracker behind
	c.Rule("R16.11", "E7", "rruntime.runOnce: the output tracker is dropped by a deferred function, i.e. also when Controller.Run panics — StartTrackingOutputs refuses (panics) while a tracker is set, so a tracker surviving one panic makes every restarted run panic again and the controller never gets a fresh reconcile", 1)

	if f := p.Method(pkgRRuntime, "Adapter", "runOnce"); c.NeedFunc("R16.11", f, "rruntime.Adapter.runOnce") {
		reset := StoreToField("Adapter", "outputTracker")
		deferred := false

		for _, in := range Find(f, func(in ssa.Instruction) bool { _, ok := in.(*ssa.Defer); return ok }) {
			if callee := StaticOrClosureCalleeOf(in.(*ssa.Defer)); callee != nil {
				seen := map[*ssa.Function]bool{}

				var walk func(g *ssa.Function, depth int) bool

				walk = func(g *ssa.Function, depth int) bool {
					if g == nil || seen[g] || depth > 2 {
						return false
					}

					seen[g] = true

					if len(Find(g, reset)) > 0 {
						return true
					}

					for _, ci := range Find(g, func(in ssa.Instruction) bool { _, ok := in.(*ssa.Call); return ok }) {
						if h := ci.(*ssa.Call).Call.StaticCallee(); h != nil && pkgOfFunc(h) == pkgOfFunc(f) && walk(h, depth+1) {
							return true
						}
					}

					return false
				}

				if walk(callee, 0) {
					deferred = true
				}
			}
		}

		c.Check(deferred, "R16.11", FuncName(f)+" :: outputTracker is reset in a deferred function", fpos(f), "yes", "no deferred function of runOnce resets Adapter.outputTracker: a panic in Controller.Run leaves the tracker set and every later StartTrackingOutputs panics")
	}

	// ---------- R16.8 a pooled tracker map has one owner
	c.Rule("R16.8", "E1", "rruntime output tracker: the map goes back to the process-wide pool only together with the adapter forgetting it (Put is followed by outputTracker = nil before the function returns, and is never deferred): a fault in one controller cannot make two controllers share one tracking map", 1)

	putGlob := "(*" + pkgRRuntime + ".trackingOutputPool).Put"
	nPut := 0

	for _, f := range p.PkgFuncs(pkgRRuntime) {
		isPut := func(in ssa.Instruction) bool {
			call, ok := in.(*ssa.Call)

			return ok && Glob(putGlob, p.CalleeName(call))
		}

		for _, in := range Find(f, func(in ssa.Instruction) bool {
			switch in.(type) {
			case *ssa.Defer, *ssa.Go:
				return Glob(putGlob, p.CalleeName(in.(ssa.CallInstruction)))
			}

			return false
		}) {
			nPut++

			c.Bad("R16.8", FuncName(f)+" :: the tracker is returned to the pool by a plain call", in.Pos(), "deferred/asynchronous Put: it runs whatever happened to the field in between, the map can reach the pool twice")
		}

		if len(Find(f, isPut)) == 0 {
			continue
		}

		nPut++

		forget := func(in ssa.Instruction) bool {
			return StoreToField("Adapter", "outputTracker")(in) && isNilConst(in.(*ssa.Store).Val)
		}

		c.MustFollow("R16.8", "Put(outputTracker) ⇒ outputTracker = nil before return", f, isPut, IsReturn, CutSpec{Nodes: forget}, 1)
	}

	if nPut == 0 {
		c.Unknown("R16.8", pkgRRuntime+" :: tracker pool Put", token.NoPos, "anchor-unresolved: no call of "+putGlob)
	}

	// ---------- error discipline (E8)
	errDisciplineFor(c, "C16")

	// ---------- R16.10 (shared with C09 R09.6)
	c.Import(runC09, "R09.6", "", "R16.10", "E1", "a failed reconcile without an explicit requeue interval always gets the per-item backoff and is requeued: a failing queue item is retried until it succeeds", 3)

}

// blockingOps: in the controller-runtime packages every blocking select has a context/done arm and there is no bare
// blocking send/receive except the named capacity-1 hand-offs.
func blockingOps(c *Ctx, rule string) {
	p := c.P

	exceptions := map[string]string{
		"(*pkg/controller/runtime.Runtime).processEvents|*param#0.watchErrors": "capacity-1 error mailbox, read by Run (R16.4)",
		"(*pkg/controller/runtime.Runtime).processWatched|makechan(const:1)":   "initial hand-off of the empty dedup map into a capacity-1 channel",
	}

	nSel, nOK := 0, 0

	for _, rel := range []string{pkgRuntime, pkgRRuntime, pkgQRuntime, pkgTask, pkgQueue} {
		for _, f := range p.PkgFuncs(rel) {
			for _, in := range Find(f, func(ssa.Instruction) bool { return true }) {
				switch x := in.(type) {
				case *ssa.Select:
					if !x.Blocking {
						continue
					}

					nSel++
					hasDone := false

					for _, st := range x.States {
						d := p.Desc(st.Chan)
						if strings.Contains(d, "(context.Context).Done(") || strings.HasSuffix(d, ".done") || strings.HasSuffix(d, ".doneCh") || strings.Contains(d, "Done()") {
							hasDone = true
						}
					}

					if hasDone {
						nOK++
					} else {
						c.Bad(rule, FuncName(f)+" :: blocking select without a context/done arm", x.Pos(), "cancellation cannot interrupt this wait: Run does not return")
					}
				case *ssa.Send:
					key := FuncName(f) + "|" + p.Desc(x.Chan)
					if _, ok := exceptions[key]; !ok {
						c.Bad(rule, FuncName(f)+" :: bare channel send on "+p.Desc(x.Chan), x.Pos(), "a bare send can block forever after cancellation")
					}
				case *ssa.UnOp:
					if x.Op.String() == "<-" {
						// bare receive: allowed only from a context's Done channel
						if d := p.Desc(x.X); !strings.Contains(d, "(context.Context).Done(") {
							c.Bad(rule, FuncName(f)+" :: bare channel receive from "+d, x.Pos(), "a bare receive can block forever after cancellation")
						}
					}
				}
			}
		}
	}

	c.Check(nSel >= 10 && nSel == nOK, rule, "runtime/rruntime/qruntime/queue/task :: every blocking select has a ctx/done arm", 0, fmt.Sprintf("%d selects", nSel), fmt.Sprintf("%d of %d selects have a done arm", nOK, nSel))
}

var _ = types.Identical
