package lint

// primitiveAnchors are unexported helpers that rules refer to only inside callee globs (as
// semantic primitives, e.g. "hand-back ⊣ {takeOne}") and never resolve with Method/Func.
var primitiveAnchors = []string{
	"(*pkg/controller/runtime.Runtime).processWatched",
	"(*pkg/controller/runtime.Runtime).registerAdapter",
	"(pkg/controller/runtime.dedup).takeOne",
	"(*pkg/state/protobuf/client.Adapter).teardownFallback",
	"(*pkg/state/protobuf/client.Adapter).teardownAndDestroyFallback",
	"pkg/keystorage.isZero",
	"pkg/safe.typeMismatchErr",
	"pkg/state.errPhaseConflict",
}
