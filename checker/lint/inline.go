package lint

import (
	"fmt"
	"go/token"
	"go/types"
	"io"
	"reflect"
	"sort"
	"strings"
	"unicode"
	"unicode/utf8"
	"unsafe"

	"golang.org/x/tools/go/ssa"
)

// N1 — inlining normal form.
//
// Rules are written against the functions that play a role in a property (the "anchors": API
// methods, goroutine bodies, the helpers a rule names). Where a behaviour-preserving refactoring
// moves part of an anchor's body into a new unexported helper, the rule must still see that code.
// After go/ssa has built the program, every call from a function of the module to an unexported
// function or method of the same package that is NOT itself an anchor is therefore replaced by a
// copy of the callee's blocks (parameters substituted by the arguments, returns turned into jumps
// to the continuation with phis for the results). Nothing is executed: this is a rewrite of the
// analysed IR only. Callees that defer, recover or recurse are left as calls.
//
// go/ssa does not export constructors for its IR, so the few unexported fields that have to be
// written (an instruction's block, a register's number/type, a block's parent) are set through
// reflect+unsafe; the layout is that of the pinned x/tools v0.50.0 and `sanityInline` re-checks the
// rewritten functions (operands defined, phi arity, succ/pred symmetry) on every run.

const (
	inlineMaxDepth  = 4
	inlineMaxBlocks = 120
)

// InlineStats reports what the normal form did (goes into the evidence).
type InlineStats struct {
	Sites     int      `json:"call_sites_inlined"`
	Callees   []string `json:"callees_inlined"`
	Skipped   []string `json:"callees_left_as_calls,omitempty"`
	Functions int      `json:"functions_rewritten"`
}

func setField(ptr any, name string, val any) {
	v := reflect.ValueOf(ptr).Elem().FieldByName(name)
	if !v.IsValid() {
		panic(fmt.Sprintf("inline: %T has no field %s (x/tools layout changed)", ptr, name))
	}

	reflect.NewAt(v.Type(), unsafe.Pointer(v.UnsafeAddr())).Elem().Set(reflect.ValueOf(val))
}

func getField(ptr any, name string) reflect.Value {
	v := reflect.ValueOf(ptr).Elem().FieldByName(name)
	if !v.IsValid() {
		panic(fmt.Sprintf("inline: %T has no field %s (x/tools layout changed)", ptr, name))
	}

	return reflect.NewAt(v.Type(), unsafe.Pointer(v.UnsafeAddr())).Elem()
}

func setBlock(in ssa.Instruction, b *ssa.BasicBlock) { setField(in, "block", b) }

func cloneInstr(in ssa.Instruction) ssa.Instruction {
	rv := reflect.ValueOf(in)
	nv := reflect.New(rv.Elem().Type())
	nv.Elem().Set(rv.Elem())

	out := nv.Interface().(ssa.Instruction)

	// un-share the operand slices
	switch x := out.(type) {
	case *ssa.Phi:
		x.Edges = append([]ssa.Value(nil), x.Edges...)
	case *ssa.Call:
		x.Call.Args = append([]ssa.Value(nil), x.Call.Args...)
	case *ssa.Go:
		x.Call.Args = append([]ssa.Value(nil), x.Call.Args...)
	case *ssa.Defer:
		x.Call.Args = append([]ssa.Value(nil), x.Call.Args...)
	case *ssa.MakeClosure:
		x.Bindings = append([]ssa.Value(nil), x.Bindings...)
	case *ssa.Return:
		x.Results = append([]ssa.Value(nil), x.Results...)
	case *ssa.Select:
		st := make([]*ssa.SelectState, len(x.States))
		for i, s := range x.States {
			c := *s
			st[i] = &c
		}

		x.States = st
	}

	if v, ok := out.(ssa.Value); ok {
		if r := v.Referrers(); r != nil {
			*r = nil
		}
	}

	return out
}

func isUnexported(name string) bool {
	r, _ := utf8.DecodeRuneInString(name)

	return unicode.IsLower(r) || r == '_'
}

// bodyOf returns the function whose blocks represent g's body for inlining into caller, or nil.
func bodyOf(g *ssa.Function) *ssa.Function {
	if g == nil {
		return nil
	}

	if len(g.Blocks) > 0 {
		return g
	}

	if o := g.Origin(); o != nil && len(o.Blocks) > 0 {
		for _, t := range g.TypeArgs() {
			if _, ok := types.Unalias(t).(*types.TypeParam); !ok {
				return nil
			}
		}

		return o
	}

	return nil
}

func funcPkg(f *ssa.Function) *ssa.Package {
	if f == nil {
		return nil
	}

	if f.Pkg != nil {
		return f.Pkg
	}

	if o := f.Origin(); o != nil {
		return o.Pkg
	}

	return nil
}

func rootFunc(f *ssa.Function) *ssa.Function {
	for f.Parent() != nil {
		f = f.Parent()
	}

	return f
}

// stdModels are the standard-library search helpers that refactorings substitute for hand-written
// loops. Their (generic) bodies are inlined like same-package helpers, and a function literal passed
// to them is inlined where the model calls it, so `slices.ContainsFunc(xs, func(x) bool { return P(x) })`
// is analysed as the loop `for i := range xs { if P(xs[i]) { ... } }` it stands for.
var stdModels = map[string]bool{
	"slices.Contains":     true,
	"slices.ContainsFunc": true,
	"slices.Index":        true,
	"slices.IndexFunc":    true,
}

func isStdModel(g *ssa.Function) bool {
	if g == nil {
		return false
	}

	if o := g.Origin(); o != nil {
		g = o
	}

	return g.Pkg != nil && stdModels[g.Pkg.Pkg.Path()+"."+g.Name()]
}

func inStdModelBlock(b *ssa.BasicBlock) bool {
	if !strings.HasPrefix(b.Comment, "inl:") {
		return false
	}

	for m := range stdModels {
		n := "inl:" + m[strings.LastIndex(m, ".")+1:]
		if strings.HasPrefix(b.Comment, n+":") || strings.HasPrefix(b.Comment, n+"[") {
			return true
		}
	}

	return false
}

func stripChangeType(v ssa.Value) ssa.Value {
	for {
		ct, ok := v.(*ssa.ChangeType)
		if !ok {
			return v
		}

		v = ct.X
	}
}

func closureValue(v ssa.Value) (*ssa.MakeClosure, bool) {
	mc, ok := stripChangeType(v).(*ssa.MakeClosure)

	return mc, ok
}

// cloneSite records, for every function literal copied by cloneAnon, the MakeClosure that creates the copy.
var cloneSite = map[*ssa.Function]*ssa.MakeClosure{}

// capturedClosure resolves the callee of a call inside a copied function literal h to a function
// literal g of h's parent that h captured (by value, or by reference with a single assignment):
// `helper(func(x) { … })` where helper runs its argument inside another literal.
func capturedClosure(h *ssa.Function, v ssa.Value) (g *ssa.MakeClosure, mch *ssa.MakeClosure) {
	mch = cloneSite[h]
	if mch == nil {
		return nil, nil
	}

	v = stripChangeType(v)

	var fv *ssa.FreeVar

	byRef := false

	switch x := v.(type) {
	case *ssa.FreeVar:
		fv = x
	case *ssa.UnOp:
		if f, ok := x.X.(*ssa.FreeVar); ok && x.Op == token.MUL {
			fv, byRef = f, true
		}
	}

	if fv == nil || fv.Parent() != h {
		return nil, nil
	}

	var bound ssa.Value

	for i, f := range h.FreeVars {
		if f == fv && i < len(mch.Bindings) {
			bound = mch.Bindings[i]
		}
	}

	if bound == nil {
		return nil, nil
	}

	if byRef {
		al, ok := bound.(*ssa.Alloc)
		if !ok {
			return nil, nil
		}

		st := SingleStore(al)
		if st == nil || st.Block() == nil || st.Block().Parent() != mch.Block().Parent() || !dominates(st.Block(), mch.Block()) {
			return nil, nil
		}

		bound = st.Val
	}

	mc, ok := closureValue(bound)
	if !ok || mc.Block() == nil || mc.Block().Parent() != mch.Block().Parent() {
		return nil, nil
	}

	return mc, mch
}

func simpleBody(body *ssa.Function) string {
	if len(body.Blocks) > inlineMaxBlocks {
		return "too large"
	}

	if body.Recover != nil {
		return "recovers"
	}

	rets := 0

	for _, b := range body.Blocks {
		for _, in := range b.Instrs {
			switch x := in.(type) {
			case *ssa.Defer, *ssa.RunDefers:
				return "defers"
			case *ssa.Return:
				rets++
			case *ssa.Call:
				// recover() only stops a panic when called directly by the deferred function:
				// inlining a helper that calls it would change what the analysed code means
				if b, ok := x.Call.Value.(*ssa.Builtin); ok && b.Name() == "recover" {
					return "calls recover()"
				}
			}
		}
	}

	if rets == 0 {
		return "never returns"
	}

	return ""
}

// inlinable decides whether the static call `call` inside f is replaced by the callee's body.
func (p *Program) inlinable(f *ssa.Function, call *ssa.Call) (*ssa.Function, string) {
	if call.Call.IsInvoke() {
		return nil, ""
	}

	// a function literal handed to a standard-library model, called by the model
	mc, ok := closureValue(call.Call.Value)
	if !ok {
		if g, _ := capturedClosure(f, call.Call.Value); g != nil {
			mc, ok = g, true
		}
	}

	if ok {
		fn, _ := mc.Fn.(*ssa.Function)
		inHelper := strings.HasPrefix(call.Block().Comment, "inl:") || cloneSite[f] != nil

		if fn == nil || !inHelper || len(fn.Blocks) == 0 || len(fn.Params) != len(call.Call.Args) || len(fn.FreeVars) != len(mc.Bindings) {
			return nil, ""
		}

		if why := simpleBody(fn); why != "" {
			return nil, FuncName(fn) + ": " + why
		}

		return fn, ""
	}

	g, ok := stripChangeType(call.Call.Value).(*ssa.Function)
	if !ok || g.Parent() != nil {
		if ok && inStdModelBlock(call.Block()) && len(g.Blocks) > 0 && len(g.FreeVars) == 0 && len(g.Params) == len(call.Call.Args) && simpleBody(g) == "" {
			return g, "" // a capture-free function literal handed to a model
		}

		return nil, ""
	}

	if isStdModel(g) {
		body := g
		if len(body.Blocks) == 0 {
			body = g.Origin()
		}

		if body == nil || len(body.Blocks) == 0 || len(body.Params) != len(call.Call.Args) {
			return nil, ""
		}

		if why := simpleBody(body); why != "" {
			return nil, FuncName(body) + ": " + why
		}

		return body, ""
	}

	body := bodyOf(g)
	if body == nil {
		return nil, ""
	}

	fp, gp := funcPkg(rootFunc(f)), funcPkg(g)
	if fp == nil || gp == nil || fp != gp || !strings.HasPrefix(gp.Pkg.Path()+"/", Mod) {
		return nil, ""
	}

	if !isUnexported(g.Name()) || g.Name() == "init" {
		return nil, ""
	}

	name := FuncName(body)
	if p.isAnchor(name) {
		return nil, ""
	}

	if why := simpleBody(body); why != "" {
		return nil, name + ": " + why
	}

	if len(body.Params) != len(call.Call.Args) {
		return nil, name + ": arity"
	}

	return body, ""
}

// InlineAll rewrites every function of the module into the inlining normal form.
func (p *Program) InlineAll() InlineStats {
	var st InlineStats

	callees := map[string]bool{}
	skipped := map[string]bool{}
	done := map[*ssa.Function]bool{}
	onStack := map[*ssa.Function]bool{}

	var visit func(f *ssa.Function, depth int)

	visit = func(f *ssa.Function, depth int) {
		if done[f] || onStack[f] {
			return
		}

		onStack[f] = true

		defer func() {
			onStack[f] = false
			done[f] = true
		}()

		rewrote := false

		var pending []*ssa.Function

		// iterate until no inlinable call is left (inlined bodies are already in normal form, but
		// may contain calls that were recursive from the callee's point of view)
		for round := 0; round < 64; round++ {
			var site *ssa.Call

			var body *ssa.Function

		search:
			for _, b := range f.Blocks {
				for _, in := range b.Instrs {
					call, ok := in.(*ssa.Call)
					if !ok {
						continue
					}

					g, why := p.inlinable(f, call)
					if why != "" {
						skipped[why] = true
					}

					if g == nil || onStack[g] {
						continue
					}

					if depth >= inlineMaxDepth {
						skipped[FuncName(g)+": depth"] = true

						continue
					}

					site, body = call, g

					break search
				}
			}

			if site == nil {
				break
			}

			visit(body, depth+1)

			if onStack[body] {
				break
			}

			// function literals of the callee are copied along with it: normalise them first
			var lits func(fn *ssa.Function)

			lits = func(fn *ssa.Function) {
				for _, a := range fn.AnonFuncs {
					if len(a.Blocks) > 0 {
						visit(a, depth+1)
					}

					lits(a)
				}
			}

			lits(body)

			pending = append(pending, p.inlineCall(f, site, body)...)
			callees[FuncName(body)] = true
			st.Sites++
			rewrote = true
		}

		// copies of function literals may now call literals they captured from f
		for _, lit := range pending {
			visit(lit, depth)
		}

		if rewrote {
			st.Functions++

			if err := sanityInline(f); err != nil {
				panic(fmt.Sprintf("inline: %s: %v", FuncName(f), err))
			}
		}
	}

	for _, f := range p.AllOwnFuncs() {
		if len(f.Blocks) > 0 {
			visit(f, 0)
		}
	}

	for k := range callees {
		st.Callees = append(st.Callees, k)
	}

	for k := range skipped {
		st.Skipped = append(st.Skipped, k)
	}

	sort.Strings(st.Callees)
	sort.Strings(st.Skipped)

	domCache = map[*ssa.Function]map[*ssa.BasicBlock]map[*ssa.BasicBlock]bool{}
	p.closureOf = map[*ssa.Function]*ssa.MakeClosure{}
	p.callSites = nil

	// helpers that no longer have any caller or other reference do not exist in the normal form:
	// who-may-call / who-may-access rules must not see their bodies a second time
	inlined := map[*ssa.Function]bool{}

	for _, f := range p.AllOwnFuncs() {
		if f.Parent() == nil && callees[FuncName(f)] {
			inlined[f] = true
		}
	}

	var buf [16]*ssa.Value

	var scan func(f *ssa.Function)

	scan = func(f *ssa.Function) {
		if inlined[f] && f.Parent() == nil {
			// references from the helper's own (dead) body do not keep another helper alive … unless the
			// helper itself stays alive; resolved by the fixpoint below
			return
		}

		for _, b := range f.Blocks {
			for _, in := range b.Instrs {
				for _, op := range in.Operands(buf[:0]) {
					if g, ok := (*op).(*ssa.Function); ok && g != nil {
						if o := g.Origin(); o != nil {
							g = o
						}

						if inlined[g] {
							delete(inlined, g)
						}
					}
				}
			}
		}

		for _, a := range f.AnonFuncs {
			scan(a)
		}
	}

	for range 4 {
		before := len(inlined)

		for _, f := range p.AllOwnFuncs() {
			if f.Parent() == nil {
				scan(f)
			}
		}

		if len(inlined) == before {
			break
		}
	}

	// methods can be reached through interfaces: keep every method whose name some interface of the
	// module or its dependencies could select (conservatively: exported methods are never helpers
	// anyway; unexported interface methods are rare — keep those whose name appears in any call by invoke)
	p.inlinedAway = inlined
	p.funcsCache = map[string][]*ssa.Function{}
	p.allFuncs = nil

	return st
}

func newBlock(f *ssa.Function, comment string) *ssa.BasicBlock {
	b := &ssa.BasicBlock{Comment: comment}
	setField(b, "parent", f)

	return b
}

func replacePred(succ, old, nw *ssa.BasicBlock) {
	for i, pb := range succ.Preds {
		if pb == old {
			succ.Preds[i] = nw
		}
	}
}

func maxRegNum(f *ssa.Function) int {
	n := 0

	for _, b := range f.Blocks {
		for _, in := range b.Instrs {
			if v, ok := in.(ssa.Value); ok {
				nm := v.Name()
				if strings.HasPrefix(nm, "t") {
					k := 0

					for _, c := range nm[1:] {
						if c < '0' || c > '9' {
							k = -1

							break
						}

						k = k*10 + int(c-'0')
					}

					if k > n {
						n = k
					}
				}
			}
		}
	}

	return n
}

func hasRegister(in ssa.Instruction) bool {
	return reflect.ValueOf(in).Elem().FieldByName("num").IsValid()
}

func addReferrer(v ssa.Value, in ssa.Instruction) {
	if v == nil {
		return
	}

	if r := v.Referrers(); r != nil {
		*r = append(*r, in)
	}
}

func removeReferrer(v ssa.Value, in ssa.Instruction) {
	if v == nil {
		return
	}

	r := v.Referrers()
	if r == nil {
		return
	}

	out := (*r)[:0:0]

	for _, x := range *r {
		if x != in {
			out = append(out, x)
		}
	}

	*r = out
}

// replaceUses makes every referrer of old use nw instead.
func replaceUses(old, nw ssa.Value) {
	r := old.Referrers()
	if r == nil {
		return
	}

	var buf [8]*ssa.Value

	for _, user := range *r {
		for _, op := range user.Operands(buf[:0]) {
			if *op == old {
				*op = nw
			}
		}

		addReferrer(nw, user)
	}

	*r = nil
}

// inlineCall replaces `call` (in f) by a copy of body's blocks.
func (p *Program) inlineCall(f *ssa.Function, call *ssa.Call, body *ssa.Function) []*ssa.Function {
	b := call.Block()
	idx := -1

	for i, in := range b.Instrs {
		if in == ssa.Instruction(call) {
			idx = i
		}
	}

	if idx < 0 {
		panic("inline: call not in its block")
	}

	// continuation block
	cont := newBlock(f, "inl.cont:"+body.Name())
	cont.Instrs = append([]ssa.Instruction(nil), b.Instrs[idx+1:]...)
	cont.Succs = b.Succs

	for _, in := range cont.Instrs {
		setBlock(in, cont)
	}

	seenSucc := map[*ssa.BasicBlock]bool{}

	for _, s := range cont.Succs {
		if !seenSucc[s] {
			seenSucc[s] = true

			replacePred(s, b, cont)
		}
	}

	if f.Recover == b {
		// (cannot happen: the recover block has no calls)
		panic("inline: call in recover block")
	}

	// clone callee
	vmap := map[ssa.Value]ssa.Value{}

	for i, prm := range body.Params {
		vmap[prm] = call.Call.Args[i]
	}

	if mc, ok := closureValue(call.Call.Value); ok {
		for i, fv := range body.FreeVars {
			vmap[fv] = mc.Bindings[i]
		}
	} else if g, mch := capturedClosure(f, call.Call.Value); g != nil {
		// what the captured literal captures becomes captured by f as well
		for i, fv := range body.FreeVars {
			nv := new(ssa.FreeVar)
			*nv = *fv
			setField(nv, "parent", f)
			*nv.Referrers() = nil
			f.FreeVars = append(f.FreeVars, nv)
			mch.Bindings = append(mch.Bindings, g.Bindings[i])
			addReferrer(g.Bindings[i], mch)
			vmap[fv] = nv
		}
	}

	bmap := map[*ssa.BasicBlock]*ssa.BasicBlock{}
	newBlocks := make([]*ssa.BasicBlock, 0, len(body.Blocks))

	for _, ob := range body.Blocks {
		nb := newBlock(f, "inl:"+body.Name()+":"+ob.Comment)
		bmap[ob] = nb
		newBlocks = append(newBlocks, nb)
	}

	num := maxRegNum(f)

	var clones []ssa.Instruction

	for _, ob := range body.Blocks {
		nb := bmap[ob]

		for _, in := range ob.Instrs {
			c := cloneInstr(in)
			setBlock(c, nb)

			if hasRegister(c) {
				num++
				setField(c, "num", num)
			}

			if v, ok := in.(ssa.Value); ok {
				vmap[v] = c.(ssa.Value)
			}

			if al, ok := c.(*ssa.Alloc); ok && !al.Heap {
				f.Locals = append(f.Locals, al)
			}

			nb.Instrs = append(nb.Instrs, c)
			clones = append(clones, c)
		}

		for _, s := range ob.Succs {
			nb.Succs = append(nb.Succs, bmap[s])
		}

		for _, s := range ob.Preds {
			nb.Preds = append(nb.Preds, bmap[s])
		}
	}

	// function literals created by the callee now belong to f: give each its own copy whose parent is
	// f, so that what it captures is described in terms of f's values
	var newLits []*ssa.Function

	for _, c := range clones {
		if mc, ok := c.(*ssa.MakeClosure); ok {
			if afn, ok := mc.Fn.(*ssa.Function); ok && afn.Parent() == body {
				nfn := cloneAnon(afn, f, 0)
				mc.Fn = nfn
				cloneSite[nfn] = mc
				f.AnonFuncs = append(f.AnonFuncs, nfn)
				newLits = append(newLits, nfn)
			}
		}
	}

	var buf [8]*ssa.Value

	for _, c := range clones {
		for _, op := range c.Operands(buf[:0]) {
			if *op == nil {
				continue
			}

			if nv, ok := vmap[*op]; ok {
				*op = nv
			}

			addReferrer(*op, c)
		}
	}

	// the call's own operands no longer refer
	for _, op := range call.Operands(buf[:0]) {
		removeReferrer(*op, call)
	}

	// b jumps to the callee entry
	entry := bmap[body.Blocks[0]]
	jmp := &ssa.Jump{}
	setBlock(jmp, b)
	b.Instrs = append(b.Instrs[:idx:idx], jmp)
	b.Succs = []*ssa.BasicBlock{entry}
	entry.Preds = append(entry.Preds, b)

	// returns become jumps to cont
	type retSite struct {
		blk  *ssa.BasicBlock
		vals []ssa.Value
	}

	var rets []retSite

	for _, nb := range newBlocks {
		if len(nb.Instrs) == 0 {
			continue
		}

		r, ok := nb.Instrs[len(nb.Instrs)-1].(*ssa.Return)
		if !ok {
			continue
		}

		for _, v := range r.Results {
			removeReferrer(v, r)
		}

		j := &ssa.Jump{}
		setBlock(j, nb)
		nb.Instrs[len(nb.Instrs)-1] = j
		nb.Succs = []*ssa.BasicBlock{cont}
		cont.Preds = append(cont.Preds, nb)
		rets = append(rets, retSite{nb, r.Results})
	}

	// results
	nres := body.Signature.Results().Len()

	result := func(i int) ssa.Value {
		if len(rets) == 1 {
			return rets[0].vals[i]
		}

		phi := &ssa.Phi{Comment: "inl.ret:" + body.Name()}
		num++
		setField(phi, "num", num)
		setField(phi, "typ", body.Signature.Results().At(i).Type())
		setField(phi, "pos", call.Pos())
		setBlock(phi, cont)

		for _, r := range rets {
			phi.Edges = append(phi.Edges, r.vals[i])
			addReferrer(r.vals[i], phi)
		}

		cont.Instrs = append([]ssa.Instruction{phi}, cont.Instrs...)

		return phi
	}

	switch {
	case nres == 1:
		if refs := call.Referrers(); refs != nil && len(*refs) > 0 {
			replaceUses(call, result(0))
		}
	case nres > 1:
		var extracts []*ssa.Extract

		if refs := call.Referrers(); refs != nil {
			for _, r := range *refs {
				if e, ok := r.(*ssa.Extract); ok {
					extracts = append(extracts, e)
				}
			}
		}

		for _, e := range extracts {
			if refs := e.Referrers(); refs != nil && len(*refs) > 0 {
				replaceUses(e, result(e.Index))
			}

			removeInstr(e)
		}
	}

	f.Blocks = append(f.Blocks, newBlocks...)
	f.Blocks = append(f.Blocks, cont)

	for i, blk := range f.Blocks {
		blk.Index = i
	}

	delete(domCache, f)

	return newLits
}

// cloneAnon deep-copies an anonymous function (blocks, parameters, free variables, nested
// literals) and makes newParent its enclosing function.
func cloneAnon(fn, newParent *ssa.Function, depth int) *ssa.Function {
	nf := new(ssa.Function)
	*nf = *fn
	setField(nf, "parent", newParent)
	nf.AnonFuncs = nil
	nf.Blocks = nil
	nf.Locals = nil

	vmap := map[ssa.Value]ssa.Value{}

	nf.Params = make([]*ssa.Parameter, len(fn.Params))
	for i, prm := range fn.Params {
		np := new(ssa.Parameter)
		*np = *prm
		setField(np, "parent", nf)
		*np.Referrers() = nil
		nf.Params[i] = np
		vmap[prm] = np
	}

	nf.FreeVars = make([]*ssa.FreeVar, len(fn.FreeVars))
	for i, fv := range fn.FreeVars {
		nv := new(ssa.FreeVar)
		*nv = *fv
		setField(nv, "parent", nf)
		*nv.Referrers() = nil
		nf.FreeVars[i] = nv
		vmap[fv] = nv
	}

	bmap := map[*ssa.BasicBlock]*ssa.BasicBlock{}

	for _, ob := range fn.Blocks {
		nb := newBlock(nf, ob.Comment)
		nb.Index = ob.Index
		bmap[ob] = nb
		nf.Blocks = append(nf.Blocks, nb)
	}

	if fn.Recover != nil {
		nf.Recover = bmap[fn.Recover]
	}

	var clones []ssa.Instruction

	for _, ob := range fn.Blocks {
		nb := bmap[ob]

		for _, in := range ob.Instrs {
			c := cloneInstr(in)
			setBlock(c, nb)

			if v, ok := in.(ssa.Value); ok {
				vmap[v] = c.(ssa.Value)
			}

			if al, ok := c.(*ssa.Alloc); ok && !al.Heap {
				nf.Locals = append(nf.Locals, al)
			}

			nb.Instrs = append(nb.Instrs, c)
			clones = append(clones, c)
		}

		for _, sb := range ob.Succs {
			nb.Succs = append(nb.Succs, bmap[sb])
		}

		for _, pb := range ob.Preds {
			nb.Preds = append(nb.Preds, bmap[pb])
		}
	}

	if depth < 3 {
		for _, c := range clones {
			if mc, ok := c.(*ssa.MakeClosure); ok {
				if afn, ok := mc.Fn.(*ssa.Function); ok && afn.Parent() == fn {
					nfn := cloneAnon(afn, nf, depth+1)
					mc.Fn = nfn
					cloneSite[nfn] = mc
					nf.AnonFuncs = append(nf.AnonFuncs, nfn)
				}
			}
		}
	}

	var buf [8]*ssa.Value

	for _, c := range clones {
		for _, op := range c.Operands(buf[:0]) {
			if *op == nil {
				continue
			}

			if nv, ok := vmap[*op]; ok {
				*op = nv
			}

			addReferrer(*op, c)
		}
	}

	return nf
}

func removeInstr(in ssa.Instruction) {
	b := in.Block()
	out := b.Instrs[:0:0]

	for _, x := range b.Instrs {
		if x != in {
			out = append(out, x)
		}
	}

	b.Instrs = out

	var buf [8]*ssa.Value

	for _, op := range in.Operands(buf[:0]) {
		removeReferrer(*op, in)
	}
}

// sanityInline re-checks the structural invariants the engines rely on.
func sanityInline(f *ssa.Function) error {
	inFn := map[*ssa.BasicBlock]bool{}
	defd := map[ssa.Value]bool{}

	for i, b := range f.Blocks {
		if b.Index != i {
			return fmt.Errorf("block index %d != %d", b.Index, i)
		}

		if b.Parent() != f {
			return fmt.Errorf("block %d has wrong parent", i)
		}

		inFn[b] = true

		for _, in := range b.Instrs {
			if in.Block() != b {
				return fmt.Errorf("b%d: instruction %s has wrong block", i, in)
			}

			if v, ok := in.(ssa.Value); ok {
				defd[v] = true
			}
		}
	}

	var buf [8]*ssa.Value

	for _, b := range f.Blocks {
		for _, s := range b.Succs {
			if !inFn[s] {
				return fmt.Errorf("b%d: successor outside the function", b.Index)
			}

			found := false

			for _, pb := range s.Preds {
				if pb == b {
					found = true
				}
			}

			if !found {
				return fmt.Errorf("b%d → b%d: missing pred edge", b.Index, s.Index)
			}
		}

		for _, pb := range b.Preds {
			if !inFn[pb] {
				return fmt.Errorf("b%d: predecessor outside the function", b.Index)
			}
		}

		for k, in := range b.Instrs {
			if phi, ok := in.(*ssa.Phi); ok && len(phi.Edges) != len(b.Preds) {
				return fmt.Errorf("b%d: phi arity %d != %d preds", b.Index, len(phi.Edges), len(b.Preds))
			}

			last := k == len(b.Instrs)-1

			switch in.(type) {
			case *ssa.If:
				if !last || len(b.Succs) != 2 {
					return fmt.Errorf("b%d: malformed If", b.Index)
				}
			case *ssa.Jump:
				if !last || len(b.Succs) != 1 {
					return fmt.Errorf("b%d: malformed Jump", b.Index)
				}
			case *ssa.Return, *ssa.Panic:
				if !last || len(b.Succs) != 0 {
					return fmt.Errorf("b%d: malformed exit", b.Index)
				}
			}

			for _, op := range in.Operands(buf[:0]) {
				switch v := (*op).(type) {
				case nil:
				case *ssa.Parameter:
					if v.Parent() != f {
						return fmt.Errorf("b%d: %s uses a parameter of %s", b.Index, in, v.Parent().Name())
					}
				case ssa.Instruction:
					if !defd[v.(ssa.Value)] {
						return fmt.Errorf("b%d: %s uses %s which is not defined in the function", b.Index, in, (*op).Name())
					}
				}
			}
		}
	}

	return nil
}

// ---------- anchors ----------

func (p *Program) isAnchor(name string) bool {
	return p.anchors[name]
}

// MarkAnchor registers a function a rule refers to by name: calls to it are never inlined.
func (p *Program) MarkAnchor(f *ssa.Function) {
	if f == nil {
		return
	}

	if p.anchorsSeen == nil {
		p.anchorsSeen = map[string]bool{}
	}

	p.anchorsSeen[FuncName(rootFunc(f))] = true
}

// ---------- dominators (recomputed; go/ssa's own tree is stale after inlining) ----------

var domCache = map[*ssa.Function]map[*ssa.BasicBlock]map[*ssa.BasicBlock]bool{}

// dominates reports whether block a dominates block b (same function).
func dominates(a, b *ssa.BasicBlock) bool {
	f := a.Parent()

	dom, ok := domCache[f]
	if !ok {
		dom = computeDominators(f)
		domCache[f] = dom
	}

	return dom[b][a]
}

func computeDominators(f *ssa.Function) map[*ssa.BasicBlock]map[*ssa.BasicBlock]bool {
	// reachable blocks from entry
	reach := map[*ssa.BasicBlock]bool{}

	var order []*ssa.BasicBlock

	var dfs func(b *ssa.BasicBlock)

	dfs = func(b *ssa.BasicBlock) {
		if reach[b] {
			return
		}

		reach[b] = true
		order = append(order, b)

		for _, s := range b.Succs {
			dfs(s)
		}
	}

	dfs(f.Blocks[0])

	if f.Recover != nil {
		dfs(f.Recover)
	}

	dom := map[*ssa.BasicBlock]map[*ssa.BasicBlock]bool{}

	for _, b := range order {
		if b == f.Blocks[0] || b == f.Recover {
			dom[b] = map[*ssa.BasicBlock]bool{b: true}

			continue
		}

		all := map[*ssa.BasicBlock]bool{}
		for _, x := range order {
			all[x] = true
		}

		dom[b] = all
	}

	for changed := true; changed; {
		changed = false

		for _, b := range order {
			if b == f.Blocks[0] || b == f.Recover {
				continue
			}

			var inter map[*ssa.BasicBlock]bool

			for _, pb := range b.Preds {
				if !reach[pb] {
					continue
				}

				if inter == nil {
					inter = map[*ssa.BasicBlock]bool{}
					for k := range dom[pb] {
						inter[k] = true
					}

					continue
				}

				for k := range inter {
					if !dom[pb][k] {
						delete(inter, k)
					}
				}
			}

			if inter == nil {
				inter = map[*ssa.BasicBlock]bool{}
			}

			inter[b] = true

			if len(inter) != len(dom[b]) {
				dom[b] = inter
				changed = true
			}
		}
	}

	return dom
}

var _ = token.NoPos

// Normalize brings the loaded program into the normal form the rules are written against.
func (p *Program) Normalize() {
	p.anchors = map[string]bool{}
	for _, a := range anchorTable {
		p.anchors[a.Name] = true
	}

	for _, n := range primitiveAnchors {
		p.anchors[n] = true
	}

	p.resolveRenamedAnchors()

	p.Inline = p.InlineAll()
}

// sigOf renders a function's signature without parameter names (and, for methods, without the receiver).
func sigOf(f *ssa.Function) string {
	sig := f.Signature
	part := func(t *types.Tuple) string {
		var ps []string
		for i := range t.Len() {
			ps = append(ps, trimMod(types.TypeString(t.At(i).Type(), nil)))
		}

		return "(" + strings.Join(ps, ",") + ")"
	}

	v := ""
	if sig.Variadic() {
		v = "..."
	}

	return part(sig.Params()) + v + part(sig.Results())
}

// resolveRenamedAnchors: an anchor of the table that no longer exists under its name is looked for
// under another name — the only unexported function of the same package and receiver with the same
// signature that is not itself an anchor. A unique candidate is adopted (and protected from
// inlining); otherwise the anchor stays unresolved and the rules that need it report that.
func (p *Program) resolveRenamedAnchors() {
	p.renamed = map[string]*ssa.Function{}
	p.canonName = map[*ssa.Function]string{}

	byName := map[string]*ssa.Function{}

	for _, f := range p.AllOwnFuncs() {
		if f.Parent() == nil {
			byName[FuncName(f)] = f
		}
	}

	prefixOf := func(name string) string { // "(*pkg/x.T)." or "pkg/x."
		return name[:strings.LastIndex(name, ".")+1]
	}

	for _, a := range anchorTable {
		if _, ok := byName[a.Name]; ok || a.Sig == "" {
			continue
		}

		var cands []*ssa.Function

		for n, f := range byName {
			if prefixOf(n) != prefixOf(a.Name) || p.anchors[n] || !isUnexported(f.Name()) || sigOf(f) != a.Sig {
				continue
			}

			cands = append(cands, f)
		}

		if len(cands) == 1 {
			p.renamed[a.Name] = cands[0]
			p.canonName[cands[0]] = a.Name[strings.LastIndex(a.Name, ".")+1:]
			p.anchors[FuncName(cands[0])] = true
			p.Renames = append(p.Renames, a.Name+" → "+FuncName(cands[0]))
		}
	}

	sort.Strings(p.Renames)
}

// StaleAnchors lists unexported functions a rule asked for by name that are missing from the
// anchor table (they may have been inlined into their callers, so the run cannot be trusted).
func (p *Program) StaleAnchors() []string {
	if p.anchors == nil {
		return nil
	}

	var out []string

	for n := range p.anchorsSeen {
		if !p.anchors[n] && isUnexported(lastName(n)) {
			out = append(out, "anchor table is stale: "+n+" is requested by a rule but not registered (regenerate anchors_gen.go)")
		}
	}

	sort.Strings(out)

	return out
}

func lastName(fn string) string {
	if i := strings.LastIndex(fn, "."); i >= 0 {
		fn = fn[i+1:]
	}

	return fn
}

// GenAnchors runs every rule on the raw and on the normalised program and prints the table of
// unexported functions requested by name.
func GenAnchors(p *Program, w io.Writer) {
	runAll := func() {
		for _, info := range registry {
			func() {
				defer func() { _ = recover() }()

				info.Run(NewCtx(p, info.ID))
			}()
		}
	}

	runAll()

	p.anchors = map[string]bool{}
	for n := range p.anchorsSeen {
		p.anchors[n] = true
	}

	for _, n := range primitiveAnchors {
		p.anchors[n] = true
	}

	p.Inline = p.InlineAll()

	runAll()

	var names []string

	for n := range p.anchorsSeen {
		if isUnexported(lastName(n)) {
			names = append(names, n)
		}
	}

	sort.Strings(names)

	fmt.Fprintln(w, "// Code generated by `cosilint -gen-anchors`; DO NOT EDIT.")
	fmt.Fprintln(w)
	fmt.Fprintln(w, "package lint")
	fmt.Fprintln(w)
	fmt.Fprintln(w, "// anchorTable lists the unexported functions that rules resolve by name. Calls to them are kept")
	fmt.Fprintln(w, "// as calls by the inlining normal form; every other unexported same-package helper is inlined.")
	fmt.Fprintln(w, "// Sig is the signature at the time the table was generated: an anchor that was merely renamed is")
	fmt.Fprintln(w, "// found again through it (see resolveRenamedAnchors).")
	fmt.Fprintln(w, "var anchorTable = []struct{ Name, Sig string }{")

	byName := map[string]*ssa.Function{}
	for _, f := range p.AllOwnFuncs() {
		if f.Parent() == nil {
			byName[FuncName(f)] = f
		}
	}

	for _, n := range names {
		sig := ""
		if f := byName[n]; f != nil {
			sig = sigOf(f)
		}

		fmt.Fprintf(w, "\t{%q, %q},\n", n, sig)
	}

	fmt.Fprintln(w, "}")
}
