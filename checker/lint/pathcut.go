package lint

import (
	"fmt"
	"strings"

	"golang.org/x/tools/go/ssa"
)

// E1 — path-cut reachability over the SSA control-flow graph.
//
// Obligation form: "every path from START to a TARGET instruction passes an ENABLING event",
// decided by deleting the enabling nodes/edges and testing reachability. The analysis is
// path-insensitive apart from the labelled If edges, i.e. it over-approximates feasible paths and
// can only err towards reporting.

// Loc is a position inside a function: scanning starts at instruction index I of block B.
type Loc struct {
	B *ssa.BasicBlock
	I int
	// Known seeds TrackEq searches with the fact of the edge this location was entered through.
	Known string
	// Pred, when set, is the block the location is entered from (the location is the successor of
	// one of Pred's edges): phis of B are bound accordingly and the edge's own outcome is known.
	Pred *ssa.BasicBlock

	env *pathEnv // path knowledge recorded when the location was found by a resolved search
}

// EdgeInfo describes one outgoing edge of an If.
type EdgeInfo struct {
	If    *ssa.If
	Taken bool
	Cond  ssa.Value // condition after phi resolution for the path taken
	// RawCond is the condition as written (after same-block phi resolution only)
	RawCond ssa.Value
	// AnyOf: disjunctions implied by this edge (each group: at least one member holds), as
	// conditions and rendered as facts (group → member → facts); see impliedAnyOf
	AnyOf      [][]CondTruth
	AnyOfFacts [][][]string
	Facts      []string
}

// InstrPred selects instructions.
type InstrPred func(ssa.Instruction) bool

// EdgePred selects If edges.
type EdgePred func(EdgeInfo) bool

// CutSpec lists the enabling events of an obligation.
type CutSpec struct {
	Nodes InstrPred
	Edges EdgePred
	// GoDeferCount: by default a `go f()` / `defer f()` instruction never counts as an enabling
	// node (spawning or scheduling a call is not the call). Rules whose event IS the go/defer
	// statement itself set this.
	GoDeferCount bool
	// Collect, when set, receives the successor location of every edge that Edges cuts (with the
	// path knowledge at that point): "the places reached through an edge carrying fact F".
	Collect func(Loc)
	// TrackEq makes the search path-sensitive for comparisons of one pure value (a parameter, a
	// field load, a local) with constants: an edge whose fact `eq(X,const:a)` / `ne(X,const:a)`
	// contradicts an `eq(X,const:b)` already taken on the path is infeasible and pruned. Rules opt
	// in only where X is not written between the comparisons.
	TrackEq bool
}

// Entry is the start location of a function.
func Entry(f *ssa.Function) []Loc {
	if f == nil || len(f.Blocks) == 0 {
		return nil
	}

	return []Loc{{B: f.Blocks[0]}}
}

// After returns the locations just after each instruction selected by pred.
func After(f *ssa.Function, pred InstrPred) []Loc {
	var out []Loc

	for _, b := range f.Blocks {
		for i, in := range b.Instrs {
			if pred(in) {
				out = append(out, Loc{B: b, I: i + 1})
			}
		}
	}

	return out
}

// Find returns all instructions of f selected by pred, in block order.
func Find(f *ssa.Function, pred InstrPred) []ssa.Instruction {
	var out []ssa.Instruction

	if f == nil {
		return nil
	}

	for _, b := range f.Blocks {
		for _, in := range b.Instrs {
			if pred(in) {
				out = append(out, in)
			}
		}
	}

	return out
}

type pstate struct {
	blk   *ssa.BasicBlock
	idx   int
	pred  *ssa.BasicBlock
	prev  *pstate
	note  string
	known string // TrackEq: "X=const;..." facts taken on the path, sorted
	env   *pathEnv
}

// PathInsensitive switches the value-identity path sensitivity (pathsense.go) off (debugging aid).
var PathInsensitive bool

const maxReachStates = 60000

// Reach reports whether some TARGET is reachable from starts without passing an enabling event,
// and if so a witness path.
func (p *Program) Reach(starts []Loc, target InstrPred, cut CutSpec) (bool, []string) {
	bad, w, overflow := p.reach(starts, target, cut, !PathInsensitive)
	if overflow {
		// too many distinct path states: fall back to the path-insensitive search (a superset of paths)
		bad, w, _ = p.reach(starts, target, cut, false)
	}

	return bad, w
}

func (p *Program) reach(starts []Loc, target InstrPred, cut CutSpec, sensitive bool) (bool, []string, bool) {
	type key struct {
		b, pred *ssa.BasicBlock
		known   string
		env     string
	}

	seen := map[key]bool{}

	// descriptions computed while a step is evaluated see the joins bound on that path
	savedEnv := p.curEnv
	defer func() { p.curEnv = savedEnv }()

	var sense *funcSense

	if sensitive && len(starts) > 0 && starts[0].B != nil {
		sense = p.sense(starts[0].B.Parent())
	}

	var queue []*pstate
	for _, s := range starts {
		env := emptyEnv
		if sense != nil && s.B != nil {
			if s.env != nil {
				env = s.env
			} else if s.Pred != nil && s.I == 0 {
				env = seedEdge(s.Pred, s.B).enter(sense, s.B, s.Pred)
			} else {
				env = seedEnv(s.B)
			}
		}

		queue = append(queue, &pstate{blk: s.B, idx: s.I, pred: s.Pred, known: s.Known, env: env})
	}

	for len(queue) > 0 {
		cur := queue[0]
		queue = queue[1:]

		if cur.idx == 0 {
			k := key{cur.blk, cur.pred, cur.known, cur.env.key}
			if seen[k] {
				continue
			}

			seen[k] = true

			if len(seen) > maxReachStates {
				return false, nil, true
			}
		}

		b := cur.blk
		stopped := false
		p.curEnv = cur.env

		for i := cur.idx; i < len(b.Instrs); i++ {
			in := b.Instrs[i]

			if cur.env.withResolved(in, target) {
				return true, p.witness(cur, in), false
			}

			if cut.Nodes != nil && (cut.GoDeferCount || !isGoOrDefer(in)) && cur.env.withResolved(in, cut.Nodes) {
				// (a `go f()` / `defer f()` of an enabling call is not that call happening here)
				stopped = true

				break
			}
		}

		if stopped || len(b.Instrs) == 0 {
			continue
		}

		if ifi, ok := b.Instrs[len(b.Instrs)-1].(*ssa.If); ok {
			cond := resolvePhiCond(ifi, cur.pred)
			rawCond := cond

			var (
				aKey     string
				aNeg     bool
				aDecided *bool
				abx, aby *ssa.BasicBlock
			)

			if sense != nil {
				cond = cur.env.resolve(cond, 0)
				aKey, aNeg, aDecided, abx, aby = atomOf(cond)
			}

			for k, succ := range b.Succs {
				taken := k == 0
				facts := p.Facts(cond, taken)

				if len(facts) == 1 && facts[0] == "never" {
					continue
				}

				if rawCond != cond {
					// the test as written is still what the code evaluates on this edge: keep its facts
					// (first), followed by the facts of the condition as resolved on this path
					raw := p.Facts(rawCond, taken)
					if !(len(raw) == 1 && (raw[0] == "never" || raw[0] == "always")) {
						facts = append(append([]string{}, raw...), facts...)
					}
				}

				env := cur.env

				if sense != nil {
					want := taken != aNeg // truth of the atom on this edge

					if aDecided != nil && *aDecided != want {
						continue
					}

					if t, ok := env.known(aKey); ok {
						if t != want {
							continue
						}

						if _, direct := env.facts[aKey]; !direct && aDecided == nil && sense.multi[aKey] {
							env = env.withFact(aKey, want, abx, aby)
						}
					} else if aDecided == nil && sense.multi[aKey] {
						env = env.withFact(aKey, want, abx, aby)
					}
				}

				e := EdgeInfo{If: ifi, Taken: taken, Cond: cond, RawCond: rawCond, Facts: facts}

				for _, grp := range p.impliedAnyOf(cond, taken, 0) {
					var gf [][]string

					for _, ct := range grp {
						gf = append(gf, p.factsD(ct.Cond, ct.Truth, 1))
					}

					e.AnyOf = append(e.AnyOf, grp)
					e.AnyOfFacts = append(e.AnyOfFacts, gf)
				}

				if cut.Edges != nil && cut.Edges(e) {
					if cut.Collect != nil {
						cenv := env
						if sense != nil {
							cenv = env.enter(sense, succ, b)
						}

						known, _ := trackEq(cur.known, facts[0])
						cut.Collect(Loc{B: succ, Pred: b, Known: known, env: cenv})
					}

					continue
				}

				known := cur.known

				if cut.TrackEq {
					var feasible bool

					known, feasible = trackEq(cur.known, facts[0])
					if !feasible {
						continue
					}
				}

				if sense != nil {
					env = env.enter(sense, succ, b)
				}

				queue = append(queue, &pstate{blk: succ, pred: b, prev: cur, note: "[" + strings.Join(facts[:1], ",") + "]", known: known, env: env})
			}

			continue
		}

		for _, succ := range b.Succs {
			env := cur.env
			if sense != nil {
				env = env.enter(sense, succ, b)
			}

			queue = append(queue, &pstate{blk: succ, pred: b, prev: cur, known: cur.known, env: env})
		}
	}

	return false, nil, false
}

// resolvePhiCond: if the If condition is a phi of the If's own block, pick the incoming value
// for the predecessor we came from (jump threading for `a && b` style conditions).
func resolvePhiCond(ifi *ssa.If, pred *ssa.BasicBlock) ssa.Value {
	cond := ifi.Cond

	phi, ok := cond.(*ssa.Phi)
	if !ok || pred == nil || phi.Block() != ifi.Block() {
		return cond
	}

	for i, pb := range ifi.Block().Preds {
		if pb == pred && i < len(phi.Edges) {
			return phi.Edges[i]
		}
	}

	return cond
}

func (p *Program) witness(end *pstate, target ssa.Instruction) []string {
	var path []string

	for s := end; s != nil; s = s.prev {
		line := ""

		for _, in := range s.blk.Instrs {
			if in.Pos().IsValid() {
				line = p.Pos(in.Pos())
				if i := strings.LastIndex(line, ":"); i >= 0 {
					line = line[i:]
				}

				break
			}
		}

		path = append([]string{fmt.Sprintf("b%d%s%s", s.blk.Index, line, s.note)}, path...)
	}

	return append(path, fmt.Sprintf("=> %s @%s", instrString(target), p.Pos(target.Pos())))
}

func instrString(in ssa.Instruction) string {
	if v, ok := in.(ssa.Value); ok {
		return v.Name() + " = " + in.String()
	}

	return in.String()
}

// ---------- predicates ----------

// IsReturn selects Return instructions.
func IsReturn(in ssa.Instruction) bool {
	_, ok := in.(*ssa.Return)

	// the synthetic return of the recover block (reached only after a recovered panic) is not a normal exit
	return ok && in.Block() != in.Parent().Recover
}

// IsExit selects Return and Panic instructions.
func IsExit(in ssa.Instruction) bool {
	switch in.(type) {
	case *ssa.Return, *ssa.Panic:
		return true
	}

	return false
}

// CallTo selects call/go/defer instructions whose canonical callee name matches one of the globs.
func (p *Program) CallTo(globs ...string) InstrPred {
	return func(in ssa.Instruction) bool {
		c, ok := in.(ssa.CallInstruction)
		if !ok {
			return false
		}

		return GlobAny(globs, p.CalleeName(c))
	}
}

// PlainCallTo is CallTo restricted to ordinary calls (not go/defer).
func (p *Program) PlainCallTo(globs ...string) InstrPred {
	return func(in ssa.Instruction) bool {
		c, ok := in.(*ssa.Call)
		if !ok {
			return false
		}

		return GlobAny(globs, p.CalleeName(c))
	}
}

// OrInstr is the union of instruction predicates.
func OrInstr(ps ...InstrPred) InstrPred {
	return func(in ssa.Instruction) bool {
		for _, f := range ps {
			if f != nil && f(in) {
				return true
			}
		}

		return false
	}
}

// FactEdge selects edges carrying a fact matching one of the globs.
func FactEdge(globs ...string) EdgePred {
	return func(e EdgeInfo) bool {
		for _, f := range e.Facts {
			if GlobAny(globs, f) {
				return true
			}
		}

		// a disjunction all of whose alternatives are enabling
		for _, grp := range e.AnyOfFacts {
			all := len(grp) > 0

			for _, member := range grp {
				hit := false

				for _, f := range member {
					if GlobAny(globs, f) {
						hit = true
					}
				}

				if !hit {
					all = false
				}
			}

			if all {
				return true
			}
		}

		return false
	}
}

// OrEdge is the union of edge predicates.
func OrEdge(ps ...EdgePred) EdgePred {
	return func(e EdgeInfo) bool {
		for _, f := range ps {
			if f != nil && f(e) {
				return true
			}
		}

		// an implied disjunction each alternative of which is enabling for one of the predicates
		for gi, grp := range e.AnyOf {
			all := len(grp) > 0

			for mi, ct := range grp {
				var facts []string
				if gi < len(e.AnyOfFacts) && mi < len(e.AnyOfFacts[gi]) {
					facts = e.AnyOfFacts[gi][mi]
				}

				member := EdgeInfo{If: e.If, Taken: ct.Truth, Cond: ct.Cond, RawCond: ct.Cond, Facts: facts}
				hit := false

				for _, f := range ps {
					if f != nil && f(member) {
						hit = true
					}
				}

				if !hit {
					all = false
				}
			}

			if all {
				return true
			}
		}

		return false
	}
}

// MapWriteOnField selects map updates and delete() on a map loaded from a struct field.
func MapWriteOnField(structName, field string) InstrPred {
	return func(in ssa.Instruction) bool {
		switch x := in.(type) {
		case *ssa.MapUpdate:
			return LoadsField(x.Map, structName, field)
		case *ssa.Call:
			if b, ok := x.Call.Value.(*ssa.Builtin); ok && b.Name() == "delete" {
				return LoadsField(x.Call.Args[0], structName, field)
			}
		}

		return false
	}
}

// LoadsField reports whether v is a load of struct field `field` of a struct named structName
// (structName "" matches any struct).
func LoadsField(v ssa.Value, structName, field string) bool {
	switch x := v.(type) {
	case *ssa.UnOp:
		fa, ok := x.X.(*ssa.FieldAddr)
		if !ok {
			return false
		}

		sn, fn := FieldOf(fa.X, fa.Field)

		return fn == field && (structName == "" || sn == structName)
	case *ssa.Field:
		sn, fn := FieldOf(x.X, x.Field)

		return fn == field && (structName == "" || sn == structName)
	}

	return false
}

// StoreToField selects stores to a struct field.
func StoreToField(structName, field string) InstrPred {
	return func(in ssa.Instruction) bool {
		st, ok := in.(*ssa.Store)
		if !ok {
			return false
		}

		fa, ok := st.Addr.(*ssa.FieldAddr)
		if !ok {
			return false
		}

		sn, fn := FieldOf(fa.X, fa.Field)

		return fn == field && (structName == "" || sn == structName)
	}
}

// CalleeFuncs resolves the statically known callees of a call (static, closure value, or the
// deferred/go variants thereof).
func CalleeFuncs(c ssa.CallInstruction) []*ssa.Function {
	if f := StaticOrClosureCallee(c); f != nil {
		return []*ssa.Function{f}
	}

	return nil
}

// ReachesCall reports whether function f (transitively through statically resolved calls inside
// the module, up to depth) contains an instruction selected by pred.
func (p *Program) ReachesCall(f *ssa.Function, pred InstrPred, depth int) bool {
	seen := map[*ssa.Function]bool{}

	var walk func(f *ssa.Function, d int) bool

	walk = func(f *ssa.Function, d int) bool {
		if f == nil || seen[f] || len(f.Blocks) == 0 {
			return false
		}

		seen[f] = true

		for _, b := range f.Blocks {
			for _, in := range b.Instrs {
				if pred(in) {
					return true
				}

				if d <= 0 {
					continue
				}

				if c, ok := in.(ssa.CallInstruction); ok {
					for _, cal := range CalleeFuncs(c) {
						if cal.Pkg != nil && !strings.HasPrefix(cal.Pkg.Pkg.Path()+"/", Mod) {
							continue
						}

						if walk(cal, d-1) {
							return true
						}
					}
				}

				if mc, ok := in.(*ssa.MakeClosure); ok {
					if fn, ok := mc.Fn.(*ssa.Function); ok && walk(fn, d-1) {
						return true
					}
				}
			}
		}

		return false
	}

	return walk(f, depth)
}

func isGoOrDefer(in ssa.Instruction) bool {
	switch in.(type) {
	case *ssa.Go, *ssa.Defer:
		return true
	}

	return false
}

// trackEq updates the set of `X=const` facts known on a path with one more edge fact; it reports
// false when the new fact contradicts what is known. Only comparisons of a call-free description
// with a constant are tracked.
func trackEq(known, fact string) (string, bool) {
	var op string

	switch {
	case strings.HasPrefix(fact, "eq("):
		op = "eq"
	case strings.HasPrefix(fact, "ne("):
		op = "ne"
	default:
		return known, true
	}

	body := strings.TrimSuffix(fact[3:], ")")

	i := strings.LastIndex(body, ",const:")
	if i < 0 {
		return known, true
	}

	x, k := body[:i], body[i+1:]
	if strings.Contains(x, "call:") || strings.Contains(x, "phi(") {
		return known, true
	}

	for _, kv := range strings.Split(known, ";") {
		if kv == "" {
			continue
		}

		j := strings.LastIndex(kv, "=")
		if kv[:j] != x {
			continue
		}

		if op == "eq" {
			return known, kv[j+1:] == k
		}

		return known, kv[j+1:] != k
	}

	if op == "ne" {
		return known, true
	}

	if known == "" {
		return x + "=" + k, true
	}

	parts := append(strings.Split(known, ";"), x+"="+k)
	sortStringsLocal(parts)

	return strings.Join(parts, ";"), true
}

func sortStringsLocal(s []string) {
	for i := 1; i < len(s); i++ {
		for j := i; j > 0 && s[j] < s[j-1]; j-- {
			s[j], s[j-1] = s[j-1], s[j]
		}
	}
}
