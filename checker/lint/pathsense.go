package lint

import (
	"fmt"
	"go/constant"
	"go/token"
	"go/types"
	"sort"
	"strings"

	"golang.org/x/tools/go/ssa"
)

// N2 — value-identity path sensitivity for E1.
//
// SSA values are immutable, so a comparison of the same two values has the same outcome every time
// it is evaluated on one path (until the defining instruction is executed again in a loop). Reach
// uses that to prune infeasible paths, which matters wherever the same outcome is tested twice:
// `err` returned by an (inlined) helper and tested again by the caller, a hoisted temporary, a
// condition split over two ifs. Three ingredients:
//
//   - phi bindings: entering block B from predecessor P binds every phi of B that (transitively)
//     feeds an If condition to its incoming value for P; conditions are evaluated on the bound values;
//   - facts: the truth of an atom (a comparison of two value identities) taken on the path is
//     remembered while both values stay defined, and contradicting edges are pruned;
//   - constants and never-nil values (MakeInterface, allocations, error constructors) decide an atom
//     outright.
//
// Pruning only removes infeasible paths, so it can only turn reports into non-reports where the
// reported path cannot happen; it never hides a feasible path.

type factEntry struct {
	truth  bool
	bx, by *ssa.BasicBlock // defining blocks of the operands (nil for constants/parameters)
}

type pathEnv struct {
	bind  map[*ssa.Phi]ssa.Value
	facts map[string]factEntry
	key   string
}

var emptyEnv = &pathEnv{}

func (e *pathEnv) mkKey() {
	var parts []string

	for phi, v := range e.bind {
		parts = append(parts, fmt.Sprintf("%p=%s", phi, valueID(v)))
	}

	for k, f := range e.facts {
		parts = append(parts, fmt.Sprintf("%s:%v", k, f.truth))
	}

	sort.Strings(parts)
	e.key = strings.Join(parts, ";")
}

// funcSense caches, per function, which phis feed conditions and which atoms are tested more than once.
type funcSense struct {
	relevant map[*ssa.Phi]bool
	multi    map[string]bool
	phisOf   map[*ssa.BasicBlock][]*ssa.Phi
	live     map[*ssa.Phi]map[*ssa.BasicBlock]bool
}

var senseCache = map[*ssa.Function]*funcSense{}

func resetSense() { senseCache = map[*ssa.Function]*funcSense{} }

func isCmp(op token.Token) bool {
	switch op {
	case token.EQL, token.NEQ, token.LSS, token.LEQ, token.GTR, token.GEQ:
		return true
	}

	return false
}

// stripIface resolves a value to the value whose identity decides comparisons: through interface
// re-typing, single-valued phis and store→load forwarding — but not through MakeInterface (an
// interface holding a nil pointer is not a nil interface).
func stripIface(v ssa.Value) ssa.Value {
	for range 32 {
		switch x := v.(type) {
		case *ssa.ChangeInterface:
			v = x.X
		case *ssa.UnOp:
			if x.Op != token.MUL {
				return v
			}

			s := forwardedStore(x)
			if s == nil {
				return v
			}

			v = s.Val
		case *ssa.Phi:
			var one ssa.Value

			for _, e := range x.Edges {
				if e == ssa.Value(x) {
					continue
				}

				if one == nil {
					one = e
				} else if one != e {
					return v
				}
			}

			if one == nil {
				return v
			}

			v = one
		default:
			return v
		}
	}

	return v
}

func (p *Program) sense(f *ssa.Function) *funcSense {
	if s, ok := senseCache[f]; ok {
		return s
	}

	s := &funcSense{relevant: map[*ssa.Phi]bool{}, multi: map[string]bool{}, phisOf: map[*ssa.BasicBlock][]*ssa.Phi{}}
	senseCache[f] = s

	var mark func(v ssa.Value, depth int)

	mark = func(v ssa.Value, depth int) {
		if depth > 8 {
			return
		}

		switch x := stripIface(v).(type) {
		case *ssa.Phi:
			if s.relevant[x] {
				return
			}

			s.relevant[x] = true

			for _, e := range x.Edges {
				mark(e, depth+1)
			}
		case *ssa.BinOp:
			if isCmp(x.Op) {
				mark(x.X, depth+1)
				mark(x.Y, depth+1)
			}
		case *ssa.UnOp:
			if x.Op == token.NOT {
				mark(x.X, depth+1)
			}
		}
	}

	var ifs []*ssa.If

	for _, b := range f.Blocks {
		if len(b.Instrs) == 0 {
			continue
		}

		if ifi, ok := b.Instrs[len(b.Instrs)-1].(*ssa.If); ok {
			ifs = append(ifs, ifi)
			mark(ifi.Cond, 0)
		}
	}

	// joined operands of calls, stores, sends and returns: resolved for target / enabling-node
	// predicates (resolveInstr, resolveReturn)
	for _, b := range f.Blocks {
		for _, in := range b.Instrs {
			switch in.(type) {
			case *ssa.Call, *ssa.Store, *ssa.Send, *ssa.MapUpdate, *ssa.Return:
				var buf [16]*ssa.Value

				for _, op := range in.Operands(buf[:0]) {
					if *op == nil {
						continue
					}

					mark(*op, 0)
				}
			}
		}
	}

	for _, b := range f.Blocks {
		for _, in := range b.Instrs {
			phi, ok := in.(*ssa.Phi)
			if !ok {
				break
			}

			if s.relevant[phi] {
				s.phisOf[b] = append(s.phisOf[b], phi)
			}
		}
	}

	// liveness: a binding is kept only while a use of the phi is still reachable
	s.live = map[*ssa.Phi]map[*ssa.BasicBlock]bool{}

	for phi := range s.relevant {
		live := map[*ssa.BasicBlock]bool{}

		var back func(b *ssa.BasicBlock)

		back = func(b *ssa.BasicBlock) {
			if live[b] {
				return
			}

			live[b] = true

			for _, pb := range b.Preds {
				back(pb)
			}
		}

		var uses func(v ssa.Value, d int, seen map[ssa.Value]bool)

		uses = func(v ssa.Value, d int, seen map[ssa.Value]bool) {
			if d > 8 || seen[v] || v.Referrers() == nil {
				return
			}

			seen[v] = true

			for _, r := range *v.Referrers() {
				if r.Block() == nil {
					continue
				}

				switch x := r.(type) {
				case *ssa.Phi:
					// the use is the edge: live in the corresponding predecessor
					for i, e := range x.Edges {
						if e == v && i < len(x.Block().Preds) {
							back(x.Block().Preds[i])
						}
					}

					uses(x, d+1, seen)
				case *ssa.BinOp, *ssa.UnOp, *ssa.ChangeInterface:
					back(r.Block())
					uses(x.(ssa.Value), d+1, seen)
				default:
					back(r.Block())
				}
			}
		}

		uses(phi, 0, map[ssa.Value]bool{})
		s.live[phi] = live
	}

	// atoms that more than one If can test
	count := map[string]map[*ssa.If]bool{}

	var variants func(v ssa.Value, depth int, seen map[ssa.Value]bool) []ssa.Value

	variants = func(v ssa.Value, depth int, seen map[ssa.Value]bool) []ssa.Value {
		v = stripIface(v)

		phi, ok := v.(*ssa.Phi)
		if !ok || depth > 6 || seen[v] {
			return []ssa.Value{v}
		}

		seen[v] = true

		out := []ssa.Value{v}
		for _, e := range phi.Edges {
			out = append(out, variants(e, depth+1, seen)...)
		}

		return out
	}

	var atoms func(ifi *ssa.If, cond ssa.Value, depth int)

	atoms = func(ifi *ssa.If, cond ssa.Value, depth int) {
		if depth > 6 {
			return
		}

		add := func(k string) {
			if count[k] == nil {
				count[k] = map[*ssa.If]bool{}
			}

			count[k][ifi] = true
		}

		for _, c := range variants(cond, 0, map[ssa.Value]bool{}) {
			switch x := c.(type) {
			case *ssa.UnOp:
				if x.Op == token.NOT {
					atoms(ifi, x.X, depth+1)

					continue
				}
			case *ssa.BinOp:
				if isCmp(x.Op) {
					xs := variants(x.X, 0, map[ssa.Value]bool{})
					ys := variants(x.Y, 0, map[ssa.Value]bool{})

					if len(xs)*len(ys) > 64 {
						continue
					}

					for _, a := range xs {
						for _, b := range ys {
							k, _, _, _, _ := cmpAtom(x.Op, a, b)
							add(k)

							// `a == b` / `a != b` over two booleans ties their outcomes together
							// (known(a), known(a==b) ⇒ known(b)): remember all three
							if (x.Op == token.EQL || x.Op == token.NEQ) && isBoolValue(a) && isBoolValue(b) {
								s.multi[k] = true
								s.multi["T|"+valueID(stripIface(a))] = true
								s.multi["T|"+valueID(stripIface(b))] = true
							}
						}
					}

					continue
				}
			}

			add("T|" + valueID(c))
		}
	}

	for _, ifi := range ifs {
		atoms(ifi, ifi.Cond, 0)
	}

	for k, set := range count {
		if len(set) > 1 {
			s.multi[k] = true
		}
	}

	return s
}

func valueID(v ssa.Value) string {
	if v == nil {
		return "<nil>"
	}

	if c, ok := v.(*ssa.Const); ok {
		if c.Value == nil {
			return "c<nil>"
		}

		return "c<" + c.Value.ExactString() + ">"
	}

	return fmt.Sprintf("%p", v)
}

func defBlock(v ssa.Value) *ssa.BasicBlock {
	if in, ok := v.(ssa.Instruction); ok {
		return in.Block()
	}

	return nil
}

// cmpAtom normalises a comparison to a key plus polarity; decided is non-nil when the outcome is
// known from the operands alone.
func cmpAtom(op token.Token, x, y ssa.Value) (key string, neg bool, decided *bool, bx, by *ssa.BasicBlock) {
	x, y = stripIface(x), stripIface(y)

	switch op {
	case token.NEQ:
		op, neg = token.EQL, true
	case token.GTR:
		op, x, y = token.LSS, y, x
	case token.GEQ:
		op, neg = token.LSS, true
	case token.LEQ:
		op, x, y, neg = token.LSS, y, x, true
	}

	ix, iy := valueID(x), valueID(y)
	if op == token.EQL && iy < ix {
		ix, iy = iy, ix
		x, y = y, x
	}

	key = op.String() + "|" + ix + "|" + iy
	bx, by = defBlock(x), defBlock(y)

	cx, okx := x.(*ssa.Const)
	cy, oky := y.(*ssa.Const)

	switch {
	case okx && oky:
		var r bool

		switch {
		case cx.Value == nil && cy.Value == nil:
			r = op == token.EQL
		case cx.Value == nil || cy.Value == nil:
			if op != token.EQL {
				return key, neg, nil, bx, by
			}

			r = false
		default:
			if cx.Value.Kind() != cy.Value.Kind() && !(isNumeric(cx.Value) && isNumeric(cy.Value)) {
				return key, neg, nil, bx, by
			}

			r = constant.Compare(cx.Value, op, cy.Value)
		}

		return key, neg, &r, bx, by
	case op == token.EQL && (okx && cx.Value == nil && isNilConst(cx) && neverNil(y) || oky && cy.Value == nil && isNilConst(cy) && neverNil(x)):
		r := false

		return key, neg, &r, bx, by
	case okx != oky && isIntType(x.Type()):
		// one constant side: decide by the lower bound of the other side
		var (
			c     *ssa.Const
			other ssa.Value
			cLeft bool
		)

		if okx {
			c, other, cLeft = cx, y, true
		} else {
			c, other = cy, x
		}

		if c.Value != nil && c.Value.Kind() == constant.Int {
			if cv, ok := constant.Int64Val(c.Value); ok {
				if lb := lowerBound(other); lb != lbNegInf {
					switch {
					case op == token.EQL && lb > cv:
						r := false

						return key, neg, &r, bx, by
					case op == token.LSS && !cLeft && lb >= cv: // other < c is false
						r := false

						return key, neg, &r, bx, by
					case op == token.LSS && cLeft && lb > cv: // c < other is true
						r := true

						return key, neg, &r, bx, by
					}
				}
			}
		}

		return key, neg, nil, bx, by
	case op == token.EQL && x == y && !okx:
		// (floating point NaN aside; comparisons of one SSA value with itself do not occur in this tree)
		return key, neg, nil, bx, by
	}

	return key, neg, nil, bx, by
}

func isNumeric(v constant.Value) bool {
	switch v.Kind() {
	case constant.Int, constant.Float:
		return true
	}

	return false
}

// nonNilFuncs: functions of other modules whose (single) result is never nil.
var nonNilFuncs = map[string]bool{
	"fmt.Errorf": true,
	"errors.New": true,
}

var nonNilSummary = map[*ssa.Function]map[int]int{} // 0 unknown/in progress, 1 yes, 2 no

// neverNil reports whether v cannot be nil.
func neverNil(v ssa.Value) bool {
	return neverNilD(v, 0)
}

func neverNilD(v ssa.Value, depth int) bool {
	if depth > 6 {
		return false
	}

	switch x := v.(type) {
	case *ssa.MakeInterface, *ssa.Alloc, *ssa.MakeClosure, *ssa.MakeMap, *ssa.MakeChan, *ssa.MakeSlice, *ssa.FieldAddr, *ssa.IndexAddr, *ssa.Function, *ssa.Global:
		return true
	case *ssa.ChangeInterface:
		return neverNilD(x.X, depth+1)
	case *ssa.Phi:
		if len(x.Edges) == 0 {
			return false
		}

		for _, e := range x.Edges {
			if e == ssa.Value(x) || !neverNilD(e, depth+1) {
				return false
			}
		}

		return true
	case *ssa.Extract:
		if c, ok := x.Tuple.(*ssa.Call); ok {
			return callNeverNil(c, x.Index, depth)
		}
	case *ssa.Call:
		return callNeverNil(x, 0, depth)
	}

	return false
}

func callNeverNil(c *ssa.Call, idx, depth int) bool {
	if c.Call.IsInvoke() {
		return idx == 0 && ctxErrAfterDone(c)
	}

	g := c.Call.StaticCallee()
	if g == nil {
		return false
	}

	if g.Pkg != nil && nonNilFuncs[g.Pkg.Pkg.Path()+"."+g.Name()] {
		return idx == 0
	}

	// status.Error / status.Errorf return nil only for codes.OK (= 0)
	if g.Pkg != nil && g.Pkg.Pkg.Path() == "google.golang.org/grpc/status" && (g.Name() == "Error" || g.Name() == "Errorf") && len(c.Call.Args) > 0 {
		if k, ok := c.Call.Args[0].(*ssa.Const); ok && k.Value != nil && k.Value.Kind() == constant.Int {
			if v, ok := constant.Int64Val(k.Value); ok && v != 0 {
				return idx == 0
			}
		}
	}

	body := g
	if len(body.Blocks) == 0 {
		if o := g.Origin(); o != nil {
			body = o
		}
	}

	if len(body.Blocks) == 0 {
		return false
	}

	if m, ok := nonNilSummary[body]; ok {
		if st, ok := m[idx]; ok {
			return st == 1
		}
	} else {
		nonNilSummary[body] = map[int]int{}
	}

	nonNilSummary[body][idx] = 0 // in progress: recursion answers "no"
	res := true
	rets := 0

	for _, b := range body.Blocks {
		if len(b.Instrs) == 0 || b == body.Recover {
			continue
		}

		r, ok := b.Instrs[len(b.Instrs)-1].(*ssa.Return)
		if !ok {
			continue
		}

		rets++

		if idx >= len(r.Results) || !neverNilD(r.Results[idx], depth+1) {
			res = false
		}
	}

	if rets == 0 {
		res = false
	}

	if res {
		nonNilSummary[body][idx] = 1
	} else {
		nonNilSummary[body][idx] = 2
	}

	return res
}

var synthCache = map[string]ssa.Value{}

// resolve evaluates v under the path's phi bindings, building synthetic comparison nodes where an
// operand changes.
func (e *pathEnv) resolve(v ssa.Value, depth int) ssa.Value {
	if (len(e.bind) == 0 && len(e.facts) == 0) || depth > 8 {
		return v
	}

	if sv := stripIface(v); sv != v {
		if r := e.resolve(sv, depth+1); r != sv {
			return r
		}

		return v
	}

	switch x := v.(type) {
	case *ssa.Phi:
		if b, ok := e.bind[x]; ok {
			return b
		}

		if g := e.gatedValue(x); g != nil {
			return e.resolve(g, depth+1)
		}
	case *ssa.BinOp:
		if !isCmp(x.Op) {
			return v
		}

		nx, ny := e.resolve(x.X, depth+1), e.resolve(x.Y, depth+1)
		if nx == x.X && ny == x.Y {
			return v
		}

		if _, neg, decided, _, _ := cmpAtom(x.Op, nx, ny); decided != nil {
			return ssa.NewConst(constant.MakeBool(*decided != neg), types.Typ[types.Bool])
		}

		k := fmt.Sprintf("%p|%s|%s", x, valueID(nx), valueID(ny))
		if s, ok := synthCache[k]; ok {
			return s
		}

		c := cloneInstr(x).(*ssa.BinOp)
		c.X, c.Y = nx, ny
		synthCache[k] = c

		return c
	case *ssa.UnOp:
		if x.Op != token.NOT {
			return v
		}

		nx := e.resolve(x.X, depth+1)
		if nx == x.X {
			return v
		}

		k := fmt.Sprintf("%p|%s", x, valueID(nx))
		if s, ok := synthCache[k]; ok {
			return s
		}

		c := cloneInstr(x).(*ssa.UnOp)
		c.X = nx
		synthCache[k] = c

		return c
	}

	return v
}

// atomOf gives the atom tested by a (resolved) condition.
func atomOf(cond ssa.Value) (key string, neg bool, decided *bool, bx, by *ssa.BasicBlock) {
	cond = stripIface(cond)

	for {
		u, ok := cond.(*ssa.UnOp)
		if !ok || u.Op != token.NOT {
			break
		}

		neg = !neg
		cond = stripIface(u.X)
	}

	if c, ok := cond.(*ssa.Const); ok && c.Value != nil && c.Value.Kind() == constant.Bool {
		r := constant.BoolVal(c.Value)

		return "T|" + valueID(cond), neg, &r, nil, nil
	}

	if b, ok := cond.(*ssa.BinOp); ok && isCmp(b.Op) {
		k, n, d, x, y := cmpAtom(b.Op, b.X, b.Y)

		return k, neg != n, d, x, y
	}

	return "T|" + valueID(cond), neg, nil, defBlock(cond), nil
}

// enter returns the environment after moving from pred into blk.
func (e *pathEnv) enter(s *funcSense, blk, pred *ssa.BasicBlock) *pathEnv {
	phis := s.phisOf[blk]
	drop := false

	for _, f := range e.facts {
		if f.bx == blk || f.by == blk {
			drop = true

			break
		}
	}

	for k := range e.bind {
		if !s.live[k][blk] {
			drop = true

			break
		}
	}

	if len(phis) == 0 && !drop {
		return e
	}

	ne := &pathEnv{bind: map[*ssa.Phi]ssa.Value{}, facts: map[string]factEntry{}}

	for k, v := range e.bind {
		ne.bind[k] = v
	}

	for k, f := range e.facts {
		if f.bx == blk || f.by == blk {
			continue
		}

		ne.facts[k] = f
	}

	idx := -1

	for i, pb := range blk.Preds {
		if pb == pred {
			idx = i

			break
		}
	}

	for _, phi := range phis {
		if idx < 0 || idx >= len(phi.Edges) {
			delete(ne.bind, phi)

			continue
		}

		in := stripIface(phi.Edges[idx])
		if ph2, ok := in.(*ssa.Phi); ok {
			if b, ok := e.bind[ph2]; ok {
				in = b
			}
		}

		ne.bind[phi] = in
	}

	// a binding whose target is (re)defined in this block refers to the previous execution of that
	// definition: forget it.
	for k, v := range ne.bind {
		if defBlock(v) == blk || !s.live[k][blk] {
			delete(ne.bind, k)
		}
	}

	ne.mkKey()

	return ne
}

func (e *pathEnv) withFact(key string, truth bool, bx, by *ssa.BasicBlock) *pathEnv {
	ne := &pathEnv{bind: e.bind, facts: map[string]factEntry{}}

	for k, f := range e.facts {
		ne.facts[k] = f
	}

	ne.facts[key] = factEntry{truth, bx, by}
	ne.mkKey()

	return ne
}

// resolveReturn gives the Return as it executes on this path: results that are (bound) phis are
// replaced by their incoming values. Returns r itself when nothing changes.
func (e *pathEnv) resolveReturn(r *ssa.Return) *ssa.Return {
	if len(e.bind) == 0 {
		return r
	}

	var out *ssa.Return

	for i, v := range r.Results {
		nv := v

		if phi, ok := stripIface(v).(*ssa.Phi); ok {
			if b, ok := e.bind[phi]; ok {
				nv = b
			}
		}

		if nv != v {
			if out == nil {
				out = cloneInstr(r).(*ssa.Return)
			}

			out.Results[i] = nv
		}
	}

	if out == nil {
		return r
	}

	return out
}

// returnVariants lists r and, when results are joins (phis), the forms the return takes per path:
// phis of one block are resolved together, one variant per predecessor of that block (the results
// of an inlined helper's return sites stay correlated); remaining joins are expanded recursively.
func returnVariants(r *ssa.Return) []*ssa.Return {
	out := []*ssa.Return{r}
	seen := map[string]bool{}

	var expand func(cur *ssa.Return, depth int)

	expand = func(cur *ssa.Return, depth int) {
		if depth > 4 || len(out) > 64 {
			return
		}

		// first block that owns a phi result
		var blk *ssa.BasicBlock

		for _, v := range cur.Results {
			if phi, ok := stripIface(v).(*ssa.Phi); ok {
				blk = phi.Block()

				break
			}
		}

		if blk == nil {
			return
		}

		for k := range blk.Preds {
			c := cloneInstr(cur).(*ssa.Return)
			key := ""

			for i, v := range cur.Results {
				if phi, ok := stripIface(v).(*ssa.Phi); ok && phi.Block() == blk && k < len(phi.Edges) {
					c.Results[i] = phi.Edges[k]
				}

				key += valueID(c.Results[i]) + ","
			}

			if seen[key] {
				continue
			}

			seen[key] = true
			out = append(out, c)
			expand(c, depth+1)
		}
	}

	expand(r, 0)

	// drop intermediate forms that still contain joins when fully resolved forms exist
	if len(out) > 1 {
		var leafs []*ssa.Return

		for _, c := range out[1:] {
			hasPhi := false

			for _, v := range c.Results {
				if _, ok := stripIface(v).(*ssa.Phi); ok {
					hasPhi = true
				}
			}

			if !hasPhi {
				leafs = append(leafs, c)
			}
		}

		if len(leafs) > 0 {
			return append([]*ssa.Return{r}, leafs...)
		}
	}

	return out
}

// ReturnForms lists the returns of f as they occur per path: a return of joined values is listed
// once per resolved form (see returnVariants), a plain return once.
func ReturnForms(f *ssa.Function) []*ssa.Return {
	var out []*ssa.Return

	for _, b := range f.Blocks {
		if b == f.Recover || len(b.Instrs) == 0 {
			continue
		}

		r, ok := b.Instrs[len(b.Instrs)-1].(*ssa.Return)
		if !ok {
			continue
		}

		vs := returnVariants(r)
		if len(vs) == 1 {
			out = append(out, r)
		} else {
			out = append(out, vs[1:]...)
		}
	}

	return out
}

// FindTargets is Find, except that a Return of joined values (phis) also counts when one of its
// per-path variants is selected.
func FindTargets(f *ssa.Function, pred InstrPred) []ssa.Instruction {
	var out []ssa.Instruction

	if f == nil {
		return nil
	}

	for _, b := range f.Blocks {
		for _, in := range b.Instrs {
			vs := instrVariants(in)
			if len(vs) == 1 {
				if pred(in) {
					out = append(out, in)
				}

				continue
			}

			// an instruction with joined operands counts once per selected variant (the raw form,
			// whose operand is the join itself, only if no variant is selected)
			n := 0

			for _, v := range vs[1:] {
				if pred(v) {
					out = append(out, in)
					n++
				}
			}

			if n == 0 && pred(in) {
				out = append(out, in)
			}
		}
	}

	return out
}

// nilTest decomposes a condition of the form `v == nil` / `v != nil` (possibly negated).
func nilTest(cond ssa.Value) (v ssa.Value, nilWhenTrue bool, ok bool) {
	neg := false
	cond = stripIface(cond)

	for {
		u, isU := cond.(*ssa.UnOp)
		if !isU || u.Op != token.NOT {
			break
		}

		neg = !neg
		cond = stripIface(u.X)
	}

	b, isB := cond.(*ssa.BinOp)
	if !isB || (b.Op != token.EQL && b.Op != token.NEQ) {
		return nil, false, false
	}

	switch {
	case isNilConst(b.Y):
		v = b.X
	case isNilConst(b.X):
		v = b.Y
	default:
		return nil, false, false
	}

	return v, (b.Op == token.EQL) != neg, true
}

// NilEdgeOf selects the If edges on which value v (an error result) is known to be nil.
func NilEdgeOf(v ssa.Value) EdgePred {
	return func(e EdgeInfo) bool {
		for _, cond := range []ssa.Value{e.Cond, e.RawCond} {
			if cond == nil {
				continue
			}

			t, nilWhenTrue, ok := nilTest(cond)
			if !ok || e.Taken != nilWhenTrue {
				continue
			}

			t = stripIface(t)

			if t == v || Fwd(t) == v {
				return true
			}
		}

		return false
	}
}

// resolveInstr gives a call / store / send as it executes on this path: operands that are bound phis
// are replaced by their incoming values. Returns in itself when nothing changes.
func (e *pathEnv) resolveInstr(in ssa.Instruction) ssa.Instruction {
	if len(e.bind) == 0 {
		return in
	}

	switch in.(type) {
	case *ssa.Call, *ssa.Store, *ssa.Send, *ssa.MapUpdate:
	default:
		return in
	}

	var (
		buf [16]*ssa.Value
		out ssa.Instruction
	)

	ops := in.Operands(buf[:0])

	for i, op := range ops {
		if *op == nil {
			continue
		}

		phi, ok := stripIface(*op).(*ssa.Phi)
		if !ok {
			continue
		}

		b, ok := e.bind[phi]
		if !ok {
			continue
		}

		if out == nil {
			out = cloneInstr(in)
		}

		var buf2 [16]*ssa.Value

		*out.Operands(buf2[:0])[i] = b
	}

	if out == nil {
		return in
	}

	return out
}

// instrVariants lists in and, for calls / stores / sends with joined operands (phis), one synthetic
// copy per incoming value of each such operand.
func instrVariants(in ssa.Instruction) []ssa.Instruction {
	if r, ok := in.(*ssa.Return); ok {
		vs := returnVariants(r)
		out := make([]ssa.Instruction, len(vs))

		for i, v := range vs {
			out[i] = v
		}

		return out
	}

	switch in.(type) {
	case *ssa.Call, *ssa.Store, *ssa.Send, *ssa.MapUpdate:
	default:
		return []ssa.Instruction{in}
	}

	out := []ssa.Instruction{in}

	var buf [16]*ssa.Value

	for i, op := range in.Operands(buf[:0]) {
		if *op == nil {
			continue
		}

		phi, ok := stripIface(*op).(*ssa.Phi)
		if !ok {
			continue
		}

		for _, l := range phiLeavesAll(phi) {
			c := cloneInstr(in)

			var buf2 [16]*ssa.Value

			*c.Operands(buf2[:0])[i] = l
			out = append(out, c)
		}
	}

	return out
}

func phiLeavesAll(v ssa.Value) []ssa.Value {
	var out []ssa.Value

	seen := map[ssa.Value]bool{}

	var walk func(v ssa.Value, d int)

	walk = func(v ssa.Value, d int) {
		v = stripIface(v)
		if seen[v] || d > 6 {
			return
		}

		seen[v] = true

		if ph, ok := v.(*ssa.Phi); ok {
			for _, e := range ph.Edges {
				walk(e, d+1)
			}

			return
		}

		out = append(out, v)
	}

	walk(v, 0)

	return out
}

// AfterTargets is After with per-path variants: the location after an instruction one of whose
// variants is selected.
func AfterTargets(f *ssa.Function, pred InstrPred) []Loc {
	var out []Loc

	for _, b := range f.Blocks {
		for i, in := range b.Instrs {
			for _, v := range instrVariants(in) {
				if pred(v) {
					out = append(out, Loc{B: b, I: i + 1})

					break
				}
			}
		}
	}

	return out
}

// seedEnv gives the facts that hold whenever execution is at the start of block b because of the
// If edges that dominate it: walking up while the block has a single predecessor, the edge taken
// from a predecessor's If is known. (The operands are SSA values defined above those edges; if
// they are redefined in a loop, the path passes the same edges again before it reaches b.)
func seedEnv(b *ssa.BasicBlock) *pathEnv {
	env := &pathEnv{facts: map[string]factEntry{}}

	for range 64 {
		if b == nil || len(b.Preds) != 1 {
			break
		}

		pred := b.Preds[0]
		if pred == b || len(pred.Instrs) == 0 {
			break
		}

		if ifi, ok := pred.Instrs[len(pred.Instrs)-1].(*ssa.If); ok && len(pred.Succs) == 2 && pred.Succs[0] != pred.Succs[1] {
			taken := pred.Succs[0] == b
			key, neg, decided, bx, by := atomOf(ifi.Cond)

			if decided == nil {
				if _, dup := env.facts[key]; !dup {
					env.facts[key] = factEntry{taken != neg, bx, by}
				}
			}
		}

		b = pred
	}

	if len(env.facts) == 0 {
		return emptyEnv
	}

	env.mkKey()

	return env
}

// ctxErrAfterDone recognises `ctx.Err()` evaluated in a block that is only reached through the
// select arm that received from `ctx.Done()` of the same context: by the contract of
// context.Context, Err is non-nil once Done is closed.
func ctxErrAfterDone(c *ssa.Call) bool {
	if c.Call.Method == nil || c.Call.Method.Name() != "Err" || c.Call.Method.Pkg() == nil || c.Call.Method.Pkg().Path() != "context" {
		return false
	}

	recv := stripIface(c.Call.Value)
	b := c.Block()

	for range 16 {
		if b == nil || len(b.Preds) != 1 {
			return false
		}

		pred := b.Preds[0]
		if pred == b || len(pred.Instrs) == 0 {
			return false
		}

		if ifi, ok := pred.Instrs[len(pred.Instrs)-1].(*ssa.If); ok && len(pred.Succs) == 2 && pred.Succs[0] == b && pred.Succs[1] != b {
			if bo, ok := ifi.Cond.(*ssa.BinOp); ok && bo.Op == token.EQL {
				ex, isEx := bo.X.(*ssa.Extract)
				k, isK := bo.Y.(*ssa.Const)

				if isEx && isK && ex.Index == 0 && k.Value != nil && k.Value.Kind() == constant.Int {
					if sel, ok := ex.Tuple.(*ssa.Select); ok {
						i, _ := constant.Int64Val(k.Value)
						if i >= 0 && int(i) < len(sel.States) && sel.States[i].Dir == types.RecvOnly {
							if dc, ok := sel.States[i].Chan.(*ssa.Call); ok && dc.Call.IsInvoke() && dc.Call.Method.Name() == "Done" && stripIface(dc.Call.Value) == recv {
								return true
							}
						}
					}
				}
			}
		}

		b = pred
	}

	return false
}

// withResolved evaluates fn on instruction in as it executes on this path: operands that are bound
// phis are temporarily replaced, in place, by their incoming values (so that predicates comparing
// instruction identity keep working), and restored afterwards. The checker is single-threaded.
func (e *pathEnv) withResolved(in ssa.Instruction, fn func(ssa.Instruction) bool) bool {
	if len(e.bind) == 0 {
		return fn(in)
	}

	switch in.(type) {
	case *ssa.Call, *ssa.Store, *ssa.Send, *ssa.MapUpdate, *ssa.Return:
	default:
		return fn(in)
	}

	var (
		buf   [16]*ssa.Value
		saved [16]ssa.Value
	)

	ops := in.Operands(buf[:0])
	if len(ops) > len(saved) {
		return fn(in)
	}

	changed := false

	for i, op := range ops {
		saved[i] = *op

		if *op == nil {
			continue
		}

		if phi, ok := stripIface(*op).(*ssa.Phi); ok {
			if b, ok := e.bind[phi]; ok {
				*op = b
				changed = true
			}

			continue
		}

		// a comparison of joined values (`return idx >= 0`)
		if bo, ok := (*op).(*ssa.BinOp); ok && isCmp(bo.Op) {
			if r := e.resolve(bo, 0); r != ssa.Value(bo) {
				*op = r
				changed = true
			}
		}
	}

	if !changed {
		return fn(in)
	}

	defer func() {
		for i, op := range ops {
			*op = saved[i]
		}
	}()

	return fn(in)
}

// ---------- integer lower bounds (sentinel indexes) ----------

const lbNegInf = int64(-1) << 62

// lowerBound computes a sound lower bound of an integer value from constants, len/cap, additions of
// constants and phis (loop indexes start from a constant and are incremented): enough to know that
// an index found by a search loop is not the -1 sentinel.
func lowerBound(v ssa.Value) int64 {
	memo := map[ssa.Value]int64{}

	var eval func(v ssa.Value, depth int) int64

	eval = func(v ssa.Value, depth int) int64 {
		if depth > 12 {
			return lbNegInf
		}

		if b, ok := memo[v]; ok {
			return b
		}

		switch x := v.(type) {
		case *ssa.Const:
			if x.Value != nil && x.Value.Kind() == constant.Int {
				if i, ok := constant.Int64Val(x.Value); ok {
					return i
				}
			}

			return lbNegInf
		case *ssa.Call:
			if b, ok := x.Call.Value.(*ssa.Builtin); ok && (b.Name() == "len" || b.Name() == "cap") {
				return 0
			}

			return lbNegInf
		case *ssa.Convert:
			if isIntType(x.X.Type()) && isIntType(x.Type()) {
				return eval(x.X, depth+1)
			}

			return lbNegInf
		case *ssa.BinOp:
			switch x.Op {
			case token.ADD:
				a, b := eval(x.X, depth+1), eval(x.Y, depth+1)
				if a == lbNegInf || b == lbNegInf {
					return lbNegInf
				}

				return a + b
			case token.SUB:
				if c, ok := x.Y.(*ssa.Const); ok && c.Value != nil && c.Value.Kind() == constant.Int {
					if i, ok := constant.Int64Val(c.Value); ok {
						if a := eval(x.X, depth+1); a != lbNegInf {
							return a - i
						}
					}
				}
			}

			return lbNegInf
		case *ssa.Phi:
			// optimistic fixpoint: cyclic edges start at +inf, then iterate; a bound that keeps
			// falling is abandoned
			memo[v] = int64(1) << 62

			var res int64

			for round := 0; round < 4; round++ {
				res = int64(1) << 62

				for _, e := range x.Edges {
					saved := memo[v]
					b := eval(e, depth+1)
					memo[v] = saved

					if b < res {
						res = b
					}
				}

				if res == memo[v] {
					break
				}

				if round == 3 {
					res = lbNegInf
				}

				memo[v] = res

				// values computed from the previous assumption are stale
				for k := range memo {
					if k != v {
						delete(memo, k)
					}
				}
			}

			memo[v] = res

			return res
		}

		return lbNegInf
	}

	return eval(v, 0)
}

// seedEdge gives the facts that hold when execution has just taken the edge pred → succ: what
// dominates pred (seedEnv) plus the outcome of pred's own test.
func seedEdge(pred, succ *ssa.BasicBlock) *pathEnv {
	base := seedEnv(pred)
	env := &pathEnv{bind: base.bind, facts: map[string]factEntry{}}

	for k, f := range base.facts {
		env.facts[k] = f
	}

	if len(pred.Instrs) > 0 {
		if ifi, ok := pred.Instrs[len(pred.Instrs)-1].(*ssa.If); ok && len(pred.Succs) == 2 && pred.Succs[0] != pred.Succs[1] {
			taken := pred.Succs[0] == succ
			key, neg, decided, bx, by := atomOf(ifi.Cond)

			if decided == nil {
				env.facts[key] = factEntry{taken != neg, bx, by}
			}
		}
	}

	env.mkKey()

	return env
}

// gatedValue: a join `x := c ? a : b` (written as `a && b`, `if c { x = a }`, …) whose deciding test c
// has a known outcome on this path has a known value, even if the path did not itself pass through
// the join (a search that starts after it). Recognised shapes: triangle (the test's block is itself
// a predecessor of the join) and diamond (both predecessors come straight from the test's block).
func (e *pathEnv) gatedValue(phi *ssa.Phi) ssa.Value {
	if len(e.facts) == 0 {
		return nil
	}

	j := phi.Block()
	if j == nil || len(j.Preds) != 2 || len(phi.Edges) != 2 {
		return nil
	}

	var test *ssa.BasicBlock

	p0, p1 := j.Preds[0], j.Preds[1]

	switch {
	case len(p1.Preds) == 1 && p1.Preds[0] == p0 && len(p0.Succs) == 2: // triangle, test in p0
		test = p0
	case len(p0.Preds) == 1 && p0.Preds[0] == p1 && len(p1.Succs) == 2: // triangle, test in p1
		test = p1
	case len(p0.Preds) == 1 && len(p1.Preds) == 1 && p0.Preds[0] == p1.Preds[0] && len(p0.Preds[0].Succs) == 2: // diamond
		test = p0.Preds[0]
	default:
		return nil
	}

	if len(test.Instrs) == 0 || test.Succs[0] == test.Succs[1] {
		return nil
	}

	ifi, ok := test.Instrs[len(test.Instrs)-1].(*ssa.If)
	if !ok {
		return nil
	}

	key, neg, decided, _, _ := atomOf(ifi.Cond)

	var truth bool

	switch {
	case decided != nil:
		truth = *decided
	default:
		f, ok := e.facts[key]
		if !ok {
			return nil
		}

		truth = f.truth
	}

	taken := truth != neg // the If's true edge is taken
	next := test.Succs[1]

	if taken {
		next = test.Succs[0]
	}

	// which predecessor of the join does that edge lead to?
	for i, pb := range j.Preds {
		if pb == test && next == j {
			return phi.Edges[i]
		}

		if pb == next && pb != test {
			return phi.Edges[i]
		}
	}

	return nil
}

func isBoolValue(v ssa.Value) bool {
	if _, isConst := v.(*ssa.Const); isConst {
		return false
	}

	b, ok := v.Type().Underlying().(*types.Basic)

	return ok && b.Kind() == types.Bool
}

// known looks an atom up in the path's facts, also deriving it from an equality of two booleans:
// known(a == b) and known(a) give b; known(a) and known(b) give a == b.
func (e *pathEnv) known(key string) (truth, ok bool) {
	if f, has := e.facts[key]; has {
		return f.truth, true
	}

	switch {
	case strings.HasPrefix(key, "T|"):
		id := key[2:]

		for k, f := range e.facts {
			if !strings.HasPrefix(k, "==|") {
				continue
			}

			parts := strings.Split(k, "|")
			if len(parts) != 3 {
				continue
			}

			other := ""

			switch id {
			case parts[1]:
				other = parts[2]
			case parts[2]:
				other = parts[1]
			default:
				continue
			}

			if of, has := e.facts["T|"+other]; has {
				// a == b is f.truth; b is of.truth ⇒ a is (f.truth == of.truth)
				return f.truth == of.truth, true
			}
		}
	case strings.HasPrefix(key, "==|"):
		parts := strings.Split(key, "|")
		if len(parts) == 3 {
			a, okA := e.facts["T|"+parts[1]]
			b, okB := e.facts["T|"+parts[2]]

			if okA && okB {
				return a.truth == b.truth, true
			}
		}
	}

	return false, false
}
