// Package lint is a repository-specific static checker for cosi-project/runtime.
//
// Nothing in /repo is executed: the package loads the type-checked program with go/packages,
// builds go/ssa form, and evaluates rule obligations over AST, SSA, CFG and call graph.
package lint

import (
	"fmt"
	"go/token"
	"go/types"
	"os"
	"path/filepath"
	"sort"
	"strings"
	"time"

	"golang.org/x/tools/go/packages"
	"golang.org/x/tools/go/ssa"
	"golang.org/x/tools/go/ssa/ssautil"
)

// Mod is the module path prefix of the analysed repository.
const Mod = "github.com/cosi-project/runtime/"

// MinPackages is the number of packages confirmed on the pinned tree (vacuity guard).
const MinPackages = 45

// Program is the loaded, type-checked, SSA-built repository.
type Program struct {
	Dir     string
	Fset    *token.FileSet
	Pkgs    []*packages.Package
	ByPath  map[string]*packages.Package
	SSA     *ssa.Program
	SSAPkg  map[string]*ssa.Package
	LoadDur time.Duration

	funcsCache map[string][]*ssa.Function
	allFuncs   []*ssa.Function
	closureOf  map[*ssa.Function]*ssa.MakeClosure

	callSites map[*ssa.Function][]ssa.CallInstruction // static call sites per function (lazily built)
	curEnv    *pathEnv                                // path knowledge of the search step being evaluated (pathsense.go)
	// anchors found under a new name (old name → function); see resolveRenamedAnchors
	renamed   map[string]*ssa.Function
	canonName map[*ssa.Function]string // renamed anchor → the (last segment of the) name rules use
	Renames   []string
	// helpers whose every use was inlined (they are not part of the normal form)
	inlinedAway map[*ssa.Function]bool

	// inlining normal form (inline.go)
	anchors     map[string]bool // functions rules refer to by name (never inlined)
	anchorsSeen map[string]bool // functions requested by name during this run
	Inline      InlineStats
}

// Load loads ./... under dir. overlay maps absolute file names to replacement contents
// (used only by the mutant self-tests; never for a verdict about /repo).
func Load(dir string, overlay map[string][]byte, tests bool) (*Program, error) {
	if os.Getenv("GOWORK") != "" && os.Getenv("GOWORK") != "off" {
		return nil, fmt.Errorf("GOWORK is set (%q): refusing to analyse a workspace view of the tree", os.Getenv("GOWORK"))
	}

	t0 := time.Now()
	cfg := &packages.Config{
		Mode:    packages.LoadAllSyntax,
		Dir:     dir,
		Overlay: overlay,
		Tests:   tests,
		Env:     append(os.Environ(), "GOWORK=off"),
	}

	pkgs, err := packages.Load(cfg, "./...")
	if err != nil {
		return nil, fmt.Errorf("packages.Load: %w", err)
	}

	nerr := 0

	var firstErr string

	packages.Visit(pkgs, nil, func(p *packages.Package) {
		for _, e := range p.Errors {
			if nerr == 0 {
				firstErr = e.Error()
			}

			nerr++
		}
	})

	if nerr > 0 {
		return nil, fmt.Errorf("%d load/type errors, first: %s", nerr, firstErr)
	}

	own := 0

	for _, p := range pkgs {
		if strings.HasPrefix(p.PkgPath+"/", Mod) {
			own++
		}
	}

	if own < MinPackages {
		return nil, fmt.Errorf("only %d packages of %s loaded (expected >= %d)", own, Mod, MinPackages)
	}

	prog, spkgs := ssautil.AllPackages(pkgs, ssa.BuilderMode(0))
	prog.Build()

	p := &Program{
		Dir:        dir,
		Fset:       prog.Fset,
		Pkgs:       pkgs,
		ByPath:     map[string]*packages.Package{},
		SSA:        prog,
		SSAPkg:     map[string]*ssa.Package{},
		funcsCache: map[string][]*ssa.Function{},
		closureOf:  map[*ssa.Function]*ssa.MakeClosure{},
	}

	for i, sp := range spkgs {
		if sp == nil {
			continue
		}
		// with Tests=true the same path may appear twice (pkg and pkg [pkg.test]); prefer the non-test variant.
		if _, dup := p.SSAPkg[sp.Pkg.Path()]; dup && strings.Contains(pkgs[i].ID, "[") {
			continue
		}

		p.SSAPkg[sp.Pkg.Path()] = sp
		p.ByPath[sp.Pkg.Path()] = pkgs[i]
	}

	p.LoadDur = time.Since(t0)

	return p, nil
}

// OwnPackages lists loaded package paths of the analysed module, sorted.
func (p *Program) OwnPackages() []string {
	var out []string

	for path := range p.SSAPkg {
		if strings.HasPrefix(path+"/", Mod) {
			out = append(out, path)
		}
	}

	sort.Strings(out)

	return out
}

// Pkg returns the SSA package with the module-relative path rel ("pkg/state").
func (p *Program) Pkg(rel string) *ssa.Package {
	return p.SSAPkg[Mod+rel]
}

// PkgFuncs returns every function, method (including generic origins) and nested closure of the
// package with module-relative path rel.
func (p *Program) PkgFuncs(rel string) []*ssa.Function {
	if fs, ok := p.funcsCache[rel]; ok {
		return fs
	}

	sp := p.Pkg(rel)
	if sp == nil {
		return nil
	}

	var out []*ssa.Function

	seen := map[*ssa.Function]bool{}

	var add func(f *ssa.Function)

	add = func(f *ssa.Function) {
		if f == nil || seen[f] || p.inlinedAway[f] {
			return
		}

		seen[f] = true
		out = append(out, f)

		for _, a := range f.AnonFuncs {
			add(a)
		}
	}

	names := make([]string, 0, len(sp.Members))
	for n := range sp.Members {
		names = append(names, n)
	}

	sort.Strings(names)

	for _, n := range names {
		switch m := sp.Members[n].(type) {
		case *ssa.Function:
			add(m)
		case *ssa.Type:
			if named, ok := m.Type().(*types.Named); ok {
				for i := range named.NumMethods() {
					add(p.SSA.FuncValue(named.Method(i)))
				}
			}
		}
	}

	p.funcsCache[rel] = out

	return out
}

// AllOwnFuncs returns PkgFuncs over every package of the module (non-test code).
func (p *Program) AllOwnFuncs() []*ssa.Function {
	if p.allFuncs != nil {
		return p.allFuncs
	}

	for _, path := range p.OwnPackages() {
		p.allFuncs = append(p.allFuncs, p.PkgFuncs(strings.TrimPrefix(path, Mod))...)
	}

	return p.allFuncs
}

// Func finds a package-level function. Returns nil when absent.
func (p *Program) Func(rel, name string) *ssa.Function {
	sp := p.Pkg(rel)
	if sp == nil {
		return nil
	}

	f := sp.Func(name)
	if f == nil {
		f = p.renamed[rel+"."+name]
	}

	p.MarkAnchor(f)

	return f
}

// Named finds a named type in a package.
func (p *Program) Named(rel, name string) *types.Named {
	sp := p.Pkg(rel)
	if sp == nil {
		return nil
	}

	obj := sp.Pkg.Scope().Lookup(name)
	if obj == nil {
		return nil
	}

	n, _ := types.Unalias(obj.Type()).(*types.Named)

	return n
}

// Method finds method name of named type recv in package rel (generic origins included).
func (p *Program) Method(rel, recv, name string) *ssa.Function {
	n := p.Named(rel, recv)
	if n == nil {
		return nil
	}

	for i := range n.NumMethods() {
		if n.Method(i).Name() == name {
			f := p.SSA.FuncValue(n.Method(i))
			p.MarkAnchor(f)

			return f
		}
	}

	// renamed? (the table records pointer- and value-receiver spellings)
	for old, f := range p.renamed {
		if strings.HasSuffix(old, "."+name) && (strings.HasPrefix(old, "(*"+rel+"."+recv+")") || strings.HasPrefix(old, "("+rel+"."+recv+")") ||
			strings.HasPrefix(old, "(*"+rel+"."+recv+"[") || strings.HasPrefix(old, "("+rel+"."+recv+"[")) {
			p.MarkAnchor(f)

			return f
		}
	}

	return nil
}

// Methods lists all methods of a named type, sorted by name.
func (p *Program) Methods(rel, recv string) []*ssa.Function {
	n := p.Named(rel, recv)
	if n == nil {
		return nil
	}

	var out []*ssa.Function

	for i := range n.NumMethods() {
		// (enumeration does not make a method an anchor: a helper method that the normal form inlined
		// everywhere is not listed, one that is still called is listed like any other)
		if f := p.SSA.FuncValue(n.Method(i)); f != nil && !p.inlinedAway[f] {
			out = append(out, f)
		}
	}

	sort.Slice(out, func(i, j int) bool { return out[i].Name() < out[j].Name() })

	return out
}

// Pos renders a position relative to the repository root.
func (p *Program) Pos(pos token.Pos) string {
	if !pos.IsValid() {
		return "-"
	}

	position := p.Fset.Position(pos)

	rel, err := filepath.Rel(p.Dir, position.Filename)
	if err != nil || strings.HasPrefix(rel, "..") {
		rel = position.Filename
	}

	return fmt.Sprintf("%s:%d", rel, position.Line)
}

// FuncName gives a stable, module-relative name for a function ("pkg/x.(T).M$1").
func FuncName(f *ssa.Function) string {
	if f == nil {
		return "<nil>"
	}

	if f.Parent() != nil {
		// closures are named parent$N by go/ssa; N is positional among the parent's closures.
		return FuncName(f.Parent()) + strings.TrimPrefix(f.Name(), f.Parent().Name())
	}

	if o := f.Origin(); o != nil {
		f = o
	}

	s := f.String()
	s = strings.ReplaceAll(s, Mod, "")
	s = strings.ReplaceAll(s, "github.com/cosi-project/runtime", "")

	return s
}

// ClosureSite returns the MakeClosure instruction in the parent that creates anonymous function f.
func (p *Program) ClosureSite(f *ssa.Function) *ssa.MakeClosure {
	if mc, ok := p.closureOf[f]; ok {
		return mc
	}

	par := f.Parent()
	if par == nil {
		return nil
	}

	for _, b := range par.Blocks {
		for _, in := range b.Instrs {
			if mc, ok := in.(*ssa.MakeClosure); ok {
				if fn, ok := mc.Fn.(*ssa.Function); ok {
					p.closureOf[fn] = mc
				}
			}
		}
	}

	if _, ok := p.closureOf[f]; !ok {
		p.closureOf[f] = nil
	}

	return p.closureOf[f]
}
