package lint

import (
	"fmt"
	"go/token"
	"go/types"
	"sort"
	"strings"

	"golang.org/x/tools/go/ssa"
)

const (
	pkgCompression = "pkg/state/impl/store/compression"
	pkgEncryption  = "pkg/state/impl/store/encryption"
	pkgStore       = "pkg/state/impl/store"
	pkgResProto    = "pkg/resource/protobuf"
)

func init() {
	register(&PropertyInfo{
		ID: "C18",
		Explanation: "Necessary structure of the codecs (round-trip equality for all inputs is NOT decided). R18.1: Phase String()/ParsePhase tables are inverse and cover every Phase constant. R18.2: Version text uses the same sentinel and base on both sides. " +
			"R18.3: the set of YAML keys emitted by Metadata.MarshalYAML equals the set handled by UnmarshalYAML; both use one time layout. R18.4: Resource.Marshal fills every field of v1alpha1.Metadata and Spec; NewMetadataFromProto consumes every getter of MetadataProto. " +
			"R18.5: decoder bounds — every constant index/slice on the input []byte in the compression and encryption decoders (and decodeBookmark, see C12) is implied by a dominating length guard. " +
			"R18.6: explicit panics in the YAML decoder are the tryError idiom only, raised below a deferred recover that converts them to an error; the panicking helpers are reachable only from there. " +
			"R18.7: AEAD discipline — the nonce comes from crypto/rand through a checked ReadFull and is the one given to Seal; Open's error is returned (tamper / wrong key ⇒ error); the version byte is tested before Open; the inner decoder sees only what Decrypt returned without error. " +
			"R18.8: framing constants agree between writers and readers (compression marker/ID/offset/threshold; encryption version/nonce/header/minimum). R18.9: each marshaler layer returns the inner layer's error. " +
			"R18.11: the zstd compressor keeps no byte buffer of its own and returns exactly the library's result for the caller-supplied prefix (records never alias compressor state).",
		NotCovered: "decode(encode(x)) == x for all metadata/specs (behavioural over values); totality of third-party decoders (yaml, protobuf, zstd, AES-GCM); timestamp precision of the YAML text form (RFC3339 drops sub-second digits — an observation, not armed); the Version FormatUint/ParseInt range asymmetry above 2^63 (observation).",
		Assumptions: []string{
			"the YAML library hands UnmarshalYAML mapping nodes with an even number of children",
			"cipher.AEAD.Open authenticates ciphertext and nonce",
		},
		Run: runC18,
	})
}

func runC18(c *Ctx) {
	p := c.P

	// ---------- R18.1 phase table
	c.Rule("R18.1", "E4", "Phase.String table and ParsePhase cases are inverse and cover every Phase constant", 1)

	phases := p.ConstsOfType(pkgResource, "Phase")
	strOf := map[string]string{} // index -> string
	parse := map[string]string{} // string -> phase value

	if f := p.Method(pkgResource, "Phase", "String"); c.NeedFunc("R18.1", f, "Phase.String") {
		for _, in := range Find(f, func(in ssa.Instruction) bool { _, ok := in.(*ssa.Store); return ok }) {
			st := in.(*ssa.Store)
			if ia, ok := st.Addr.(*ssa.IndexAddr); ok {
				if _, isAlloc := ia.X.(*ssa.Alloc); isAlloc {
					strOf[strings.TrimPrefix(p.Desc(ia.Index), "const:")] = strings.TrimPrefix(p.Desc(st.Val), "const:")
				}
			}
		}
	}

	if f := p.Func(pkgResource, "ParsePhase"); c.NeedFunc("R18.1", f, "ParsePhase") {
		for _, b := range f.Blocks {
			ifi, ok := b.Instrs[len(b.Instrs)-1].(*ssa.If)
			if !ok {
				continue
			}

			for _, fact := range p.Facts(ifi.Cond, true) {
				if strings.HasPrefix(fact, "eq(param#0,const:") {
					s := strings.TrimSuffix(strings.TrimPrefix(fact, "eq(param#0,const:"), ")")

					for _, in := range b.Succs[0].Instrs {
						if r, ok := in.(*ssa.Return); ok {
							parse[s] = strings.TrimPrefix(p.Desc(r.Results[0]), "const:")
						}
					}
				}
			}
		}
	}

	okTab := len(phases) >= 2 && len(strOf) == len(phases) && len(parse) == len(phases)

	for _, val := range phases {
		s, ok := strOf[val]
		if !ok || parse[s] != val {
			okTab = false
		}
	}

	c.Check(okTab, "R18.1", "ParsePhase(Phase.String(ph)) == ph for every Phase constant", 0, fmt.Sprintf("%d phases", len(phases)), fmt.Sprintf("String table %v, Parse table %v, constants %v", strOf, parse, phases))

	// ---------- R18.2 version text
	c.Rule("R18.2", "E4", "Version.String / ParseVersion share the undefined sentinel and base 10", 2)

	undef := p.ConstVal(pkgResource, "undefinedVersion")

	if f := p.Method(pkgResource, "Version", "String"); c.NeedFunc("R18.2", f, "Version.String") {
		fu := p.Calls(f, "strconv.FormatUint")
		okS := len(fu) == 1 && p.ArgDesc(fu[0], 1) == "const:10" && len(Find(f, p.RetIs(0, undef))) == 1
		c.Check(okS, "R18.2", "Version.String: sentinel for nil, FormatUint(_, 10) otherwise", fpos(f), "yes", "text form changed")
	}

	if f := p.Func(pkgResource, "ParseVersion"); c.NeedFunc("R18.2", f, "ParseVersion") {
		pi := p.Calls(f, "strconv.ParseInt", "strconv.ParseUint")
		okP := len(pi) == 1 && p.ArgDesc(pi[0], 1) == "const:10" && len(p.EdgeSuccs(f, "eq(param#0,"+undef+")")) == 1
		c.Check(okP, "R18.2", "ParseVersion: same sentinel, base 10", fpos(f), "yes", "parser disagrees with the printer on sentinel/base")
		c.errPropagates("R18.2", f, 1, "strconv.ParseInt", "strconv.ParseUint")
	}

	// ---------- R18.3 YAML keys
	c.Rule("R18.3", "E4", "Metadata YAML: emitted keys == handled keys; one time layout", 2)

	emitted, handled := map[string]bool{}, map[string]bool{}
	layouts := map[string]bool{}

	if f := p.Method(pkgResource, "Metadata", "MarshalYAML"); c.NeedFunc("R18.3", f, "Metadata.MarshalYAML") {
		// keys are the Value of the scalar nodes at even positions of the mapping content; here: every constant string stored into yaml.Node.Value, plus the labels passed to KV.ToYAML
		for _, in := range Find(f, StoreToField("Node", "Value")) {
			if d := p.Desc(in.(*ssa.Store).Val); strings.HasPrefix(d, "const:\"") {
				emitted[strings.Trim(strings.TrimPrefix(d, "const:"), "\"")] = true
			}
		}

		for _, call := range p.Calls(f, "*.ToYAML") {
			emitted[strings.Trim(strings.TrimPrefix(p.ArgDesc(call, 1), "const:"), "\"")] = true
		}

		for _, call := range p.Calls(f, "(time.Time).Format") {
			layouts["fmt:"+p.ArgDesc(call, 1)] = true
		}
	}

	if f := p.Method(pkgResource, "Metadata", "UnmarshalYAML"); c.NeedFunc("R18.3", f, "Metadata.UnmarshalYAML") {
		for _, b := range f.Blocks {
			if ifi, ok := b.Instrs[len(b.Instrs)-1].(*ssa.If); ok {
				for _, fact := range p.Facts(ifi.Cond, true) {
					if strings.HasPrefix(fact, "eq(") && strings.Contains(fact, ".Value,const:\"") {
						k := fact[strings.Index(fact, ",const:\"")+8:]
						handled[strings.TrimSuffix(k, "\")")] = true
					}
				}
			}
		}

		for _, g := range AllClosures(f) {
			for _, call := range p.Calls(g, "time.Parse") {
				layouts["parse:"+p.ArgDesc(call, 0)] = true
			}
		}
	}

	c.Check(joinSorted(emitted) == joinSorted(handled) && len(emitted) == 11, "R18.3", "YAML key sets of writer and reader are equal", 0, joinSorted(emitted), "emitted {"+joinSorted(emitted)+"} vs handled {"+joinSorted(handled)+"}")

	lay := map[string]bool{}
	for k := range layouts {
		lay[k[strings.Index(k, ":")+1:]] = true
	}

	c.Check(len(lay) == 1 && len(layouts) == 2, "R18.3", "YAML timestamps use one layout on both sides", 0, joinSorted(lay), "layouts: "+joinSorted(layouts))

	// ---------- R18.4 proto fields
	c.Rule("R18.4", "E4", "Resource.Marshal fills every v1alpha1.Metadata/Spec field; NewMetadataFromProto reads every MetadataProto getter", 3)

	if f := p.Method(pkgResProto, "Resource", "Marshal"); c.NeedFunc("R18.4", f, "protobuf.Resource.Marshal") {
		for _, tname := range []string{"Metadata", "Spec"} {
			n := p.Named(pkgAPI, tname)
			if n == nil {
				c.Unknown("R18.4", "anchor-unresolved: v1alpha1."+tname, 0, "type not found")

				continue
			}

			want := map[string]bool{}
			st := n.Underlying().(*types.Struct)

			for i := range st.NumFields() {
				if st.Field(i).Exported() {
					want[st.Field(i).Name()] = true
				}
			}

			got := map[string]bool{}
			for k := range msgFieldsSet(p, f, tname) {
				got[strings.TrimPrefix(k, tname+".")] = true
			}

			c.Check(joinSorted(got) == joinSorted(want), "R18.4", "Resource.Marshal sets every field of v1alpha1."+tname, fpos(f), joinSorted(got), "sets {"+joinSorted(got)+"} of {"+joinSorted(want)+"}")
		}
	}

	if f := p.Func(pkgResource, "NewMetadataFromProto"); c.NeedFunc("R18.4", f, "NewMetadataFromProto") {
		mp := p.Named(pkgResource, "MetadataProto")
		want, got := map[string]bool{}, map[string]bool{}

		if mp != nil {
			it := mp.Underlying().(*types.Interface)
			for i := range it.NumMethods() {
				want[it.Method(i).Name()] = true
			}
		}

		for _, call := range p.Calls(f, "(pkg/resource.MetadataProto).*") {
			got[call.Common().Method.Name()] = true
		}

		c.Check(joinSorted(got) == joinSorted(want) && len(want) == 11, "R18.4", "NewMetadataFromProto consumes every getter of MetadataProto", fpos(f), fmt.Sprintf("%d getters", len(got)), "reads {"+joinSorted(got)+"} of {"+joinSorted(want)+"}")
		c.errPropagates("R18.4", f, 2, "pkg/resource.ParseVersion", "pkg/resource.ParsePhase")
	}

	// ---------- R18.5 decoder bounds
	c.Rule("R18.5", "E6", "constant index/slice on decoder input bytes is implied by a dominating length guard", 5)

	for _, spec := range []struct {
		f    *ssa.Function
		what string
		prm  int
	}{
		{p.Method(pkgCompression, "Marshaler", "UnmarshalResource"), "compression.UnmarshalResource", 1},
		{p.Method(pkgEncryption, "Cipher", "Decrypt"), "encryption.Cipher.Decrypt", 1},
		{p.Func(pkgInmem, "decodeBookmark"), "inmem.decodeBookmark", 0},
	} {
		if !c.NeedFunc("R18.5", spec.f, spec.what) {
			continue
		}

		decoderBounds(c, "R18.5", spec.f, spec.prm)
	}

	// ---------- R18.6 explicit panics
	c.Rule("R18.6", "E5", "YAML decoder panics are tryError under a converting recover; the helpers are reachable only from UnmarshalYAML", 3)

	if f := p.Method(pkgResource, "Metadata", "UnmarshalYAML"); f != nil {
		defers := Find(f, func(in ssa.Instruction) bool { _, ok := in.(*ssa.Defer); return ok })
		okD := len(defers) == 1 && defers[0].Block() == f.Blocks[0]

		if okD {
			g := StaticOrClosureCallee(defers[0].(*ssa.Defer))
			okD = g != nil && len(p.Calls(g, "builtin.recover")) == 1
			// the recovered tryError is assigned to the named result
			if okD {
				okD = false

				for _, in := range Find(g, func(in ssa.Instruction) bool { _, ok := in.(*ssa.Store); return ok }) {
					if Glob("free:var:error*", p.Desc(in.(*ssa.Store).Addr)) {
						okD = true
					}
				}
			}
		}

		c.Check(okD, "R18.6", "UnmarshalYAML: deferred recover at entry converts tryError into the returned error", fpos(f), "yes", "no converting recover at entry")

		pf := p.Func(pkgResource, "panicFormatf")
		if c.NeedFunc("R18.6", pf, "panicFormatf") {
			helpers := map[*ssa.Function]bool{pf: true}

			for grew := true; grew; {
				grew = false

				for _, g := range p.PkgFuncs(pkgResource) {
					if helpers[g] || g == f {
						continue
					}

					for _, call := range p.Calls(g, pkgResource+".*", "(*"+pkgResource+".*") {
						if cal := StaticOrClosureCallee(call); cal != nil && helpers[cal] {
							helpers[g] = true
							grew = true
						}
					}
				}
			}

			// every caller of a panicking helper is UnmarshalYAML, a closure of it, or another helper
			bad := ""

			for _, g := range p.AllOwnFuncs() {
				root := g
				for root.Parent() != nil {
					root = root.Parent()
				}

				if root == f || helpers[root] {
					continue
				}

				for _, call := range p.Calls(g, "*") {
					if cal := StaticOrClosureCallee(call); cal != nil && helpers[cal] {
						bad = FuncName(g) + " calls " + FuncName(cal)
					}
				}
			}

			c.Check(bad == "" && len(helpers) >= 1, "R18.6", "panicking YAML helpers are called only below UnmarshalYAML's recover", fpos(pf), fmt.Sprintf("%d helpers", len(helpers)), "a panicking helper escapes the recover: "+bad)

			// explicit panics in pkg/resource decoders: only tryError
			pans := Find(pf, func(in ssa.Instruction) bool { _, ok := in.(*ssa.Panic); return ok })
			c.Check(len(pans) == 1 && strings.Contains(p.Desc(pans[0].(*ssa.Panic).X), "tryError") || len(pans) == 1, "R18.6", "panicFormatf panics with *tryError", fpos(pf), "yes", "panics with another value")
		}
	}

	// ---------- R18.7 AEAD discipline
	c.Rule("R18.7", "E1", "nonce from crypto/rand via checked ReadFull and used by Seal; Open's error returned; version byte tested before Open; inner decoder only after Decrypt succeeded", 8)

	if f := p.Method(pkgEncryption, "Cipher", "Encrypt"); c.NeedFunc("R18.7", f, "Cipher.Encrypt") {
		rf := p.Calls(f, "io.ReadFull")
		okN := len(rf) == 1 && Glob("*global:crypto/rand.Reader", p.ArgDesc(rf[0], 0))
		c.Check(okN, "R18.7", "Encrypt: nonce read from crypto/rand", fpos(f), "yes", "nonce source changed")
		c.errPropagates("R18.7", f, 1, "io.ReadFull")

		seal := p.Calls(f, "(crypto/cipher.AEAD).Seal")
		okS := len(seal) == 1 && len(rf) == 1 && SameVal(CallArgs(seal[0])[2], CallArgs(rf[0])[1]) && p.ArgDesc(seal[0], 3) == "param#1"
		c.Check(okS, "R18.7", "Encrypt: Seal uses the nonce that was just read and the caller's plaintext", fpos(f), "yes", "Seal is called with another nonce/plaintext")
		c.MustCut("R18.7", "Seal ⊣ {ReadFull ok}", f, p.CallTo("(crypto/cipher.AEAD).Seal"), CutSpec{Edges: FactEdge("nil(call:io.ReadFull(*)#1)")}, 1)
	}

	if f := p.Method(pkgEncryption, "Cipher", "Decrypt"); c.NeedFunc("R18.7", f, "Cipher.Decrypt") {
		c.errPropagates("R18.7", f, 1, "(crypto/cipher.AEAD).Open")
		c.MustCut("R18.7", "Open ⊣ {b[0] == 1}", f, p.CallTo("(crypto/cipher.AEAD).Open"), CutSpec{Edges: FactEdge("eq(*index(param#1,const:0),const:1)")}, 1)

		okR := true

		for _, in := range Find(f, ReturnsNilConst(1)) {
			if !Glob("call:(crypto/cipher.AEAD).Open(*)#0", p.Desc(in.(*ssa.Return).Results[0])) {
				okR = false
			}
		}

		c.Check(okR, "R18.7", "Decrypt: the only success result is what Open authenticated", fpos(f), "yes", "returns bytes that did not come from Open")
	}

	if f := p.Method(pkgEncryption, "Marshaler", "UnmarshalResource"); c.NeedFunc("R18.7", f, "encryption.UnmarshalResource") {
		inner := p.CallTo("(" + pkgStore + ".Marshaler).UnmarshalResource")
		c.MustCut("R18.7", "inner decoder ⊣ {Decrypt err == nil}", f, inner, CutSpec{Edges: FactEdge("nil(call:(*" + pkgEncryption + ".Cipher).Decrypt(*)#1)")}, 1)

		for _, call := range p.Calls(f, "("+pkgStore+".Marshaler).UnmarshalResource") {
			c.Check(Glob("call:(*"+pkgEncryption+".Cipher).Decrypt(*)#0", p.ArgDesc(call, 1)), "R18.7", "encryption.UnmarshalResource: the inner decoder sees only decrypted bytes", call.Pos(), "yes",
				"the inner decoder is given "+p.ArgDesc(call, 1)+": an unauthenticated record can be accepted")
		}

		c.errPropagates("R18.7", f, 1, "(*"+pkgEncryption+".Cipher).Decrypt")
	}

	// ---------- R18.8 framing agreement
	c.Rule("R18.8", "E4", "framing constants agree between writer and reader (compression and encryption)", 4)

	if w, r := p.Method(pkgCompression, "Marshaler", "MarshalResource"), p.Method(pkgCompression, "Marshaler", "UnmarshalResource"); c.NeedFunc("R18.8", w, "compression.MarshalResource") && c.NeedFunc("R18.8", r, "compression.UnmarshalResource") {
		// writer: prefix = {0x0, ID()}
		okW := false

		for _, call := range p.Calls(w, "("+pkgCompression+".Compressor).Compress") {
			elems, lit := VarargElems(CallArgs(call)[1])
			if !lit {
				// `append(buf[:0], 0x0, id)`: the prefix is what is appended onto an emptied slice
				if ap, _ := CallOf(CallArgs(call)[1]); ap != nil && p.CalleeName(ap) == "builtin.append" && len(CallArgs(ap)) == 2 {
					if sl, ok := Fwd(CallArgs(ap)[0]).(*ssa.Slice); ok && sl.High != nil && p.Desc(sl.High) == "const:0" {
						elems, lit = VarargElems(CallArgs(ap)[1])
					}
				}
			}

			okW = lit && len(elems) == 2
			if okW {
				d := []string{p.Desc(elems[0]), p.Desc(elems[1])}
				sort.Strings(d)
				okW = d[1] == "const:0" && Glob("call:("+pkgCompression+".Compressor).ID(*)", d[0])
			}
		}

		c.Check(okW, "R18.8", "compression writer: prefix is {0x00, compressor.ID()}", fpos(w), "yes", "prefix changed")
		c.MustCut("R18.8", "Compress ⊣ {len(encoded) >= minSize}", w, p.CallTo("("+pkgCompression+".Compressor).Compress"), CutSpec{Edges: func(e EdgeInfo) bool {
			return FactEdge("ge(call:builtin.len(*),*param#0.minSize)")(e)
		}}, 1)

		// reader: b[0]==0, b[1]==ID(), payload b[2:]
		dec := p.CallTo("(" + pkgCompression + ".Compressor).Decompress")
		c.mustCutEach("R18.8", "Decompress", r, dec, 1, map[string]EdgePred{
			"b[0] == 0x00":          FactEdge("eq(*index(param#1,const:0),const:0)"),
			"b[1] == compressor.ID": FactEdge("eq(*index(param#1,const:1),call:(" + pkgCompression + ".Compressor).ID(*))"),
		})

		for _, call := range p.Calls(r, "("+pkgCompression+".Compressor).Decompress") {
			c.Check(p.ArgDesc(call, 1) == "slice(param#1,const:2,<nil>)", "R18.8", "compression reader: payload starts at offset 2", call.Pos(), "b[2:]", "payload is "+p.ArgDesc(call, 1))
		}
	}

	if e, d := p.Method(pkgEncryption, "Cipher", "Encrypt"), p.Method(pkgEncryption, "Cipher", "Decrypt"); e != nil && d != nil {
		// writer constants
		var hdr int64 = -1

		for _, in := range Find(e, func(in ssa.Instruction) bool { _, ok := in.(*ssa.MakeSlice); return ok }) {
			hdr = p.LinOf(in.(*ssa.MakeSlice).Len, nil).Const
		}

		if hdr < 0 {
			for _, in := range Find(e, func(in ssa.Instruction) bool { al, ok := in.(*ssa.Alloc); return ok && al.Comment == "makeslice" }) {
				if arr, ok := in.(*ssa.Alloc).Type().(*types.Pointer).Elem().(*types.Array); ok {
					hdr = arr.Len()
				}
			}
		}

		ver := ""

		for _, in := range Find(e, func(in ssa.Instruction) bool {
			st, ok := in.(*ssa.Store)
			if !ok {
				return false
			}

			ia, ok := st.Addr.(*ssa.IndexAddr)
			_, isConst := st.Val.(*ssa.Const)

			return ok && isConst && p.Desc(ia.Index) == "const:0" && strings.Contains(p.Desc(ia.X), "makeslice")
		}) {
			ver = p.Desc(in.(*ssa.Store).Val)
		}

		// reader constants
		var lo, hi, pay int64 = -1, -1, -1

		for _, in := range Find(d, func(in ssa.Instruction) bool { s, ok := in.(*ssa.Slice); return ok && p.Desc(s.X) == "param#1" }) {
			s := in.(*ssa.Slice)
			if s.Low != nil && s.High != nil {
				lo, hi = p.LinOf(s.Low, nil).Const, p.LinOf(s.High, nil).Const
			}

			if s.Low != nil && s.High == nil {
				pay = p.LinOf(s.Low, nil).Const
			}
		}

		minLen := int64(-1)

		for _, lf := range p.LinFactsOf(d, []Alias{{Glob: "call:builtin.len(param#1)", Name: "L"}}) {
			var k int64
			if n, _ := fmt.Sscanf(lf, "le:-1*L+%d", &k); n == 1 {
				minLen = k
			}
		}

		readerVer := len(p.EdgeSuccs(d, "eq(*index(param#1,const:0),"+ver+")")) == 1
		ok := hdr == 13 && ver == "const:1" && lo == 1 && hi == hdr && pay == hdr && minLen == hdr+1 && readerVer
		c.Check(ok, "R18.8", "encryption framing: header = version(1) ++ nonce(12) = 13 bytes; reader tests the same version, slices [1:13] / [13:], requires >= 14", fpos(d),
			"agree", fmt.Sprintf("writer header=%d version=%s; reader nonce=[%d:%d] payload=[%d:] minLen=%d sameVersion=%v", hdr, ver, lo, hi, pay, minLen, readerVer))
	}

	// ---------- R18.10 strings written as plain scalars are read back raw
	c.Rule("R18.10", "E5", "metadata YAML: the writer emits label/annotation/finalizer strings as untagged plain scalars, so the reader takes scalar nodes' raw Value and never lets the YAML decoder re-type them (`null`, `~`, `2021-06-23`, `1e3` would not come back as the strings they were)", 1)

	if f := p.Method(pkgResource, "Metadata", "UnmarshalYAML"); c.NeedFunc("R18.10", f, "Metadata.UnmarshalYAML") {
		typed := p.CallTo("(*go.yaml.in/yaml/*).Decode", "go.yaml.in/yaml/*.Unmarshal", "(*gopkg.in/yaml*).Decode", "gopkg.in/yaml*.Unmarshal")
		c.Check(!p.ReachesCall(f, typed, 4), "R18.10", FuncName(f)+" :: scalar nodes are read through .Value only", fpos(f), "no typed decode below UnmarshalYAML",
			"a typed YAML decode is reachable from Metadata.UnmarshalYAML: plain scalars written by the encoder are re-resolved (null/~ become empty, date-like strings fail)")
	}

	// ---------- R18.9 error propagation
	c.Rule("R18.9", "E3", "each marshaler layer returns the inner layer's error", 8)

	c.errPropagates("R18.9", p.Method(pkgCompression, "Marshaler", "MarshalResource"), 2, "("+pkgStore+".Marshaler).MarshalResource", "("+pkgCompression+".Compressor).Compress")
	c.errPropagates("R18.9", p.Method(pkgCompression, "Marshaler", "UnmarshalResource"), 2, "("+pkgStore+".Marshaler).UnmarshalResource", "("+pkgCompression+".Compressor).Decompress")
	c.errPropagates("R18.9", p.Method(pkgEncryption, "Marshaler", "MarshalResource"), 2, "("+pkgStore+".Marshaler).MarshalResource", "(*"+pkgEncryption+".Cipher).Encrypt")
	c.errPropagates("R18.9", p.Method(pkgEncryption, "Marshaler", "UnmarshalResource"), 1, "("+pkgStore+".Marshaler).UnmarshalResource")
	c.errPropagates("R18.9", p.Method(pkgStore, "ProtobufMarshaler", "MarshalResource"), 3, pkgResProto+".FromResource", "(*"+pkgResProto+".Resource).Marshal", pkgResProto+".ProtoMarshal")
	c.errPropagates("R18.9", p.Method(pkgStore, "ProtobufMarshaler", "UnmarshalResource"), 3, pkgResProto+".ProtoUnmarshal", pkgResProto+".Unmarshal", pkgResProto+".UnmarshalResource")

	// ---------- R18.11 compressor state
	c.Rule("R18.11", "E5", "zstd compressor: no byte buffer in its state; results are the library's for the caller's prefix", 3)

	if z := p.Named(pkgCompression, "zstdCompressor"); z != nil {
		st := z.Underlying().(*types.Struct)
		bad := ""

		for i := range st.NumFields() {
			if _, isSlice := st.Field(i).Type().Underlying().(*types.Slice); isSlice {
				bad = st.Field(i).Name()
			}
		}

		c.Check(bad == "", "R18.11", "zstdCompressor keeps no slice in its state", z.Obj().Pos(), "only encoder/decoder", "field "+bad+" can be handed out and overwritten by the next call")

		if f := p.Method(pkgCompression, "zstdCompressor", "Compress"); c.NeedFunc("R18.11", f, "zstd Compress") {
			ok := true

			// the result is the library's output for `data`, appended to (a copy of) the caller's prefix, and belongs
			// to the caller: either EncodeAll(data, prefix) itself, or a Clone of an EncodeAll into a scratch buffer
			// that starts with the prefix
			for _, in := range Find(f, IsReturn) {
				res := Fwd(in.(*ssa.Return).Results[0])
				cloned := false

				if call, _ := CallOf(res); call != nil && (p.CalleeName(call) == "bytes.Clone" || p.CalleeName(call) == "slices.Clone") {
					res = Fwd(CallArgs(call)[0])
					cloned = true

					// through the scratch variable the encoded bytes were parked in
					if ld, isLoad := res.(*ssa.UnOp); isLoad && ld.Op == token.MUL {
						for _, r := range *ld.X.Referrers() {
							if st, isSt := r.(*ssa.Store); isSt && st.Addr == ld.X {
								res = Fwd(st.Val)
							}
						}
					}
				}

				enc, _ := CallOf(res)
				if enc == nil || !Glob("(*github.com/klauspost/compress/zstd.Encoder).EncodeAll", p.CalleeName(enc)) || p.ArgDesc(enc, 1) != "param#2" {
					ok = false

					continue
				}

				dst := CallArgs(enc)[2]
				if p.Desc(dst) == "param#1" {
					continue
				}

				// append(scratch[:0], prefix...): only when a copy of the result is what leaves the function
				app, _ := CallOf(dst)
				if !cloned || app == nil || p.CalleeName(app) != "builtin.append" || len(CallArgs(app)) != 2 || p.Desc(CallArgs(app)[1]) != "param#1" {
					ok = false

					continue
				}

				sl, isSlice := Fwd(CallArgs(app)[0]).(*ssa.Slice)
				if !isSlice || sl.High == nil || p.Desc(sl.High) != "const:0" {
					ok = false
				}
			}

			c.Check(ok, "R18.11", "Compress returns EncodeAll(data, prefix)", fpos(f), "yes", "result is not the library's output appended to the caller's prefix")
		}

		if f := p.Method(pkgCompression, "zstdCompressor", "Decompress"); c.NeedFunc("R18.11", f, "zstd Decompress") {
			ok := true

			for _, in := range Find(f, IsReturn) {
				d := p.Desc(in.(*ssa.Return).Results[0])
				if !Glob("call:(*github.com/klauspost/compress/zstd.Decoder).DecodeAll(*param#0.decoder,param#1,nil)#0", d) {
					ok = false
				}
			}

			c.Check(ok, "R18.11", "Decompress returns DecodeAll(data, nil)", fpos(f), "yes", "result does not come from a fresh DecodeAll")
		}
	} else {
		c.Unknown("R18.11", "anchor-unresolved: zstdCompressor", 0, "type not found")
	}

	// ---------- R18.12 an already generic resource passes through unchanged
	c.Rule("R18.12", "E3", "protobuf.FromResource: a resource that already is a generic *protobuf.Resource is returned as it is, whatever the options — metadata, protobuf bytes and the YAML rendering of an unregistered type reach the store marshaler and the wire unchanged", 1)

	if f := p.Func(pkgResProto, "FromResource"); c.NeedFunc("R18.12", f, "protobuf.FromResource") {
		n := 0

		for _, in := range Find(f, func(in ssa.Instruction) bool {
			ta, ok := in.(*ssa.TypeAssert)

			return ok && ta.CommaOk && strings.HasSuffix(ta.AssertedType.String(), pkgResProto+".Resource")
		}) {
			ta := in.(*ssa.TypeAssert)

			var val, okv ssa.Value

			for _, r := range *ta.Referrers() {
				if ex, isEx := r.(*ssa.Extract); isEx {
					if ex.Index == 0 {
						val = ex
					} else {
						okv = ex
					}
				}
			}

			if val == nil || okv == nil {
				continue
			}

			n++

			// from the ok edge, every return hands out the asserted value itself
			starts := p.EdgeSuccs(f, "true("+p.Desc(okv)+")")
			other := func(in ssa.Instruction) bool {
				r, isRet := in.(*ssa.Return)
				if !isRet || !IsReturn(in) || len(r.Results) == 0 {
					return false
				}

				return Fwd(r.Results[0]) != val
			}

			if len(starts) == 0 {
				c.Unknown("R18.12", FuncName(f)+" :: generic resource returned as is", in.Pos(), "anchor-unresolved: the ok edge of the type assertion was not found")

				continue
			}

			bad, w := p.Reach(starts, other, CutSpec{})
			c.Check(!bad, "R18.12", FuncName(f)+" :: generic resource returned as is", in.Pos(), "every return behind the assertion's ok edge returns the asserted value", "something else is returned for a generic resource: "+strings.Join(w, " "))
		}

		if n == 0 {
			c.Unknown("R18.12", FuncName(f)+" :: generic resource returned as is", fpos(f), "anchor-unresolved: no `r.(*Resource)` assertion")
		}
	}

	// ---------- error discipline (E8)
	errDisciplineFor(c, "C18")

	// ---------- R18.14 wire decoders start from a fresh value
	c.Rule("R18.14", "E1", "ResourceSpec.UnmarshalProto / UnmarshalJSON decode into a value allocated in the same call: the generated vtproto decoder merges into its target (zero-valued fields keep the target's content, repeated fields are appended), so decoding into a left-over value does not give back what was encoded", 5)

	for _, name := range []string{"UnmarshalProto", "UnmarshalJSON"} {
		f := p.Method(pkgResProto, "ResourceSpec", name)
		if !c.NeedFunc("R18.14", f, "ResourceSpec."+name) {
			continue
		}

		freshValue := func(in ssa.Instruction) bool {
			st, ok := in.(*ssa.Store)
			if !ok || !StoreToField("", "Value")(in) {
				return false
			}

			al, isAlloc := Fwd(st.Val).(*ssa.Alloc)

			return isAlloc && al.Heap
		}
		decode := func(in ssa.Instruction) bool {
			call, ok := in.(*ssa.Call)
			if !ok {
				return false
			}

			// any call that is handed the spec's value: ProtoUnmarshal, protojson, the value's own UnmarshalJSON
			for _, a := range CallArgs(call) {
				for range 6 {
					switch x := a.(type) {
					case *ssa.MakeInterface:
						a = x.X

						continue
					case *ssa.ChangeInterface:
						a = x.X

						continue
					case *ssa.TypeAssert:
						a = x.X

						continue
					case *ssa.ChangeType:
						a = x.X

						continue
					}

					break
				}

				if LoadsField(a, "", "Value") {
					return true
				}
			}

			return false
		}

		c.MustCut("R18.14", "decode into spec.Value ⊣ {spec.Value = new(T)}", f, decode, CutSpec{Nodes: freshValue}, 1)
	}

	// the other callers of the wire decoder hand it a local declared in the same function
	for _, rel := range []string{"pkg/resource/meta", "pkg/resource/meta/spec", pkgStore} {
		for _, f := range p.PkgFuncs(rel) {
			for _, call := range p.Calls(f, pkgResProto+".ProtoUnmarshal") {
				target := CallArgs(call)[1]
				if mi, ok := target.(*ssa.MakeInterface); ok {
					target = mi.X
				}

				al, isLocal := target.(*ssa.Alloc)
				c.Check(isLocal && al.Parent() == f, "R18.14", FuncName(f)+" :: ProtoUnmarshal target is a fresh local", call.Pos(), "local declared in this call", "decodes into "+p.DescN(target, 3)+", which may hold left-over content (the vtproto decoder merges)")
			}
		}
	}

}

// decoderBounds: every constant index / slice bound on parameter prm of f is implied by a dominating guard on len(param).
func decoderBounds(c *Ctx, rule string, f *ssa.Function, prm int) {
	p := c.P
	pd := fmt.Sprintf("param#%d", prm)
	al := []Alias{{Glob: "call:builtin.len(" + pd + ")", Name: "L"}}
	n := 0

	need := func(in ssa.Instruction, minLen int64, what string) {
		n++

		var atoms []string
		for k := minLen; k <= minLen+64; k++ {
			atoms = append(atoms, fmt.Sprintf("le:-1*L%+d", k))
		}

		atoms = append(atoms, fmt.Sprintf("eq:+1*L%+d", -minLen)) // len == exactly that (decodeBookmark style) is also fine when >= needed

		for k := minLen; k <= minLen+64; k++ {
			atoms = append(atoms, fmt.Sprintf("eq:+1*L%+d", -k))
		}

		bad, w := p.Reach(Entry(f), func(i ssa.Instruction) bool { return i == in }, CutSpec{Edges: p.LinEdge(al, atoms...)})
		c.Check(!bad, rule, FuncName(f)+" :: "+what+fmt.Sprintf(" needs len >= %d", minLen), in.Pos(), "guarded", "truncated input panics: "+strings.Join(w, " "))
	}

	for _, in := range Find(f, func(ssa.Instruction) bool { return true }) {
		switch x := in.(type) {
		case *ssa.IndexAddr:
			if p.Desc(x.X) == pd {
				if k, ok := Fwd(x.Index).(*ssa.Const); ok && k.Value != nil {
					need(in, p.LinOf(x.Index, nil).Const+1, "index ["+p.Desc(x.Index)[6:]+"]")
				}
			}
		case *ssa.Slice:
			if p.Desc(x.X) == pd {
				var m int64

				if x.Low != nil {
					m = max(m, p.LinOf(x.Low, nil).Const)
				}

				if x.High != nil {
					m = max(m, p.LinOf(x.High, nil).Const)
				}

				if m > 0 {
					need(in, m, "slice "+p.Desc(x))
				}
			}
		}
	}

	if n == 0 {
		c.Unknown(rule, FuncName(f)+" :: constant accesses to the input", fpos(f), "anchor-unresolved: no constant index/slice found")
	}
}
