package lint

import (
	"fmt"
	"go/constant"
	"go/types"
	"strings"

	"golang.org/x/tools/go/ssa"
)

// ConstVal returns the exact value of a package-level constant as rendered in Desc ("const:1").
func (p *Program) ConstVal(rel, name string) string {
	sp := p.Pkg(rel)
	if sp == nil {
		return "const:?" + name
	}

	c, ok := sp.Pkg.Scope().Lookup(name).(*types.Const)
	if !ok {
		return "const:?" + name
	}

	if c.Val().Kind() == constant.String {
		return "const:" + c.Val().ExactString()
	}

	return "const:" + c.Val().String()
}

// ClosureWith finds the (unique, else first) anonymous function nested anywhere inside f that
// contains an instruction selected by pred. Closures are identified by role, not by index.
func ClosureWith(f *ssa.Function, pred InstrPred) *ssa.Function {
	if f == nil {
		return nil
	}

	for _, a := range f.AnonFuncs {
		if len(Find(a, pred)) > 0 {
			return a
		}

		if g := ClosureWith(a, pred); g != nil {
			return g
		}
	}

	return nil
}

// AllClosures returns every anonymous function nested inside f (pre-order).
func AllClosures(f *ssa.Function) []*ssa.Function {
	var out []*ssa.Function

	if f == nil {
		return nil
	}

	for _, a := range f.AnonFuncs {
		out = append(out, a)
		out = append(out, AllClosures(a)...)
	}

	return out
}

// GoClosures returns the closures of f started with a `go` statement, in order.
func GoClosures(f *ssa.Function) []*ssa.Function {
	var out []*ssa.Function

	for _, in := range Find(f, func(in ssa.Instruction) bool { _, ok := in.(*ssa.Go); return ok }) {
		if fn := StaticOrClosureCallee(in.(*ssa.Go)); fn != nil {
			out = append(out, fn)
		}
	}

	return out
}

// ReturnsNilConst selects Return instructions whose result #idx is the nil constant.
func ReturnsNilConst(idx int) InstrPred {
	return func(in ssa.Instruction) bool {
		r, ok := in.(*ssa.Return)
		if !ok || idx >= len(r.Results) || !IsReturn(in) {
			return false
		}

		return isNilConst(Fwd(r.Results[idx]))
	}
}

// ReturnsNonNilConst selects Return instructions whose result #idx is NOT the nil constant.
func ReturnsNonNil(idx int) InstrPred {
	return func(in ssa.Instruction) bool {
		r, ok := in.(*ssa.Return)
		if !ok || idx >= len(r.Results) || !IsReturn(in) {
			return false
		}

		return !isNilConst(Fwd(r.Results[idx]))
	}
}

// ArgDesc returns Desc of argument i (receiver = 0 for methods/invokes) of a call.
func (p *Program) ArgDesc(c ssa.CallInstruction, i int) string {
	args := CallArgs(c)
	if i >= len(args) {
		return "<none>"
	}

	return p.DescN(args[i], 6)
}

// VarargElems returns the values stored into the backing array of a variadic argument slice
// built at the call site (`f(a, b...)` literal form `new [n]T; store; slice`). ok=false when the
// argument is not such a freshly built array. A nil slice yields (nil, true).
func VarargElems(v ssa.Value) ([]ssa.Value, bool) {
	v = Fwd(v)
	if isNilConst(v) {
		return nil, true
	}

	sl, ok := v.(*ssa.Slice)
	if !ok {
		return nil, false
	}

	al, ok := sl.X.(*ssa.Alloc)
	if !ok {
		return nil, false
	}

	var out []ssa.Value

	for _, r := range *al.Referrers() {
		ia, ok := r.(*ssa.IndexAddr)
		if !ok {
			continue
		}

		for _, rr := range *ia.Referrers() {
			if st, ok := rr.(*ssa.Store); ok && st.Addr == ssa.Value(ia) {
				out = append(out, st.Val)
			}
		}
	}

	return out, true
}

// Calls returns all call instructions (call/go/defer) in f matching the globs.
func (p *Program) Calls(f *ssa.Function, globs ...string) []ssa.CallInstruction {
	var out []ssa.CallInstruction

	for _, in := range Find(f, p.CallTo(globs...)) {
		out = append(out, in.(ssa.CallInstruction))
	}

	return out
}

// ImplementsIface reports whether named type (or its pointer) has every method of iface.
func ImplementsIface(t types.Type, iface *types.Interface) bool {
	return types.Implements(t, iface) || types.Implements(types.NewPointer(t), iface)
}

// HasMethod reports whether T or *T has a method with that name.
func HasMethod(t types.Type, name string) bool {
	for _, tt := range []types.Type{t, types.NewPointer(t)} {
		ms := types.NewMethodSet(tt)
		for i := range ms.Len() {
			if ms.At(i).Obj().Name() == name {
				return true
			}
		}
	}

	return false
}

// ConstsOfType lists the package-level constants of the named type declared in its package,
// as name -> exact value string, in declaration-independent (sorted by name) order.
func (p *Program) ConstsOfType(rel, typeName string) map[string]string {
	out := map[string]string{}

	n := p.Named(rel, typeName)
	if n == nil {
		return out
	}

	scope := n.Obj().Pkg().Scope()
	for _, name := range scope.Names() {
		if c, ok := scope.Lookup(name).(*types.Const); ok && types.Identical(c.Type(), n) {
			out[name] = c.Val().ExactString()
		}
	}

	return out
}

func short(s string, n int) string {
	if len(s) <= n {
		return s
	}

	return s[:n] + "…"
}

func joinSorted(m map[string]bool) string {
	var ks []string
	for k := range m {
		ks = append(ks, k)
	}

	sortStrings(ks)

	return strings.Join(ks, ",")
}

func sortStrings(s []string) {
	for i := 1; i < len(s); i++ {
		for j := i; j > 0 && s[j] < s[j-1]; j-- {
			s[j], s[j-1] = s[j-1], s[j]
		}
	}
}

var _ = fmt.Sprintf

// RetIs selects normal Return instructions whose result #idx has a Desc matching one of the globs.
func (p *Program) RetIs(idx int, globs ...string) InstrPred {
	return func(in ssa.Instruction) bool {
		r, ok := in.(*ssa.Return)
		if !ok || !IsReturn(in) || idx >= len(r.Results) {
			return false
		}

		return GlobAny(globs, p.Desc(r.Results[idx]))
	}
}

// AndInstr is the intersection of instruction predicates.
func AndInstr(ps ...InstrPred) InstrPred {
	return func(in ssa.Instruction) bool {
		for _, f := range ps {
			if !f(in) {
				return false
			}
		}

		return true
	}
}

// EdgeSuccs returns the start locations of the successor blocks of every If edge of f that carries
// a fact matching one of the globs.
func (p *Program) EdgeSuccs(f *ssa.Function, globs ...string) []Loc {
	var out []Loc

	if f == nil || len(f.Blocks) == 0 {
		return nil
	}

	// edges whose fact only shows once joined values are resolved on the path (`if ok` where ok is a
	// helper's `a || b` result): found by a search from the entry that stops at them
	type ek struct{ b, pred *ssa.BasicBlock }

	static := map[ek]bool{}

	for _, b := range f.Blocks {
		if len(b.Instrs) == 0 {
			continue
		}

		ifi, ok := b.Instrs[len(b.Instrs)-1].(*ssa.If)
		if !ok {
			continue
		}

		for k, succ := range b.Succs {
			for _, fact := range p.Facts(ifi.Cond, k == 0) {
				if GlobAny(globs, fact) {
					known, _ := trackEq("", fact)
					out = append(out, Loc{B: succ, Known: known, Pred: b})
					static[ek{succ, b}] = true
				}
			}
		}
	}

	func() {
		seen := map[string]bool{}

		p.Reach(Entry(f), func(ssa.Instruction) bool { return false }, CutSpec{Edges: FactEdge(globs...), Collect: func(l Loc) {
			if static[ek{l.B, l.Pred}] {
				return
			}

			k := fmt.Sprintf("%p|%p|%s", l.B, l.Pred, l.env.key)
			if !seen[k] {
				seen[k] = true
				out = append(out, l)
			}
		}})
	}()

	return out
}

// NoReach: obligation that no TARGET is reachable from the given starts (optionally cut).
func (c *Ctx) NoReach(rule, what string, f *ssa.Function, starts []Loc, minStarts int, target InstrPred, cut CutSpec) bool {
	construct := FuncName(f) + " :: " + what
	if !c.NeedFunc(rule, f, construct) {
		return false
	}

	if len(starts) < minStarts {
		c.Unknown(rule, construct, fpos(f), fmt.Sprintf("anchor-unresolved: expected >= %d start edges/instructions, found %d", minStarts, len(starts)))

		return false
	}

	bad, w := c.P.Reach(starts, target, cut)
	if bad {
		c.Bad(rule, construct, fpos(f), "reachable: "+strings.Join(w, " "))

		return false
	}

	c.OK(rule, construct, fpos(f), fmt.Sprintf("unreachable from %d start(s)", len(starts)))

	return true
}

// ConstsByPrefix lists package-level constants whose name starts with prefix (used where the
// enum type is an alias of int and constants cannot be found by type).
func (p *Program) ConstsByPrefix(rel, prefix string) map[string]string {
	out := map[string]string{}

	sp := p.Pkg(rel)
	if sp == nil {
		return out
	}

	for _, name := range sp.Pkg.Scope().Names() {
		if c, ok := sp.Pkg.Scope().Lookup(name).(*types.Const); ok && strings.HasPrefix(name, prefix) {
			out[name] = c.Val().ExactString()
		}
	}

	return out
}

// DynTypes lists the concrete types (module-relative) an interface value is built from, looking
// through phis; "" entries stand for values whose concrete type is not visible (calls, parameters).
func (p *Program) DynTypes(v ssa.Value) []string {
	seen := map[ssa.Value]bool{}

	var out []string

	var walk func(v ssa.Value)

	walk = func(v ssa.Value) {
		if v == nil || seen[v] {
			return
		}

		seen[v] = true

		switch x := v.(type) {
		case *ssa.MakeInterface:
			out = append(out, trimMod(types.TypeString(x.X.Type(), nil)))
		case *ssa.ChangeInterface:
			walk(x.X)
		case *ssa.Phi:
			for _, e := range x.Edges {
				walk(e)
			}
		default:
			out = append(out, "")
		}
	}

	walk(v)

	return out
}

// IsDynType reports whether v is an interface value built only from concrete type typ.
func (p *Program) IsDynType(v ssa.Value, typ string) bool {
	ts := p.DynTypes(v)
	if len(ts) == 0 {
		return false
	}

	for _, t := range ts {
		if t != typ {
			return false
		}
	}

	return true
}

// PhiLeaves resolves v through value joins (phis, also those left by inlined helpers' returns) to
// the set of values it can be, dropping nil constants (a nil is always guarded before use).
func PhiLeaves(v ssa.Value) []ssa.Value {
	var out []ssa.Value

	seen := map[ssa.Value]bool{}

	var walk func(v ssa.Value, d int)

	walk = func(v ssa.Value, d int) {
		v = Fwd(v)
		if v == nil || seen[v] || d > 8 {
			return
		}

		seen[v] = true

		if phi, ok := v.(*ssa.Phi); ok {
			for _, e := range phi.Edges {
				walk(e, d+1)
			}

			return
		}

		if isNilConst(v) {
			return
		}

		out = append(out, v)
	}

	walk(v, 0)

	return out
}

// LeavesMatch reports whether every non-nil value v can be matches one of the globs (at least one leaf).
func (p *Program) LeavesMatch(v ssa.Value, globs ...string) bool {
	ls := PhiLeaves(v)
	if len(ls) == 0 {
		return false
	}

	for _, l := range ls {
		if !GlobAny(globs, p.Desc(l)) {
			return false
		}
	}

	return true
}

// ProvenanceCall walks from v through loads and receivers/first arguments of calls (the chain
// a.b().c()) and returns the first call whose callee matches glob.
func (p *Program) ProvenanceCall(v ssa.Value, glob string, depth int) ssa.CallInstruction {
	for range depth {
		v = Fwd(v)

		switch x := v.(type) {
		case *ssa.Call:
			if Glob(glob, p.CalleeName(x)) {
				return x
			}

			args := CallArgs(x)
			if len(args) == 0 {
				return nil
			}

			v = args[0]
		case *ssa.UnOp:
			v = x.X
		case *ssa.Extract:
			v = x.Tuple
		case *ssa.FieldAddr:
			v = x.X
		default:
			return nil
		}
	}

	return nil
}

// CaseFieldTable extracts a translation table "switch case → constant stored to a field" without
// depending on where the struct literal is built. For every key whose case edge (fact caseFact(val))
// exists in f it returns the candidate constant c such that, on every path from the case edge to a
// SINK (the instruction that consumes the struct), the field's last store is c:
//
//	(A) the sink is unreachable from the case edge once stores of c are cut, and
//	(B) no store of another value is reachable from the case edge before the sink.
//
// The zero value needs no store: it is accepted on (B) alone when no store to the field can reach
// the case edge since the previous sink.
func (p *Program) CaseFieldTable(f *ssa.Function, caseFact func(val string) string, keys, cands map[string]string,
	storeOf func(val string) InstrPred, anyStore, sink InstrPred, zero string,
) map[string]string {
	tab := map[string]string{}

	for kname, kval := range keys {
		starts := p.EdgeSuccs(f, caseFact(kval))
		if len(starts) == 0 {
			continue
		}

		for _, cval := range cands {
			this := storeOf(cval)
			other := func(in ssa.Instruction) bool { return anyStore(in) && !this(in) }

			if badB, _ := p.Reach(starts, other, CutSpec{Nodes: sink, TrackEq: true}); badB {
				continue
			}

			badA, _ := p.Reach(starts, sink, CutSpec{Nodes: this, TrackEq: true})
			if badA && cval == zero {
				// still zero at the case edge?
				dirty := false

				for _, s := range starts {
					first := s.B.Instrs[0]
					if bad, _ := p.Reach(AfterTargets(f, anyStore), func(in ssa.Instruction) bool { return in == first }, CutSpec{Nodes: sink}); bad {
						dirty = true
					}
				}

				badA = dirty
			}

			if !badA {
				if _, dup := tab[kname]; dup {
					tab[kname] = "ambiguous"
				} else {
					tab[kname] = cval
				}
			}
		}
	}

	return tab
}

// FieldOfLeaves reports whether v is a load of field `field` of a struct pointer X, where every
// non-nil value X can be (through joins) matches one of the globs.
func (p *Program) FieldOfLeaves(v ssa.Value, field string, globs ...string) bool {
	v = Fwd(v)
	if cv, ok := v.(*ssa.Convert); ok {
		v = Fwd(cv.X) // string(b) / []byte(s)
	}

	load, ok := v.(*ssa.UnOp)
	if !ok {
		return false
	}

	fa, ok := load.X.(*ssa.FieldAddr)
	if !ok {
		return false
	}

	if _, fn := FieldOf(fa.X, fa.Field); fn != field {
		return false
	}

	return p.LeavesMatch(fa.X, globs...)
}

// FlowsToReturn reports whether v is returned, directly or through value joins (phis) and
// interface re-typing.
func FlowsToReturn(v ssa.Value) bool {
	seen := map[ssa.Value]bool{}

	var walk func(v ssa.Value, d int) bool

	walk = func(v ssa.Value, d int) bool {
		if v == nil || seen[v] || d > 8 || v.Referrers() == nil {
			return false
		}

		seen[v] = true

		for _, r := range *v.Referrers() {
			switch x := r.(type) {
			case *ssa.Return:
				return true
			case *ssa.Phi:
				if walk(x, d+1) {
					return true
				}
			case *ssa.ChangeInterface:
				if walk(x, d+1) {
					return true
				}
			}
		}

		return false
	}

	return walk(v, 0)
}

// BodyWith finds the function body that plays a per-item / per-call role below f: the function
// literal nested in f that contains an instruction selected by pred or, failing that, an unexported
// function or method of the same package that f calls statically (left as a call by the normal form
// because it defers) and that contains one. Depth 2.
func (p *Program) BodyWith(f *ssa.Function, pred InstrPred) *ssa.Function {
	if f == nil {
		return nil
	}

	if g := ClosureWith(f, pred); g != nil {
		return g
	}

	var search func(f *ssa.Function, depth int) *ssa.Function

	search = func(f *ssa.Function, depth int) *ssa.Function {
		for _, b := range f.Blocks {
			for _, in := range b.Instrs {
				call, ok := in.(*ssa.Call)
				if !ok {
					continue
				}

				g := call.Call.StaticCallee()
				if g == nil || g.Parent() != nil || !isUnexported(g.Name()) || funcPkg(g) == nil || funcPkg(g) != funcPkg(rootFunc(f)) {
					continue
				}

				body := bodyOf(g)
				if body == nil {
					continue
				}

				if len(Find(body, pred)) > 0 {
					return body
				}

				if c := ClosureWith(body, pred); c != nil {
					return c
				}

				if depth > 0 {
					if r := search(body, depth-1); r != nil {
						return r
					}
				}
			}
		}

		return nil
	}

	return search(f, 1)
}

// AnyFact reports whether one of the facts carried by the edge satisfies pred.
func AnyFact(e EdgeInfo, pred func(string) bool) bool {
	for _, f := range e.Facts {
		if pred(f) {
			return true
		}
	}

	return false
}

// LoopCarried reports whether the derivation of v (through value joins, append bases and elements,
// slicing, conversions, loads of fields / elements — but not through index expressions, so loop
// counters do not count) contains a cycle: the value handed on in one iteration of a loop depends on
// what an earlier iteration computed. Joins of integer type are ignored (counters, offsets).
func LoopCarried(v ssa.Value) (bool, ssa.Value) {
	const (
		white = iota
		grey
		black
	)

	color := map[ssa.Value]int{}

	var (
		walk  func(v ssa.Value, d int) bool
		where ssa.Value
	)

	walk = func(v ssa.Value, d int) bool {
		if v == nil || d > 64 {
			return false
		}

		switch color[v] {
		case grey:
			where = v

			return true
		case black:
			return false
		}

		var next []ssa.Value

		switch x := v.(type) {
		case *ssa.Phi:
			if b, ok := x.Type().Underlying().(*types.Basic); ok && b.Info()&types.IsInteger != 0 {
				return false
			}

			next = x.Edges
		case *ssa.Call:
			if b, ok := x.Call.Value.(*ssa.Builtin); ok && b.Name() == "append" {
				next = x.Call.Args
			}
		case *ssa.Slice:
			next = []ssa.Value{x.X}
		case *ssa.Alloc:
			if x.Comment == "varargs" || x.Comment == "slicelit" || x.Comment == "complit" {
				if x.Referrers() != nil {
					for _, r := range *x.Referrers() {
						switch y := r.(type) {
						case *ssa.IndexAddr:
							if y.Referrers() != nil {
								for _, rr := range *y.Referrers() {
									if st, ok := rr.(*ssa.Store); ok && st.Addr == ssa.Value(y) {
										next = append(next, st.Val)
									}
								}
							}
						case *ssa.FieldAddr:
							if y.Referrers() != nil {
								for _, rr := range *y.Referrers() {
									if st, ok := rr.(*ssa.Store); ok && st.Addr == ssa.Value(y) {
										next = append(next, st.Val)
									}
								}
							}
						}
					}
				}
			}
		case *ssa.MakeInterface:
			next = []ssa.Value{x.X}
		case *ssa.ChangeType:
			next = []ssa.Value{x.X}
		case *ssa.ChangeInterface:
			next = []ssa.Value{x.X}
		case *ssa.Convert:
			next = []ssa.Value{x.X}
		case *ssa.UnOp:
			next = []ssa.Value{x.X}
		case *ssa.FieldAddr:
			next = []ssa.Value{x.X}
		case *ssa.Field:
			next = []ssa.Value{x.X}
		case *ssa.IndexAddr:
			next = []ssa.Value{x.X}
		case *ssa.Index:
			next = []ssa.Value{x.X}
		case *ssa.Extract:
			next = []ssa.Value{x.Tuple}
		case *ssa.BinOp:
			next = []ssa.Value{x.X, x.Y}
		}

		color[v] = grey

		for _, n := range next {
			if walk(n, d+1) {
				return true
			}
		}

		color[v] = black

		return false
	}

	if walk(v, 0) {
		return true, where
	}

	return false, nil
}
