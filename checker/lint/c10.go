package lint

import (
	"fmt"
	"go/token"
	"go/types"
	"strings"

	"golang.org/x/tools/go/ssa"
)

const pkgBolt = "pkg/state/impl/store/bolt"

func init() {
	register(&PropertyInfo{
		ID: "C10",
		Explanation: "Write-ahead shape, independent of where a fault is injected: in Create/Update/Destroy the in-memory write, publish and caller write-back are unreachable unless the edge `store == nil` or `BackingStore.Put/Destroy(...) == nil` was taken, and a store error is returned with nothing visible (R10.1/R10.2); " +
			"the object persisted is the object stored in memory (R10.1); each bolt Put/Destroy is exactly one db.Update transaction whose result is returned, marshalling happens before it, every bucket-operation error inside is returned, Load uses db.View and propagates unmarshal/handler errors, " +
			"and Put/Destroy/Load address the same (namespace, type, id) bucket path (R10.3); every public method of inmem.State passes loadStore()==nil before touching a collection, and loadStore sets `loaded` only after Load()==nil, under storeMu, re-checking the flag under the lock (R10.4).",
		NotCovered: "bbolt's atomic commit and fsync, OS/disk behaviour, crash points inside bbolt (trusted); equality of a reloaded resource with the stored one (round-trip clause of C18); histories.",
		Assumptions: []string{
			"bbolt DB.Update commits atomically and durably or returns an error (trusted library)",
			"paths are over-approximated; a discharged cut holds on all feasible paths",
		},
		Run: runC10,
	})
}

// errPropagates: for every call in f matching globs whose last result is an error, the error is
// used, and from the edge on which it is non-nil no `return nil` is reachable.
func (c *Ctx) errPropagates(rule string, f *ssa.Function, minCalls int, globs ...string) {
	p := c.P
	if !c.NeedFunc(rule, f, "error propagation") {
		return
	}

	calls := p.Calls(f, globs...)
	if len(calls) < minCalls {
		c.Unknown(rule, FuncName(f)+" :: error propagation", fpos(f), fmt.Sprintf("anchor-unresolved: expected >= %d calls to %s, found %d", minCalls, strings.Join(globs, "|"), len(calls)))

		return
	}

	for _, call := range calls {
		v := call.Value()
		if v == nil {
			continue // go/defer
		}

		sig := call.Common().Signature()
		n := sig.Results().Len()

		if n == 0 || !isErrorType(sig.Results().At(n-1).Type()) {
			continue
		}

		construct := FuncName(f) + " :: error of " + p.CalleeName(call) + " propagates"

		var errVal ssa.Value = v

		if n > 1 {
			errVal = nil

			for _, r := range *v.Referrers() {
				if ex, ok := r.(*ssa.Extract); ok && ex.Index == n-1 {
					errVal = ex
				}
			}
		}

		if errVal == nil || errVal.Referrers() == nil || len(*errVal.Referrers()) == 0 {
			c.Bad(rule, construct, call.Pos(), "the error result is dropped")

			continue
		}

		// returned or tested (through value joins)?
		direct := false
		seenV := map[ssa.Value]bool{}

		var uses func(v ssa.Value, d int)

		uses = func(v ssa.Value, d int) {
			if seenV[v] || d > 6 || v.Referrers() == nil {
				return
			}

			seenV[v] = true

			for _, r := range *v.Referrers() {
				switch x := r.(type) {
				case *ssa.Return:
					direct = true
				case *ssa.Phi:
					uses(x, d+1)
				case *ssa.ChangeInterface:
					uses(x, d+1)
				case *ssa.BinOp:
					if _, _, ok := nilTest(x); ok {
						direct = true
					}
				case *ssa.Store:
					// stored to a local that is tested / returned later: accept the store as a use, the
					// reachability test below decides
					if x.Val == v {
						direct = true
					}
				}
			}
		}

		uses(errVal, 0)

		// from just after the call, a success return needs the error's nil edge
		fnRes := f.Signature.Results().Len()
		bad := false

		var witness []string

		if fnRes > 0 && isErrorType(f.Signature.Results().At(fnRes-1).Type()) {
			this := func(in ssa.Instruction) bool { return in == ssa.Instruction(call.(*ssa.Call)) }
			nilLoad := func(e EdgeInfo) bool {
				// the error was stored to a local and the local is tested
				t, nilWhenTrue, ok := nilTest(e.Cond)
				if !ok || e.Taken != nilWhenTrue {
					return false
				}

				cl, idx := CallOf(t)

				return cl == call && (idx == -1 || idx == n-1)
			}

			if found, w := p.Reach(After(f, this), ReturnsNilConst(fnRes-1), CutSpec{Edges: OrEdge(NilEdgeOf(errVal), nilLoad)}); found {
				bad, witness = true, w
			}
		}

		switch {
		case bad:
			c.Bad(rule, construct, call.Pos(), "after the call a success return is reachable without the error having been seen nil: "+strings.Join(witness, " "))
		case !direct:
			c.Bad(rule, construct, call.Pos(), "the error is neither returned nor tested")
		default:
			c.OK(rule, construct, call.Pos(), "returned or tested; every success return after the call passes the error's nil edge")
		}
	}
}

func isErrorType(t types.Type) bool {
	return types.Identical(t, types.Universe.Lookup("error").Type())
}

func runC10(c *Ctx) {
	p := c.P

	fCreate := p.Method(pkgInmem, "ResourceCollection", "Create")
	fUpdate := p.Method(pkgInmem, "ResourceCollection", "Update")
	fDestroy := p.Method(pkgInmem, "ResourceCollection", "Destroy")

	// ---------- R10.1 write-ahead
	c.Rule("R10.1", "E1", "memory write / publish / caller write-back only after `store == nil` or the backing-store call returned nil; the persisted object is the stored object", 9)

	memEffects := OrInstr(MapWriteOnField("ResourceCollection", "storage"), p.CallTo(gPublish, gInject), writeBackToParam(p))
	durable := FactEdge("nil(*param#0.store)", factNil(gStorePut), factNil(gStoreDel))

	for _, f := range []*ssa.Function{fCreate, fUpdate, fDestroy} {
		c.MustCut("R10.1", "memory effects ⊣ {store==nil, store call==nil}", f, memEffects, CutSpec{Edges: durable}, 2)
		c.MustFollow("R10.1", "after the store call, success is returned only via its nil edge", f, p.CallTo(gStorePut, gStoreDel), ReturnsNilConst(0),
			CutSpec{Edges: FactEdge(factNil(gStorePut), factNil(gStoreDel))}, 1)
		c.errPropagates("R10.1", f, 1, gStorePut, gStoreDel)
	}

	// ---------- R10.2 no divergence
	c.Rule("R10.2", "E1", "no error return is reachable after a memory effect (memory and watchers never observe a failed write)", 3)

	for _, f := range []*ssa.Function{fCreate, fUpdate, fDestroy} {
		errReturn := func(in ssa.Instruction) bool {
			if !ReturnsNonNil(0)(in) {
				return false
			}

			return !Glob("call:(*pkg/resource.Metadata).SetOwner(call:(pkg/resource.Resource).Metadata(param#2),param#3)", p.Desc(in.(*ssa.Return).Results[0]))
		}

		c.MustFollow("R10.2", "after storage write/publish no error return", f,
			OrInstr(MapWriteOnField("ResourceCollection", "storage"), p.CallTo(gPublish, gInject)), errReturn, CutSpec{}, 1)
	}

	c.Rule("R10.1b", "E3", "the object given to the backing store is the deep copy that is stored and published (shared with R01.5)", 10)
	c01Effects(c, "R10.1b", fCreate, fUpdate, fDestroy)

	// ---------- R10.3 bolt transactions
	c.Rule("R10.3", "E5", "bolt store: one db.Update per Put/Destroy whose result is returned, marshal before the transaction, every bucket error returned, Load via db.View with errors propagated, same bucket path in Put/Destroy/Load", 14)

	nsKey := []string{"*free:param#0.namespace", "*param#0.namespace"}

	for _, name := range []string{"Put", "Destroy"} {
		f := p.Method(pkgBolt, "NamespacedBackingStore", name)
		if !c.NeedFunc("R10.3", f, pkgBolt+".NamespacedBackingStore."+name) {
			continue
		}

		ups := p.Calls(f, "(*go.etcd.io/bbolt.DB).*")
		ok := len(ups) == 1 && p.CalleeName(ups[0]) == "(*go.etcd.io/bbolt.DB).Update"
		c.Check(ok, "R10.3", FuncName(f)+" :: exactly one db.Update transaction", fpos(f), "one db.Update", fmt.Sprintf("%d bbolt.DB calls: %v", len(ups), calleeNames(p, ups)))

		if !ok {
			continue
		}

		// its result is what the function returns on the path through it
		c.MustFollow("R10.3", "db.Update result is returned", f, p.CallTo("(*go.etcd.io/bbolt.DB).Update"),
			func(in ssa.Instruction) bool {
				r, ok := in.(*ssa.Return)
				if !ok {
					return false
				}

				cl, _ := CallOf(r.Results[0])

				return cl != ups[0]
			}, CutSpec{}, 1)

		if name == "Put" {
			c.MustCut("R10.3", "db.Update ⊣ {MarshalResource err == nil}", f, p.CallTo("(*go.etcd.io/bbolt.DB).Update"),
				CutSpec{Edges: FactEdge(factNil("(pkg/state/impl/store.Marshaler).MarshalResource"))}, 1)
		}

		tx := StaticOrClosureCallee2(ups[0], 1)
		if !c.NeedFunc("R10.3", tx, FuncName(f)+" transaction closure") {
			continue
		}

		c.errPropagates("R10.3", tx, 3, "(*go.etcd.io/bbolt.Tx).*", "(*go.etcd.io/bbolt.Bucket).*")

		b1 := p.Calls(tx, "(*go.etcd.io/bbolt.Tx).CreateBucketIfNotExists")
		b2 := p.Calls(tx, "(*go.etcd.io/bbolt.Bucket).CreateBucketIfNotExists")
		okPath := len(b1) == 1 && len(b2) == 1 && GlobAny(nsKey, p.ArgDesc(b1[0], 1)) && Glob("free:param#2", p.ArgDesc(b2[0], 1)) &&
			p.LeavesMatch(CallArgs(b2[0])[0], "call:(*go.etcd.io/bbolt.Tx).CreateBucketIfNotExists(*)#0")
		c.Check(okPath, "R10.3", FuncName(tx)+" :: bucket path is namespace/type", fpos(tx), "namespace bucket then type bucket", "bucket path does not derive from (store.namespace, resourceType)")

		var leaf []ssa.CallInstruction
		if name == "Put" {
			leaf = p.Calls(tx, "(*go.etcd.io/bbolt.Bucket).Put")
		} else {
			leaf = p.Calls(tx, "(*go.etcd.io/bbolt.Bucket).Delete")
		}

		okLeaf := len(leaf) == 1
		d := ""

		if okLeaf {
			d = p.ArgDesc(leaf[0], 1)
			okLeaf = Glob("call:(pkg/resource.*).ID(*free:param#3*)", d) && p.LeavesMatch(CallArgs(leaf[0])[0], "call:(*go.etcd.io/bbolt.Bucket).CreateBucketIfNotExists(*)#0")

			if name == "Put" {
				okLeaf = okLeaf && Glob("free:call:(pkg/state/impl/store.Marshaler).MarshalResource(*param#3)#0", p.ArgDesc(leaf[0], 2))
			}
		}

		c.Check(okLeaf, "R10.3", FuncName(tx)+" :: key is the resource ID in the type bucket", fpos(tx), short(d, 100), "leaf operation key/value: "+d)
	}

	fl := p.Method(pkgBolt, "NamespacedBackingStore", "Load")
	if c.NeedFunc("R10.3", fl, pkgBolt+".NamespacedBackingStore.Load") {
		views := p.Calls(fl, "(*go.etcd.io/bbolt.DB).*")
		ok := len(views) == 1 && p.CalleeName(views[0]) == "(*go.etcd.io/bbolt.DB).View"
		c.Check(ok, "R10.3", FuncName(fl)+" :: exactly one db.View", fpos(fl), "one db.View", fmt.Sprintf("%d bbolt.DB calls", len(views)))

		for _, g := range AllClosures(fl) {
			c.Touch(g)

			for _, call := range p.Calls(g, "(*go.etcd.io/bbolt.Tx).Bucket") {
				c.Check(GlobAny(nsKey, p.ArgDesc(call, 1)) || Glob("*free:*param#0.namespace", p.ArgDesc(call, 1)), "R10.3", FuncName(g)+" :: Load reads the namespace bucket", call.Pos(), p.ArgDesc(call, 1), "bucket key "+p.ArgDesc(call, 1))
			}

			if len(p.Calls(g, "(pkg/state/impl/store.Marshaler).UnmarshalResource", "dyn:*")) > 0 {
				c.errPropagates("R10.3", g, 1, "(pkg/state/impl/store.Marshaler).UnmarshalResource")
			}

			for _, call := range p.Calls(g, "(*go.etcd.io/bbolt.Bucket).ForEach") {
				// ForEach's error is returned
				c.MustFollow("R10.3", "ForEach result is returned", g, func(in ssa.Instruction) bool { return in == call.(ssa.Instruction) },
					func(in ssa.Instruction) bool {
						r, ok := in.(*ssa.Return)
						if !ok {
							return false
						}

						cl, _ := CallOf(r.Results[0])

						return cl != call
					}, CutSpec{}, 1)
			}
		}

		// the handler's error is returned by the innermost closure
		inner := ClosureWith(fl, p.CallTo("(pkg/state/impl/store.Marshaler).UnmarshalResource"))
		if c.NeedFunc("R10.3", inner, "Load innermost closure") {
			hcalls := p.Calls(inner, "dyn:*")
			okH := false

			for _, hc := range hcalls {
				if FlowsToReturn(hc.Value()) {
					okH = true
				}

				okH = okH && Glob("call:(pkg/state/impl/store.Marshaler).UnmarshalResource(*)#0", p.ArgDesc(hc, 1))
			}

			c.Check(okH, "R10.3", FuncName(inner)+" :: handler receives the unmarshaled resource and its error is returned", fpos(inner), "yes", "handler result not returned or wrong argument")
		}
	}

	// ---------- R10.4 lazy load gate
	c.Rule("R10.4", "E1", "inmem.State: every public method passes loadStore()==nil before touching a collection; loaded.Store(true) only after Load()==nil, under storeMu, flag re-checked under the lock", 11)
	loadGate(c, "R10.4")

	// ---------- R10.5 the bytes handed to the store belong to the caller
	c.Rule("R10.5", "E3", "MarshalResource / Encrypt / Compress return bytes that share no storage with anything the marshaler keeps (a pooled buffer, a field, a global): what an acknowledged write put into the store cannot be overwritten by the next call", 3)

	for _, f := range p.AllOwnFuncs() {
		if f.Parent() != nil || f.Signature.Recv() == nil || funcPkg(f) == nil || !strings.HasPrefix(funcPkg(f).Pkg.Path(), Mod+"pkg/state/impl/store") {
			continue
		}

		if f.Name() != "MarshalResource" && f.Name() != "Encrypt" && f.Name() != "Compress" {
			continue
		}

		c.Touch(f)

		bad := ""

		for _, in := range Find(f, IsReturn) {
			r := in.(*ssa.Return)
			if len(r.Results) == 0 {
				continue
			}

			if why := p.sharedBytesOrigin(r.Results[0]); why != "" {
				bad = why
			}
		}

		c.Check(bad == "", "R10.5", FuncName(f)+" :: returned bytes are owned by the caller", fpos(f), "fresh", "the returned slice shares storage with "+bad+": the next call overwrites bytes the caller (the backing store) still holds")
	}

	// ---------- R10.6 what was persisted is what the store keeps serving
	c.Import(runC19, "R19.3", "pkg/resource.Finalizers)", "R10.6", "E3", "Finalizers.Add/Remove write only to storage created in the same call: an update whose persist step failed (built on a copy of the stored resource) cannot alter the in-memory resource that stays in place", 2)

	// ---------- error discipline (E8)
	errDisciplineFor(c, "C10")

	// ---------- R10.8 Load visits everything
	c.Rule("R10.8", "E1", "bolt Load: the read transaction reports success only after every bucket and record was visited — no `return nil` leaves a loop from the middle of its body (an empty bucket or a skipped record must not end the load)", 1)

	if f := p.Method(pkgBolt, "NamespacedBackingStore", "Load"); c.NeedFunc("R10.8", f, "bolt Load") {
		for _, g := range append([]*ssa.Function{f}, AllClosures(f)...) {
			early := earlySuccessExits(g)
			detail := ""

			if len(early) > 0 {
				detail = fmt.Sprintf("success return at %s is reached from inside a loop body, skipping the rest of the iteration space", p.Pos(early[0].Pos()))
			}

			c.Check(len(early) == 0, "R10.8", FuncName(g)+" :: no success return from the middle of a loop", fpos(g), "loops are left towards success only through their own exit test", detail)
		}
	}

}

func loadGate(c *Ctx, rule string) {
	p := c.P

	stT := "(*" + pkgInmem + ".State)"

	for _, m := range coreStateMethods {
		f := p.Method(pkgInmem, "State", m)
		c.MustCut(rule, "getCollection ⊣ {loadStore(ctx)==nil}", f, p.CallTo(stT+".getCollection"),
			CutSpec{Edges: FactEdge("nil(call:" + stT + ".loadStore(param#0,param#1))")}, 1)
	}

	ls := p.Method(pkgInmem, "State", "loadStore")
	if c.NeedFunc(rule, ls, stT+".loadStore") {
		storeTrue := func(in ssa.Instruction) bool {
			call, ok := in.(ssa.CallInstruction)

			return ok && p.CalleeName(call) == "(*sync/atomic.Bool).Store" && Glob("param#0.loaded", p.ArgDesc(call, 0))
		}
		load := p.CallTo("(" + pkgInmem + ".BackingStore).Load")

		c.MustCut(rule, "loaded.Store ⊣ {store.Load(...)==nil}", ls, storeTrue, CutSpec{Edges: FactEdge(factNil("(" + pkgInmem + ".BackingStore).Load"))}, 1)

		for _, in := range Find(ls, storeTrue) {
			c.Check(p.ArgDesc(in.(ssa.CallInstruction), 1) == "const:true", rule, FuncName(ls)+" :: loaded.Store(true)", in.Pos(), "true", "stores "+p.ArgDesc(in.(ssa.CallInstruction), 1))
		}

		li := p.Lockset(LockSpec{Rel: pkgInmem, Struct: "State", Mutex: "storeMu"}, pkgInmem)

		for _, in := range append(Find(ls, load), Find(ls, storeTrue)...) {
			c.Check(li.HeldAt(in) > 0, rule, FuncName(ls)+" :: storeMu held at "+p.CalleeName(in.(ssa.CallInstruction)), in.Pos(), "held", "storeMu is not held")
		}

		lockCall := func(in ssa.Instruction) bool {
			call, ok := in.(*ssa.Call)

			return ok && p.CalleeName(call) == "(*sync.Mutex).Lock" && Glob("param#0.storeMu", p.ArgDesc(call, 0))
		}
		c.MustFollow(rule, "after storeMu.Lock, Load only behind a fresh loaded.Load()==false", ls, lockCall, load,
			CutSpec{Edges: FactEdge("false(call:(*sync/atomic.Bool).Load(param#0.loaded))")}, 1)

		// the load handler injects what it was given into the collection of the given type
		// (the handler is what is passed to store.Load: a function literal, or a method value of the state)
		h := ClosureWith(ls, p.CallTo(gInject))
		wantColl, wantRes := "call:"+stT+".getCollection(free:param#0,param#0)", "param#1"

		if h == nil {
			for _, lc := range Find(ls, load) {
				args := CallArgs(lc.(ssa.CallInstruction))
				if mc, ok := stripChangeType(args[len(args)-1]).(*ssa.MakeClosure); ok && len(mc.Bindings) == 1 && p.Desc(mc.Bindings[0]) == "param#0" {
					if m := p.funcValue(mc.Fn, 0); m != nil && m != mc.Fn {
						h, wantColl, wantRes = m, "call:"+stT+".getCollection(param#0,param#1)", "param#2"
					}
				}
			}
		}

		if c.NeedFunc(rule, h, "load handler closure") {
			inj := p.Calls(h, gInject)
			ok := len(inj) == 1 && Glob(wantColl, p.ArgDesc(inj[0], 0)) && p.ArgDesc(inj[0], 1) == wantRes
			c.Check(ok, rule, FuncName(h)+" :: inject(resource) into the collection of its type", fpos(h), "yes", "handler injects into another collection / another object")
		}
	}
}

func calleeNames(p *Program, calls []ssa.CallInstruction) []string {
	var out []string
	for _, c := range calls {
		out = append(out, p.CalleeName(c))
	}

	return out
}

// StaticOrClosureCallee2 resolves argument argIdx of call to a closure function, if it is one.
func StaticOrClosureCallee2(call ssa.CallInstruction, argIdx int) *ssa.Function {
	args := CallArgs(call)
	if argIdx >= len(args) {
		return nil
	}

	switch x := Fwd(args[argIdx]).(type) {
	case *ssa.MakeClosure:
		if f, ok := x.Fn.(*ssa.Function); ok {
			return f
		}
	case *ssa.Function:
		return x // a closure that captures nothing
	}

	return nil
}

// sharedBytesOrigin walks a byte slice back through slicing, append bases, destination arguments of
// calls and joins; it returns a description of the first place it finds that outlives the call (an
// object taken from a sync.Pool, a field reached from the receiver, a global), also when a value on
// that chain is stored into such a place or Put into a pool; "" when the slice is the callee's own.
func (p *Program) sharedBytesOrigin(v ssa.Value) string {
	seen := map[ssa.Value]bool{}

	var shared func(addr ssa.Value, d int) string

	shared = func(addr ssa.Value, d int) string {
		if d > 8 || addr == nil {
			return ""
		}

		switch x := addr.(type) {
		case *ssa.Global:
			return "the package variable " + x.Name()
		case *ssa.FieldAddr:
			if prm, ok := x.X.(*ssa.Parameter); ok && len(prm.Parent().Params) > 0 && prm.Parent().Params[0] == prm && prm.Parent().Signature.Recv() != nil {
				return "the receiver's field " + fieldName(x.X, x.Field)
			}

			return shared(x.X, d+1)
		case *ssa.UnOp:
			return shared(x.X, d+1)
		case *ssa.TypeAssert:
			return shared(x.X, d+1)
		case *ssa.Extract:
			return shared(x.Tuple, d+1)
		case *ssa.IndexAddr:
			return shared(x.X, d+1)
		case *ssa.Phi:
			for _, e := range x.Edges {
				if e == ssa.Value(x) {
					continue
				}

				if w := shared(e, d+1); w != "" {
					return w
				}
			}
		case *ssa.Call:
			if p.CalleeName(x) == "(*sync.Pool).Get" {
				return "an object taken from a sync.Pool"
			}
		}

		return ""
	}

	isBytes := func(t types.Type) bool {
		sl, ok := t.Underlying().(*types.Slice)
		if !ok {
			return false
		}

		b, ok := sl.Elem().Underlying().(*types.Basic)

		return ok && b.Kind() == types.Uint8
	}

	var walk func(v ssa.Value, d int) string

	walk = func(v ssa.Value, d int) string {
		if v == nil || seen[v] || d > 12 {
			return ""
		}

		seen[v] = true

		// kept: stored into a lasting place, or returned to a pool
		if refs := v.Referrers(); refs != nil {
			for _, r := range *refs {
				switch x := r.(type) {
				case *ssa.Store:
					if x.Val == v {
						if w := shared(x.Addr, 0); w != "" {
							return w + " (it is stored there)"
						}
					}
				case *ssa.Call:
					if p.CalleeName(x) == "(*sync.Pool).Put" {
						return "an object put back into a sync.Pool"
					}
				case *ssa.Defer:
					if p.CalleeName(x) == "(*sync.Pool).Put" {
						return "an object put back into a sync.Pool"
					}
				}
			}
		}

		switch x := v.(type) {
		case *ssa.Slice:
			return walk(x.X, d+1)
		case *ssa.Phi:
			for _, e := range x.Edges {
				if w := walk(e, d+1); w != "" {
					return w
				}
			}
		case *ssa.Extract:
			return walk(x.Tuple, d+1)
		case *ssa.ChangeType:
			return walk(x.X, d+1)
		case *ssa.MakeInterface:
			return walk(x.X, d+1)
		case *ssa.UnOp:
			if x.Op != token.MUL {
				return ""
			}

			if w := shared(x.X, 0); w != "" {
				return w
			}

			if al, ok := x.X.(*ssa.Alloc); ok {
				for _, st := range AllStores(al) {
					if w := walk(st.Val, d+1); w != "" {
						return w
					}
				}
			}
		case *ssa.Call:
			if b, ok := x.Call.Value.(*ssa.Builtin); ok {
				if b.Name() == "append" && len(x.Call.Args) > 0 {
					return walk(x.Call.Args[0], d+1)
				}

				return ""
			}

			// copies: the result is the callee's own allocation
			if cn := p.CalleeName(x); cn == "slices.Clone" || cn == "bytes.Clone" {
				return ""
			}

			// a callee that is given byte slices may return (storage of) one of them
			for _, a := range CallArgs(x) {
				if isBytes(a.Type()) {
					if w := walk(a, d+1); w != "" {
						return w
					}
				}
			}
		}

		return ""
	}

	return walk(v, 0)
}

// earlySuccessExits lists the `return …, nil` instructions of f that are reachable from a block of a
// natural loop other than its header without passing the header again: the loop is abandoned with a
// success result before its own exit test said the iteration space is exhausted.
func earlySuccessExits(f *ssa.Function) []ssa.Instruction {
	n := f.Signature.Results().Len()
	if n == 0 || !isErrorType(f.Signature.Results().At(n-1).Type()) || len(f.Blocks) == 0 {
		return nil
	}

	succRet := ReturnsNilConst(n - 1)

	var out []ssa.Instruction

	seenRet := map[ssa.Instruction]bool{}

	for _, u := range f.Blocks {
		for _, h := range u.Succs {
			if !dominates(h, u) {
				continue
			}

			// natural loop of back edge u -> h
			body := map[*ssa.BasicBlock]bool{h: true}
			stack := []*ssa.BasicBlock{u}

			for len(stack) > 0 {
				b := stack[len(stack)-1]
				stack = stack[:len(stack)-1]

				if body[b] {
					continue
				}

				body[b] = true
				stack = append(stack, b.Preds...)
			}

			// exits from non-header body blocks
			for b := range body {
				if b == h {
					continue
				}

				for _, s := range b.Succs {
					if body[s] {
						continue
					}

					// from s, is a success return reachable without re-entering the loop?
					seen := map[*ssa.BasicBlock]bool{}
					work := []*ssa.BasicBlock{s}

					for len(work) > 0 {
						x := work[len(work)-1]
						work = work[:len(work)-1]

						if seen[x] || body[x] {
							continue
						}

						seen[x] = true

						if len(x.Instrs) > 0 {
							last := x.Instrs[len(x.Instrs)-1]
							if succRet(last) && !seenRet[last] {
								seenRet[last] = true
								out = append(out, last)
							}
						}

						work = append(work, x.Succs...)
					}
				}
			}
		}
	}

	return out
}
