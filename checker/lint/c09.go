package lint

import (
	"fmt"
	"go/token"
	"go/types"
	"strings"

	"golang.org/x/tools/go/ssa"
)

const (
	pkgContainers = "pkg/controller/runtime/internal/qruntime/internal/containers"
	pqT           = "(*" + pkgContainers + ".PriorityQueue[*])"
	queueT        = "(*" + pkgQueue + ".Queue[*])"
	itemT         = "(*" + pkgQueue + ".Item[*])"
)

func init() {
	register(&PropertyInfo{
		ID: "C09",
		Explanation: "Interleavings and time are NOT decided. Decided necessary structure of the reconcile queue: R09.1 the priority queue, the on-hold set and the parked-value map are locals of Queue.Run, which starts no goroutine and creates no closure — a single-goroutine state machine, so each select arm is atomic; " +
			"R09.2 hand-out arm: the getter channel is enabled only when Peek returned a ready key; handing out adds the key to on-hold, pops it and decrements the length; R09.3 put arm: a key that is on hold is parked (latest value wins, counted once), otherwise pushed with now/overwrite; " +
			"R09.4 release arm: on-hold removal first; a requeue pushes with the item's time and without overwriting; a parked value is re-pushed with now/overwrite and removed from the parked map; R09.5 Release is Requeue(zero) and Requeue sends at most once per item (released flag set before the send, send only when not yet released, done arm present); the worker defers Release and requeues only for a non-zero interval; " +
			"R09.6 backoff table: error ∧ no explicit interval → per-key backoff; success or skip → backoff cleared; R09.7 length accounting pairs +1 with Push()==true / first parking and −1 with Pop / re-push onto an existing entry; R09.8 Peek is ready iff ReleaseAfter − now ≤ 0; Push updates the value (when asked to) before it may return early, keeps the earlier time, and reports 'new' iff the key was absent.",
		NotCovered:  "per-item exclusion, coalescing, no-loss and honoured backoff over all interleavings of Put/Get/Release/Requeue/clock (behavioural over schedules and time).",
		Assumptions: []string{"select arms of one goroutine execute atomically with respect to that goroutine's locals"},
		Run:         runC09,
	})
}

func runC09(c *Ctx) {
	p := c.P

	run := p.Method(pkgQueue, "Queue", "Run")

	// ---------- R09.1 confinement
	c.Rule("R09.1", "E5", "Queue.Run: no goroutine, no closure; its containers are locals ⇒ single-goroutine state machine", 2)

	if c.NeedFunc("R09.1", run, queueT+".Run") {
		nGo := len(Find(run, func(in ssa.Instruction) bool { _, ok := in.(*ssa.Go); return ok }))
		c.Check(nGo == 0 && len(run.AnonFuncs) == 0, "R09.1", FuncName(run)+" :: no go statement and no closure", fpos(run), "confined", fmt.Sprintf("%d go statements, %d closures: queue state can be touched concurrently", nGo, len(run.AnonFuncs)))

		// the containers Run works on (priority queue, on-hold set, parked-value map) are created in Run —
		// as locals or as fields of a struct created there — and their addresses never leave it
		roots := map[*ssa.Alloc]bool{}
		okRoots := true

		rootOf := func(v ssa.Value) ssa.Value {
			for range 8 {
				v = Fwd(v)

				switch x := v.(type) {
				case *ssa.FieldAddr:
					v = x.X
				case *ssa.UnOp:
					if x.Op != token.MUL {
						return v
					}

					v = x.X
				case *ssa.Field:
					v = x.X
				default:
					return v
				}
			}

			return v
		}
		note := func(v ssa.Value, what string, pos token.Pos) {
			switch r := rootOf(v).(type) {
			case *ssa.Alloc:
				roots[r] = true
			case *ssa.MakeMap:
			default:
				okRoots = false

				c.Bad("R09.1", FuncName(run)+" :: "+what+" is local to Run", pos, "container is "+p.Desc(v)+", not created in the event loop")
			}
		}

		for _, in := range Find(run, func(ssa.Instruction) bool { return true }) {
			switch x := in.(type) {
			case *ssa.Call:
				n := p.CalleeName(x)
				if Glob(pqT+".*", n) || Glob("(*"+pkgContainers+".SliceSet[*]).*", n) {
					note(CallArgs(x)[0], "receiver of "+n, x.Pos())
				}
			case *ssa.Lookup:
				if _, isMap := x.X.Type().Underlying().(*types.Map); isMap {
					note(x.X, "parked-value map", x.Pos())
				}
			case *ssa.MapUpdate:
				note(x.Map, "parked-value map", x.Pos())
			}
		}

		for al := range roots {
			var escapes func(v ssa.Value, d int)

			escapes = func(v ssa.Value, d int) {
				if d > 4 || v.Referrers() == nil {
					return
				}

				for _, r := range *v.Referrers() {
					switch x := r.(type) {
					case *ssa.Store:
						if x.Val == v {
							c.Bad("R09.1", FuncName(run)+" :: container does not escape", r.Pos(), "the container's address is stored: it escapes the event loop")
						}
					case *ssa.Send, *ssa.MakeClosure, *ssa.Go, *ssa.Defer, *ssa.MakeInterface, *ssa.Return:
						c.Bad("R09.1", FuncName(run)+" :: container does not escape", r.Pos(), "the container's address escapes the event loop")
					case *ssa.FieldAddr:
						if _, isStruct := x.Type().(*types.Pointer).Elem().Underlying().(*types.Struct); isStruct {
							escapes(x, d+1)
						}
					case *ssa.Call:
						n := p.CalleeName(x)
						if !(Glob(pqT+".*", n) || Glob("(*"+pkgContainers+".SliceSet[*]).*", n) || Glob("(*time.Timer).*", n)) {
							c.Bad("R09.1", FuncName(run)+" :: container does not escape", r.Pos(), "the container's address is passed to "+n)
						}
					}
				}
			}

			escapes(al, 0)
		}

		c.Check(okRoots && len(roots) >= 1, "R09.1", FuncName(run)+" :: priority queue and on-hold set are locals of Run", fpos(run), fmt.Sprintf("%d", len(roots)), "containers are not locals of the event loop")
	}

	if run == nil {
		return
	}

	// locate the select and its arms
	var sel *ssa.Select

	for _, in := range Find(run, func(in ssa.Instruction) bool { s, ok := in.(*ssa.Select); return ok && s.Blocking }) {
		sel = in.(*ssa.Select)
	}

	arm := map[string]int{}

	if sel != nil {
		for i, st := range sel.States {
			d := p.Desc(st.Chan)

			switch {
			case strings.Contains(d, "(context.Context).Done("):
				arm["ctx"] = i
			case st.Dir == 1: // send
				arm["get"] = i
			case strings.Contains(d, ".releaseCh"):
				arm["release"] = i
			case strings.Contains(d, ".putCh"):
				arm["put"] = i
			default:
				arm["timer"] = i
			}
		}
	}

	armEdge := func(name string) string { return fmt.Sprintf("eq(select#0,const:%d)", arm[name]) }

	c.Rule("R09.2", "E1", "hand-out arm: getter enabled only for a ready key; on-hold add, Pop, length −1", 5)
	c.Check(sel != nil && len(arm) == 5, "R09.2", FuncName(run)+" :: event loop select has the five arms {ctx, get, timer, release, put}", fpos(run), fmt.Sprint(arm), fmt.Sprintf("arms found: %v", arm))

	if sel == nil || len(arm) != 5 {
		return
	}

	lenAdd := func(delta string) InstrPred {
		return func(in ssa.Instruction) bool {
			call, ok := in.(*ssa.Call)

			return ok && p.CalleeName(call) == "(*sync/atomic.Int64).Add" && Glob("param#0.length", p.ArgDesc(call, 0)) && p.ArgDesc(call, 1) == "const:"+delta
		}
	}
	onHoldAdd := p.CallTo("(*" + pkgContainers + ".SliceSet[*]).Add")
	onHoldRemove := p.CallTo("(*" + pkgContainers + ".SliceSet[*]).Remove")
	onHoldContains := "call:(*" + pkgContainers + ".SliceSet[*]).Contains(*"
	push := p.CallTo(pqT + ".Push")
	pop := p.CallTo(pqT + ".Pop")
	nextIter := p.CallTo(pqT + ".Peek") // the top of the next loop iteration

	// R09.2
	getStarts := p.EdgeSuccs(run, armEdge("get"))
	c.NoReach("R09.2", "hand-out: next iteration only after on-hold add", run, getStarts, 1, nextIter, CutSpec{Nodes: onHoldAdd})
	c.NoReach("R09.2", "hand-out: next iteration only after Pop", run, getStarts, 1, nextIter, CutSpec{Nodes: pop})
	c.NoReach("R09.2", "hand-out: next iteration only after length −1", run, getStarts, 1, nextIter, CutSpec{Nodes: lenAdd("-1")})
	c.MustCut("R09.2", "Pop ⊣ {item was handed out}", run, pop, CutSpec{Edges: FactEdge(armEdge("get"))}, 1)

	// the channel offered in the select is the real getCh only behind Peek's key being present
	okGet := false

	for _, in := range Find(run, func(in ssa.Instruction) bool { _, ok := in.(*ssa.Phi); return ok }) {
		phi := in.(*ssa.Phi)
		if !strings.Contains(phi.Type().String(), "chan") {
			continue
		}

		d := p.Desc(phi)
		if strings.Contains(d, "*param#0.getCh") && strings.Contains(d, "nil") {
			okGet = true
		}
	}

	c.Check(okGet && Glob("phi(*", p.Desc(sel.States[arm["get"]].Chan)), "R09.2", FuncName(run)+" :: getter channel is nil unless Peek returned a ready key", fpos(run), "nil-able channel", "the get arm is always enabled: items are handed out before they are due / with an empty queue")

	// ---------- R09.3 put arm
	c.Rule("R09.3", "E1", "put arm: on-hold key ⇒ parked (latest value, counted once); otherwise Push(now, overwrite)", 4)

	putStarts := p.EdgeSuccs(run, armEdge("put"))
	isPark := func(in ssa.Instruction) bool {
		_, ok := in.(*ssa.MapUpdate)

		return ok // (Run has one map: the parked values, wherever it is kept)
	}

	c.NoReach("R09.3", "put: Push only when the key is not on hold", run, putStarts, 1, push, CutSpec{Edges: FactEdge("false(" + onHoldContains), Nodes: nextIter})
	c.NoReach("R09.3", "put: an on-hold key is parked before the next iteration", run, p.EdgeSuccs(run, "true("+onHoldContains), 1, nextIter, CutSpec{Nodes: isPark})
	c.NoReach("R09.3", "put: the next iteration is reached only after parking or pushing", run, putStarts, 1, nextIter, CutSpec{Nodes: OrInstr(isPark, push)})

	for _, in := range Find(run, isPark) {
		mu := in.(*ssa.MapUpdate)
		c.Check(strings.HasSuffix(p.Desc(mu.Key), ".Key") && strings.HasSuffix(p.Desc(mu.Value), ".Value") && strings.TrimSuffix(p.Desc(mu.Key), ".Key") == strings.TrimSuffix(p.Desc(mu.Value), ".Value"), "R09.3", FuncName(run)+" :: parked[item.Key] = item.Value (latest value wins)", mu.Pos(), "yes", "parks "+p.Desc(mu.Value)+" under "+p.Desc(mu.Key))
	}

	// ---------- R09.4 release arm
	c.Rule("R09.4", "E1", "release arm: on-hold removal; requeue push (item time, no overwrite) only for a non-zero time; parked value re-pushed (now, overwrite) and removed", 6)

	relStarts := p.EdgeSuccs(run, armEdge("release"))
	c.NoReach("R09.4", "release: nothing happens before the key leaves on-hold", run, relStarts, 1, OrInstr(push, nextIter), CutSpec{Nodes: onHoldRemove})
	c.MustCut("R09.4", "on-hold removal ⊣ {release arm}", run, onHoldRemove, CutSpec{Edges: FactEdge(armEdge("release"))}, 1)

	nPush := 0

	for _, call := range p.Calls(run, pqT+".Push") {
		nPush++
		when, over := p.ArgDesc(call, 3), p.ArgDesc(call, 4)

		switch {
		case strings.HasSuffix(when, ".ReleaseAfter"):
			c.Check(over == "const:false", "R09.4", FuncName(run)+" :: requeue push does not overwrite a fresher value", call.Pos(), "overwrite=false", "requeue overwrites: a stale value replaces a fresh notification")

			bad, w := p.Reach(Entry(run), func(in ssa.Instruction) bool { return in == call.(ssa.Instruction) }, CutSpec{Edges: FactEdge("false(call:(time.Time).IsZero(*")})
			c.Check(!bad, "R09.4", FuncName(run)+" :: requeue push only for a non-zero release time", call.Pos(), "guarded", "plain Release re-queues the item: "+strings.Join(w, " "))
		case when == "call:time.Now()":
			c.Check(over == "const:true", "R09.4", FuncName(run)+" :: fresh push (Put / parked value) overwrites", call.Pos(), "overwrite=true", "a fresh notification does not replace the pending value")
		default:
			c.Bad("R09.4", FuncName(run)+" :: Push time", call.Pos(), "push uses "+when)
		}
	}

	c.Check(nPush == 3, "R09.4", FuncName(run)+" :: three Push sites (requeue, parked re-push, put)", fpos(run), "3", fmt.Sprintf("%d Push sites", nPush))

	// the released (possibly stale) value never goes into the queue after the fresh parked value of the same
	// release: Push re-inserts an entry that moves to an earlier time with the value it is given
	parkedPush := func(in ssa.Instruction) bool {
		call, ok := in.(*ssa.Call)

		return ok && Glob(pqT+".Push", p.CalleeName(call)) && strings.Contains(p.ArgDesc(call, 2), "lookup(")
	}
	stalePush := func(in ssa.Instruction) bool {
		call, ok := in.(*ssa.Call)
		if !ok || !Glob(pqT+".Push", p.CalleeName(call)) {
			return false
		}

		d := p.ArgDesc(call, 2)

		return strings.HasSuffix(d, ".Value") && !strings.Contains(d, "lookup(") && strings.HasSuffix(p.ArgDesc(call, 3), ".ReleaseAfter")
	}
	c.NoReach("R09.4", "release: the stale released value is not pushed after the fresh parked value", run, After(run, parkedPush), 1, stalePush, CutSpec{Nodes: nextIter})

	isUnpark := func(in ssa.Instruction) bool {
		call, ok := in.(*ssa.Call)

		return ok && p.CalleeName(call) == "builtin.delete"
	}
	var parkedInRelease []Loc

	for _, loc := range p.EdgeSuccs(run, "true(lookup(*,*)#1)") {
		for _, rs := range relStarts {
			if dominates(rs.B, loc.B) {
				parkedInRelease = append(parkedInRelease, loc)
			}
		}
	}

	c.NoReach("R09.4", "release: a parked value is removed from the parked map and re-pushed before the next iteration", run, parkedInRelease, 1, nextIter, CutSpec{Nodes: isUnpark})
	c.MustFollow("R09.4", "after un-parking, the value is pushed", run, isUnpark, nextIter, CutSpec{Nodes: push}, 1)

	// ---------- R09.5 release pairing
	c.Rule("R09.5", "E1", "Item: Release == Requeue(zero); at most one hand-back per item; worker defers Release and requeues only for a non-zero interval", 5)

	if f := p.Method(pkgQueue, "Item", "Release"); c.NeedFunc("R09.5", f, itemT+".Release") {
		rq := p.Calls(f, itemT+".Requeue")
		sends := len(Find(f, func(in ssa.Instruction) bool {
			switch in.(type) {
			case *ssa.Send, *ssa.Select:
				return true
			}

			return false
		}))
		others := 0

		for _, call := range p.Calls(f, itemT+".*") {
			if p.CalleeName(call) != strings.Replace(itemT, "[*]", "[K, V]", 1)+".Requeue" {
				others++
			}
		}

		c.Check(len(rq) == 1 && sends == 0 && others == 0, "R09.5", FuncName(f)+" :: Release delegates to Requeue (one hand-back path, guarded by the released flag)", fpos(f), "yes",
			"Release hands the item back on its own path: Release after Requeue is no longer a no-op and drops another worker's hold")
	}

	if f := p.Method(pkgQueue, "Item", "Requeue"); c.NeedFunc("R09.5", f, itemT+".Requeue") {
		isSendSel := func(in ssa.Instruction) bool { _, ok := in.(*ssa.Select); return ok }
		c.MustCut("R09.5", "hand-back ⊣ {not yet released}", f, isSendSel, CutSpec{Edges: FactEdge("false(*param#0.released)")}, 1)
		c.MustCut("R09.5", "hand-back ⊣ {released = true}", f, isSendSel, CutSpec{Nodes: func(in ssa.Instruction) bool {
			return StoreToField("Item", "released")(in) && p.Desc(in.(*ssa.Store).Val) == "const:true"
		}}, 1)

		for _, in := range Find(f, isSendSel) {
			s := in.(*ssa.Select)
			ok := s.Blocking && len(s.States) == 2
			c.Check(ok, "R09.5", FuncName(f)+" :: hand-back is select{releaseCh <- …, <-doneCh}", in.Pos(), "yes", "hand-back can block forever after the queue stopped")
		}
	}

	if f := p.Method(pkgQRuntime, "Adapter", "runReconcile"); c.NeedFunc("R09.5", f, "qruntime.runReconcile") {
		body := p.BodyWith(f, p.CallTo("(*"+pkgQRuntime+".Adapter).runOnce"))
		if c.NeedFunc("R09.5", body, "runReconcile per-item closure") {
			c.MustCut("R09.5", "item.Requeue ⊣ {interval != 0}", body, p.PlainCallTo(itemT+".Requeue"), CutSpec{Edges: FactEdge("ne(phi(*,const:0)", "ne(*var:interval,const:0)", "ne(*,const:0)")}, 1)

			// ---------- R09.6 backoff table
			c.Rule("R09.6", "E1", "error without explicit interval → per-key backoff; success/skip → backoff cleared", 3)

			skipped0 := "true(call:github.com/siderolabs/gen/xerrors.TagIs(*"
			gb := p.CallTo("(*" + pkgQRuntime + ".Adapter).getBackoffInterval")
			cb := p.CallTo("(*" + pkgQRuntime + ".Adapter).clearBackoff")
			c.MustCut("R09.6", "getBackoffInterval ⊣ {reconcile error}", body, gb, CutSpec{Edges: func(e EdgeInfo) bool {
				for _, f := range e.Facts {
					if strings.HasPrefix(f, "nonnil(") {
						return true
					}
				}

				return false
			}}, 1)
			c.MustCut("R09.6", "getBackoffInterval ⊣ {no interval from RequeueError}", body, gb, CutSpec{Edges: func(e EdgeInfo) bool {
				for _, f := range e.Facts {
					if strings.HasPrefix(f, "eq(") && strings.HasSuffix(f, ",const:0)") {
						return true
					}

					// no RequeueError at all: nothing could have set an interval
					if strings.HasPrefix(f, "false(call:errors.As(") {
						return true
					}
				}

				return false
			}}, 1)

			// the other direction: a failed (not skipped) reconcile that asked for no interval takes the backoff — it is
			// never released without a retry time
			retried := OrInstr(gb, p.PlainCallTo(itemT+".Requeue"))
			bad, w := p.Reach(Entry(body), IsReturn, CutSpec{Nodes: retried, Edges: FactEdge(
				skipped0,                                     // skipped: no retry wanted
				"nil(*runOnce(*", "nil(*RequeueError).Err(*", // no error
				"ne(*Interval(*,const:0)", // an explicit interval (requeued below, R09.5)
			)})
			c.Check(!bad, "R09.6", FuncName(body)+" :: a failed reconcile ends with the backoff taken or an explicit non-zero interval", fpos(body), "every way through the job is a success, a skip, an explicit interval or a backoff", "a failing item can be released without a retry time: "+strings.Join(w, " "))
			// clearBackoff exactly for skipped / successful jobs, wherever the arms are written
			skipped := "true(call:github.com/siderolabs/gen/xerrors.TagIs(*"
			c.MustCut("R09.6", "clearBackoff ⊣ {skipped, no reconcile error}", body, cb, CutSpec{Edges: func(e EdgeInfo) bool {
				for _, f := range e.Facts {
					if Glob(skipped, f) || strings.HasPrefix(f, "nil(") && (strings.Contains(f, ".runOnce(") || strings.Contains(f, "RequeueError).Err(")) {
						return true
					}
				}

				return false
			}}, 1)
			c.MustCut("R09.6", "job ends ⊣ {backoff cleared, reconcile error}", body, IsReturn, CutSpec{Nodes: cb, Edges: func(e EdgeInfo) bool {
				for _, f := range e.Facts {
					if strings.HasPrefix(f, "nonnil(") && (strings.Contains(f, ".runOnce(") || strings.Contains(f, "RequeueError).Err(")) {
						return true
					}
				}

				return false
			}}, 1)
			c.NoReach("R09.6", "a skipped job never takes a backoff interval", body, p.EdgeSuccs(body, skipped), 1, gb, CutSpec{})
			// (the other direction — a skipped job does not end with the grown interval still in the table, seed s09g — is not
			// claimed: stated as "no return reachable from a skipped edge without clearBackoff" it alarmed on the
			// behaviour-preserving refactorings r2J2/r3J3, where the skip test is repeated in a helper; see DESIGN.md §5)
		}
	}

	// ---------- R09.7 length accounting
	c.Rule("R09.7", "E1", "length: +1 behind Push()==true / first parking, −1 with Pop / re-push onto an existing entry", 3)

	for _, in := range Find(run, lenAdd("1")) {
		bad, w := p.Reach(Entry(run), func(i ssa.Instruction) bool { return i == in }, CutSpec{Edges: FactEdge("true(call:"+pqT+".Push(*", "false(lookup(*,*)#1)")})
		c.Check(!bad, "R09.7", FuncName(run)+" :: length +1 ⊣ {Push reported a new key, first parking of a key}", in.Pos(), "paired", "length incremented without a new entry: "+strings.Join(w, " "))
	}

	for _, in := range Find(run, lenAdd("-1")) {
		bad, w := p.Reach(Entry(run), func(i ssa.Instruction) bool { return i == in }, CutSpec{Nodes: pop, Edges: FactEdge("false(call:" + pqT + ".Push(*")})
		c.Check(!bad, "R09.7", FuncName(run)+" :: length −1 ⊣ {Pop, parked value merged into an existing entry}", in.Pos(), "paired", "length decremented without an entry leaving: "+strings.Join(w, " "))
	}

	// (the number of accounting sites is not part of the rule: each site is checked against what it accounts for)

	// ---------- R09.8 readiness guard & Push
	c.Rule("R09.8", "E6", "Peek ready iff ReleaseAfter − now ≤ 0; Push: value updated before any early return, earlier time kept, 'new' iff absent", 6)

	if f := p.Method(pkgContainers, "PriorityQueue", "Peek"); c.NeedFunc("R09.8", f, pqT+".Peek") {
		c.MustCut("R09.8", "Peek returns a key ⊣ {ReleaseAfter.Sub(now) <= 0}", f, p.CallTo("github.com/siderolabs/gen/optional.Some"), CutSpec{Edges: FactEdge("le(call:(time.Time).Sub(*,param#1),const:0)")}, 1)
		c.MustCut("R09.8", "Peek returns a key ⊣ {queue not empty}", f, p.CallTo("github.com/siderolabs/gen/optional.Some"), CutSpec{Edges: FactEdge("gt(call:builtin.len(*param#0.items),const:0)")}, 1)
	}

	if f := p.Method(pkgContainers, "PriorityQueue", "Push"); c.NeedFunc("R09.8", f, pqT+".Push") {
		setVal := func(in ssa.Instruction) bool {
			return StoreToField("itemWithBackoff", "Value")(in) && p.Desc(in.(*ssa.Store).Val) == "param#2" && strings.Contains(p.Desc(in.(*ssa.Store).Addr), "index(")
		}
		// (slices.IndexFunc and its predicate are inlined by the normal form: "the key exists" is the true edge
		// of the Key == key comparison of the search loop)
		found := p.EdgeSuccs(f, "eq(*.Key,param#1)")
		c.NoReach("R09.8", "existing key: no return before the value was overwritten (when overwriteValue)", f, found, 1, IsReturn, CutSpec{Nodes: setVal, Edges: FactEdge("false(param#4)")})
		c.MustCut("R09.8", "in-place overwrite ⊣ {overwriteValue}", f, setVal, CutSpec{Edges: FactEdge("true(param#4)")}, 1)
		c.MustCut("R09.8", "early `return false` (keep the entry) ⊣ {new time is later than the existing one}", f, p.RetIs(0, "const:false"),
			CutSpec{Nodes: p.CallTo("slices.Insert*"), Edges: FactEdge("gt(call:(time.Time).Compare(param#3,*),const:0)")}, 1)

		okRet := false

		// the result is `idx == -1`, idx being -1 exactly when the search loop ran out (every other incoming
		// value of idx is a loop index, hence not negative)
		for _, in := range Find(f, IsReturn) {
			// `idx == -1` or `idx < 0` (directly or through a local such as isNew)
			bo, ok := stripIface(in.(*ssa.Return).Results[0]).(*ssa.BinOp)
			if !ok || !(bo.Op == token.EQL && p.Desc(bo.Y) == "const:-1" || bo.Op == token.LSS && p.Desc(bo.Y) == "const:0") {
				continue
			}

			sentinel, others := 0, 0

			for _, l := range phiLeavesAll(bo.X) {
				switch {
				case p.Desc(l) == "const:-1":
					sentinel++
				case lowerBound(l) >= 0:
					others++
				default:
					others = -100
				}
			}

			if sentinel == 1 && others >= 1 {
				okRet = true
			}
		}

		c.Check(okRet, "R09.8", FuncName(f)+" :: reports 'new' iff the key was absent", fpos(f), "idx == -1", "return value no longer tells whether a new entry was created (length accounting depends on it)")
	}

	// ---------- R09.10 retry backoffs never give up
	c.Rule("R09.10", "E1", "every exponential backoff built by the controller runtimes has its elapsed-time limit switched off before it is used: a failing item (or controller) is retried with growing intervals for as long as it fails, the backoff never turns into its Stop value", 4)

	isUnlimited := func(in ssa.Instruction) bool {
		if StoreToField("ExponentialBackOff", "MaxElapsedTime")(in) && p.Desc(in.(*ssa.Store).Val) == "const:0" {
			return true
		}

		return false
	}

	for _, rel := range []string{pkgQRuntime, pkgRRuntime} {
		for _, f := range p.PkgFuncs(rel) {
			ctor := func(in ssa.Instruction) bool {
				call, ok := in.(*ssa.Call)
				if !ok || !Glob("github.com/cenkalti/backoff/*.NewExponentialBackOff", p.CalleeName(call)) {
					return false
				}

				for _, o := range variadicElems(call) {
					if oc, ok := o.(*ssa.Call); ok && Glob("github.com/cenkalti/backoff/*.WithMaxElapsedTime", p.CalleeName(oc)) && p.ArgDesc(oc, 0) == "const:0" {
						return false // limit switched off by option
					}
				}

				return true
			}

			// constructed with the limit already switched off by option: nothing to follow
			for _, in := range Find(f, func(in ssa.Instruction) bool {
				call, ok := in.(*ssa.Call)

				return ok && Glob("github.com/cenkalti/backoff/*.NewExponentialBackOff", p.CalleeName(call)) && !ctor(in)
			}) {
				c.OK("R09.10", FuncName(f)+" :: NewExponentialBackOff ⇒ MaxElapsedTime = 0 before use", in.Pos(), "WithMaxElapsedTime(0) option")
			}

			if len(Find(f, ctor)) == 0 {
				continue
			}

			exit := func(in ssa.Instruction) bool {
				if IsReturn(in) {
					return true
				}

				call, ok := in.(ssa.CallInstruction)

				return ok && Glob("(*github.com/cenkalti/backoff/*.ExponentialBackOff).NextBackOff", p.CalleeName(call))
			}

			c.MustFollow("R09.10", "NewExponentialBackOff ⇒ MaxElapsedTime = 0 before use", f, ctor, exit, CutSpec{Nodes: isUnlimited}, 1)
		}
	}

	// ---------- R09.11 backoff table under its mutex
	c.Rule("R09.11", "E2", "qruntime.Adapter.backoffs (read by every worker) only under backoffsMu", 2)
	c.LocksetReport("R09.11", p.Lockset(LockSpec{Rel: pkgQRuntime, Struct: "Adapter", Mutex: "backoffsMu", Guarded: []string{"backoffs"}}, pkgQRuntime), nil)

	// ---------- R09.12 the item on offer is this iteration's head
	c.Rule("R09.12", "E3", "Queue.Run: the item offered to consumers is built from the Peek of the same loop iteration (key and value) — nothing about the offer survives into the next iteration, so a Put that replaced the head's value is what gets delivered", 1)

	if f := p.Method(pkgQueue, "Queue", "Run"); c.NeedFunc("R09.12", f, "Queue.Run") {
		n := 0

		for _, in := range Find(f, func(in ssa.Instruction) bool { _, ok := in.(*ssa.Select); return ok }) {
			for _, st := range in.(*ssa.Select).States {
				if st.Send == nil {
					continue
				}

				n++

				carried, at := LoopCarried(st.Send)
				detail := ""

				if carried {
					detail = "the offered item depends on an earlier iteration through " + p.DescN(at, 2)
				}

				c.Check(!carried, "R09.12", FuncName(f)+" :: the offered item is built in this iteration", in.Pos(), "no loop-carried value", detail)
			}
		}

		if n == 0 {
			c.Unknown("R09.12", FuncName(f)+" :: the offered item is built in this iteration", fpos(f), "anchor-unresolved: no send arm in the queue's select")
		}
	}

}

// variadicElems returns the values passed in the variadic tail of a call built by the compiler
// (new [n]T; stores into its elements; slice).
func variadicElems(call *ssa.Call) []ssa.Value {
	sig := call.Common().Signature()
	if !sig.Variadic() || len(call.Call.Args) == 0 {
		return nil
	}

	sl, ok := call.Call.Args[len(call.Call.Args)-1].(*ssa.Slice)
	if !ok {
		return nil
	}

	al, ok := sl.X.(*ssa.Alloc)
	if !ok || al.Referrers() == nil {
		return nil
	}

	var out []ssa.Value

	for _, r := range *al.Referrers() {
		ia, ok := r.(*ssa.IndexAddr)
		if !ok || ia.Referrers() == nil {
			continue
		}

		for _, rr := range *ia.Referrers() {
			if st, ok := rr.(*ssa.Store); ok && st.Addr == ia {
				out = append(out, st.Val)
			}
		}
	}

	return out
}
