package lint

import (
	"crypto/sha1"
	"encoding/hex"
	"encoding/json"
	"fmt"
	"go/token"
	"os"
	"path/filepath"
	"sort"
	"strings"
	"time"

	"golang.org/x/tools/go/ssa"
)

// Status of an obligation.
const (
	Discharged = "discharged"
	Violated   = "violated"
	Undecided  = "undecided"
)

// Obligation is one rule instance on one construct.
type Obligation struct {
	Rule      string `json:"rule"`
	Construct string `json:"construct"`
	Pos       string `json:"pos"`
	Status    string `json:"status"`
	Detail    string `json:"detail,omitempty"`
	Known     bool   `json:"known_finding,omitempty"`
}

// RuleInfo documents a rule and its vacuity guard.
type RuleInfo struct {
	ID     string `json:"id"`
	Engine string `json:"engine"`
	Doc    string `json:"doc"`
	Min    int    `json:"min_instances"`
	Count  int    `json:"instances"`
}

// PropertyInfo is the static description of a property's check.
type PropertyInfo struct {
	ID          string
	Explanation string
	NotCovered  string
	Assumptions []string
	Run         func(c *Ctx)
}

// Ctx collects obligations for one property on one program.
type Ctx struct {
	P     *Program
	Prop  string
	Obls  []*Obligation
	Rules []*RuleInfo

	ruleIdx   map[string]*RuleInfo
	funcs     map[*ssa.Function]bool
	callSites int
	seenKey   map[string]int
}

// NewCtx creates an empty context.
func NewCtx(p *Program, prop string) *Ctx {
	return &Ctx{P: p, Prop: prop, ruleIdx: map[string]*RuleInfo{}, funcs: map[*ssa.Function]bool{}, seenKey: map[string]int{}}
}

// Rule declares a rule: its engine, what it decides and the minimum number of instances that
// must be found (vacuity guard: fewer is a failure).
func (c *Ctx) Rule(id, engine, doc string, minInstances int) {
	if _, ok := c.ruleIdx[id]; ok {
		return
	}

	r := &RuleInfo{ID: id, Engine: engine, Doc: doc, Min: minInstances}
	c.ruleIdx[id] = r
	c.Rules = append(c.Rules, r)
}

// Touch records that function f was analysed.
func (c *Ctx) Touch(fs ...*ssa.Function) {
	for _, f := range fs {
		if f == nil || c.funcs[f] {
			continue
		}

		c.funcs[f] = true

		for _, b := range f.Blocks {
			for _, in := range b.Instrs {
				if _, ok := in.(ssa.CallInstruction); ok {
					c.callSites++
				}
			}
		}
	}
}

func (c *Ctx) add(rule, construct string, pos token.Pos, status, detail string) *Obligation {
	if _, ok := c.ruleIdx[rule]; !ok {
		c.Rule(rule, "?", "(undeclared rule)", 1)
	}

	key := rule + "|" + construct
	c.seenKey[key]++

	if n := c.seenKey[key]; n > 1 {
		construct = fmt.Sprintf("%s #%d", construct, n)
	}

	o := &Obligation{Rule: rule, Construct: construct, Pos: c.P.Pos(pos), Status: status, Detail: detail}
	c.Obls = append(c.Obls, o)
	c.ruleIdx[rule].Count++

	return o
}

// OK records a discharged obligation.
func (c *Ctx) OK(rule, construct string, pos token.Pos, detail string) {
	c.add(rule, construct, pos, Discharged, detail)
}

// Bad records a violated obligation.
func (c *Ctx) Bad(rule, construct string, pos token.Pos, detail string) {
	c.add(rule, construct, pos, Violated, detail)
}

// Unknown records an obligation the engine could not decide (counts as a failure).
func (c *Ctx) Unknown(rule, construct string, pos token.Pos, detail string) {
	c.add(rule, construct, pos, Undecided, detail)
}

// Check records OK when cond holds, Bad otherwise.
func (c *Ctx) Check(cond bool, rule, construct string, pos token.Pos, okDetail, badDetail string) bool {
	if cond {
		c.OK(rule, construct, pos, okDetail)
	} else {
		c.Bad(rule, construct, pos, badDetail)
	}

	return cond
}

// NeedFunc resolves a function anchor; a missing anchor is an undecided obligation.
func (c *Ctx) NeedFunc(rule string, f *ssa.Function, role string) bool {
	if f == nil || len(f.Blocks) == 0 {
		c.Unknown(rule, "anchor-unresolved: "+role, token.NoPos, "the function playing this role was not found in the loaded program")

		return false
	}

	c.Touch(f)

	return true
}

func fpos(f *ssa.Function) token.Pos {
	if f == nil {
		return token.NoPos
	}

	if f.Pos().IsValid() {
		return f.Pos()
	}

	for _, b := range f.Blocks {
		for _, in := range b.Instrs {
			if in.Pos().IsValid() {
				return in.Pos()
			}
		}
	}

	return token.NoPos
}

// MustCut: every path from the entry of f to any TARGET passes an enabling event of cut.
// minTargets > 0 demands that at least that many target instructions exist.
func (c *Ctx) MustCut(rule, what string, f *ssa.Function, target InstrPred, cut CutSpec, minTargets int) bool {
	construct := FuncName(f) + " :: " + what
	if !c.NeedFunc(rule, f, construct) {
		return false
	}

	ts := FindTargets(f, target)
	if len(ts) < minTargets {
		c.Unknown(rule, construct, fpos(f), fmt.Sprintf("anchor-unresolved: expected >= %d target instructions, found %d", minTargets, len(ts)))

		return false
	}

	if len(ts) == 0 {
		c.OK(rule, construct, fpos(f), "no target instruction in this function")

		return true
	}

	bad, w := c.P.Reach(Entry(f), target, cut)
	if bad {
		// a guard hoisted into the callers: an unexported function all of whose call sites are known may rely
		// on every caller having passed the enabling events before the call
		if sites := c.P.knownCallers(f); len(sites) > 0 {
			all := true

			for _, cs := range sites {
				g := cs.Parent()
				this := cs

				if open, _ := c.P.Reach(Entry(g), func(in ssa.Instruction) bool { return in == this.(ssa.Instruction) }, cut); open {
					all = false
				}
			}

			if all {
				c.OK(rule, construct, ts[0].Pos(), fmt.Sprintf("enabling events are passed before each of the %d call sites of this (unexported) function", len(sites)))

				return true
			}
		}

		c.Bad(rule, construct, ts[0].Pos(), "open path: "+strings.Join(w, " "))

		return false
	}

	c.OK(rule, construct, ts[0].Pos(), fmt.Sprintf("%d target(s) unreachable once enabling events are cut", len(ts)))

	return true
}

// MustFollow: from just after every FROM instruction, every path to an EXIT passes an enabling
// event of cut.
func (c *Ctx) MustFollow(rule, what string, f *ssa.Function, from InstrPred, exit InstrPred, cut CutSpec, minFrom int) bool {
	construct := FuncName(f) + " :: " + what
	if !c.NeedFunc(rule, f, construct) {
		return false
	}

	starts := AfterTargets(f, from)
	if len(starts) < minFrom {
		c.Unknown(rule, construct, fpos(f), fmt.Sprintf("anchor-unresolved: expected >= %d start instructions, found %d", minFrom, len(starts)))

		return false
	}

	if len(starts) == 0 {
		c.OK(rule, construct, fpos(f), "no start instruction in this function")

		return true
	}

	bad, w := c.P.Reach(starts, exit, cut)
	if bad {
		c.Bad(rule, construct, fpos(f), "open path: "+strings.Join(w, " "))

		return false
	}

	c.OK(rule, construct, fpos(f), fmt.Sprintf("%d start(s): every path to an exit passes an enabling event", len(starts)))

	return true
}

// ---------- known findings ----------

// Finding is an entry of /verif/known_findings.json.
type Finding struct {
	Property  string `json:"property"`
	Rule      string `json:"rule"`
	Construct string `json:"construct"`
	Status    string `json:"status"` // "open" (recorded, not repaired) or "fixed"
	Commit    string `json:"commit,omitempty"`
	What      string `json:"what"`
}

// LoadFindings reads the known-findings file (missing file = none).
func LoadFindings(path string) ([]Finding, error) {
	b, err := os.ReadFile(path)
	if err != nil {
		if os.IsNotExist(err) {
			return nil, nil
		}

		return nil, err
	}

	var doc struct {
		Findings []Finding `json:"findings"`
	}

	if err := json.Unmarshal(b, &doc); err != nil {
		return nil, err
	}

	return doc.Findings, nil
}

// ---------- reporting ----------

// Result is the outcome of one property run.
type Result struct {
	Violations int
	Known      int
	Lines      []string
}

// Finish applies vacuity guards and known findings, prints the report, writes evidence and
// replay files, and returns the number of (new) violations.
func (c *Ctx) Finish(info *PropertyInfo, tier string, seed int64, findings []Finding, verifDir string, t0 time.Time, extra map[string]any, writeEvidence bool) Result {
	var res Result

	for _, r := range c.Rules {
		if r.Count < r.Min {
			c.add(r.ID, "vacuity-guard", token.NoPos, Undecided,
				fmt.Sprintf("rule matched %d instance(s), expected >= %d as confirmed on the pinned tree: the rule's anchors no longer resolve", r.Count, r.Min))
		}
	}

	sort.SliceStable(c.Obls, func(i, j int) bool {
		if c.Obls[i].Rule != c.Obls[j].Rule {
			return c.Obls[i].Rule < c.Obls[j].Rule
		}

		return c.Obls[i].Construct < c.Obls[j].Construct
	})

	discharged := 0
	perRule := map[string][2]int{}
	distinct := map[string]bool{}

	for _, o := range c.Obls {
		pr := perRule[o.Rule]
		pr[1]++

		if o.Status == Discharged {
			discharged++
			pr[0]++
		}

		perRule[o.Rule] = pr
		distinct[o.Rule+"|"+o.Construct] = true
	}

	for _, r := range c.Rules {
		pr := perRule[r.ID]
		res.Lines = append(res.Lines, fmt.Sprintf("  %-7s %-3s %3d/%-3d %s", r.ID, r.Engine, pr[0], pr[1], r.Doc))
	}

	replayDir := filepath.Join(verifDir, "evidence", "replay")

	for _, o := range c.Obls {
		if o.Status == Discharged {
			continue
		}

		matched := false

		for _, f := range findings {
			if f.Status == "open" && f.Property == c.Prop && f.Rule == o.Rule && f.Construct == o.Construct {
				matched = true
				o.Known = true
				res.Known++
				res.Lines = append(res.Lines, fmt.Sprintf("KNOWN-FINDING: property=%s rule=%s construct=%q %s", c.Prop, o.Rule, o.Construct, f.What))
			}
		}

		if matched {
			continue
		}

		res.Violations++

		h := sha1.Sum([]byte(o.Rule + "|" + o.Construct))
		name := fmt.Sprintf("%s-%s-%s.json", c.Prop, o.Rule, hex.EncodeToString(h[:4]))
		rp := filepath.Join(replayDir, name)

		if writeEvidence {
			_ = os.MkdirAll(replayDir, 0o755)
			b, _ := json.MarshalIndent(map[string]any{"property": c.Prop, "obligation": o}, "", " ")
			_ = os.WriteFile(rp, append(b, '\n'), 0o644)
		}

		res.Lines = append(res.Lines,
			fmt.Sprintf("%s rule=%s construct=%q at %s: %s", strings.ToUpper(o.Status), o.Rule, o.Construct, o.Pos, o.Detail),
			fmt.Sprintf("VIOLATION property=%s replay=%s", c.Prop, filepath.Join("evidence", "replay", name)))
	}

	if !writeEvidence {
		return res
	}

	// samples: every non-discharged obligation plus a spread of discharged ones
	var samples []any

	for _, o := range c.Obls {
		if o.Status != Discharged {
			samples = append(samples, o)
		}
	}

	step := max(len(c.Obls)/16, 1)
	for i := 0; i < len(c.Obls); i += step {
		if c.Obls[i].Status == Discharged {
			samples = append(samples, c.Obls[i])
		}
	}

	cov := map[string]any{
		"explanation": info.Explanation,
		"not_covered": info.NotCovered,
		"rule": "one obligation per (rule, construct); a construct is a function/type/table role resolved on the type-checked program, never a line number; " +
			"non-trivial = the rule found at least one target instruction/row at that construct",
		"rules":               c.Rules,
		"obligations":         len(c.Obls),
		"discharged":          discharged,
		"evaluations":         len(c.Obls),
		"distinct_nontrivial": len(distinct),
		"functions_analysed":  len(c.funcs),
		"call_sites":          c.callSites,
		"packages_loaded":     len(c.P.OwnPackages()),
		"samples":             samples,
		"exhaustive":          true,
		"exhaustive_note":     "every rule is applied to every matching site of the loaded program (all packages of the module); exhaustive over sites, not over behaviours",
		"checker_cmd":         "bin/cosilint -prop " + c.Prop + " -tier " + tier,
		"trusted_base":        []string{"go/types, go/ssa (x/tools v0.50.0)", "the rule tables in /verif/checker/lint"},
		"known_findings":      res.Known,
		"load_s":              c.P.LoadDur.Seconds(),
	}

	for k, v := range extra {
		cov[k] = v
	}

	ev := map[string]any{
		"property_id": c.Prop,
		"tier":        tier,
		"seed":        seed,
		"level":       "other",
		"coverage":    cov,
		"assumptions": info.Assumptions,
		"wall_s":      time.Since(t0).Seconds(),
		"violations":  res.Violations,
	}

	b, _ := json.MarshalIndent(ev, "", " ")
	_ = os.MkdirAll(filepath.Join(verifDir, "evidence"), 0o755)

	if err := os.WriteFile(filepath.Join(verifDir, "evidence", c.Prop+".json"), append(b, '\n'), 0o644); err != nil {
		res.Lines = append(res.Lines, "ERROR writing evidence: "+err.Error())
		res.Violations++
	}

	return res
}

// Import evaluates another property's rule set and adopts the obligations of one of its rules
// (optionally only those whose construct contains `only`) under this property's rule id: a rule that
// is a necessary condition of two properties is written once.
func (c *Ctx) Import(from func(*Ctx), srcRule, only, dstRule, engine, doc string, minInstances int) {
	sub := NewCtx(c.P, c.Prop)

	func() {
		defer func() {
			if r := recover(); r != nil {
				c.Unknown(dstRule, "imported rule "+srcRule, token.NoPos, fmt.Sprintf("analysis panic in the source rule set: %v", r))
			}
		}()

		from(sub)
	}()

	c.Rule(dstRule, engine, doc, minInstances)

	for f := range sub.funcs {
		c.Touch(f)
	}

	for _, o := range sub.Obls {
		if o.Rule != srcRule || (only != "" && !strings.Contains(o.Construct, only)) {
			continue
		}

		key := dstRule + "|" + o.Construct
		c.seenKey[key]++

		no := *o
		no.Rule = dstRule
		c.Obls = append(c.Obls, &no)
		c.ruleIdx[dstRule].Count++
	}
}
