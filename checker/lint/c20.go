package lint

import (
	"fmt"
	"strings"

	"golang.org/x/tools/go/ssa"
)

const (
	pkgKS = "pkg/keystorage"
	ksT   = "(*" + pkgKS + ".KeyStorage)"
)

var ksLock = LockSpec{Rel: pkgKS, Struct: "KeyStorage", Mutex: "mx", Guarded: []string{"underlying"}}

func init() {
	register(&PropertyInfo{
		ID: "C20",
		Explanation: "R20.1: the storage message is touched only under the KeyStorage mutex; helpers that assume the lock never release it (the callers' check-then-act stays one critical section). " +
			"R20.2: Initialize writes only behind isZero(storage); AddKeySlot writes the slot only when it is absent and the old slot's key was recovered; DeleteKeySlot deletes only with more than one slot and a recovered key. " +
			"R20.3: every mutation of the slot map is followed, before a success return, by KeysHmacHash = hashSlots(<the verified master key>). " +
			"R20.4: getKey releases a key only through verifyKeySlots(key)==nil, and verification is an unconditional constant-time comparison of hashSlots(key) with the stored tag; version, presence and algorithm tests precede decryption; UnmarshalBinary re-checks the version. " +
			"R20.5: the MAC covers every slot's blob in sorted key order.",
		NotCovered: "OpenPGP and HMAC semantics (trusted); behaviour over operation histories (each sentence of the property is reduced to the guard/seal/verify discipline above).",
		Assumptions: []string{
			"gopenpgp helper.Encrypt/DecryptBinaryMessageArmored and crypto/hmac behave as documented",
			"the generated key_storage getters are nil-safe",
		},
		Run: runC20,
	})
}

func runC20(c *Ctx) {
	p := c.P

	// ---------- R20.1
	c.Rule("R20.1", "E2", "KeyStorage.underlying only under KeyStorage.mx; lock-assuming helpers never release it", 8)

	li := p.Lockset(ksLock, pkgKS)
	c.LocksetReport("R20.1", li, nil)

	for _, name := range []string{"Initialize", "AddKeySlot", "DeleteKeySlot", "GetMasterKey", "MarshalBinary", "UnmarshalBinary"} {
		f := p.Method(pkgKS, "KeyStorage", name)
		if !c.NeedFunc("R20.1", f, ksT+"."+name) {
			continue
		}

		nl, nu := 0, 0

		for _, in := range Find(f, func(in ssa.Instruction) bool { _, ok := in.(*ssa.Call); return ok }) {
			switch li.lockOp(in) {
			case 1:
				nl++
			case -1:
				nu++
			}
		}

		c.Check(nl == 1 && nu == 0, "R20.1", FuncName(f)+" :: one critical section (Lock + deferred Unlock)", fpos(f), "yes", fmt.Sprintf("%d Lock / %d early Unlock", nl, nu))
	}

	// ---------- R20.2 guards
	c.Rule("R20.2", "E1", "Initialize only on a zero storage; AddKeySlot only for an absent slot with a recovered key; DeleteKeySlot only with >1 slots and a recovered key", 7)

	storageWrite := OrInstr(StoreToField("Storage", "StorageVersion"), StoreToField("Storage", "KeySlots"), StoreToField("Storage", "KeysHmacHash"))
	getKeyOK := FactEdge("nil(call:" + ksT + ".getKey(*)#1)")
	slotMapWrite := func(in ssa.Instruction) bool {
		switch x := in.(type) {
		case *ssa.MapUpdate:
			return Glob("call:(*api/key_storage.Storage).GetKeySlots(*", p.Desc(x.Map))
		case *ssa.Call:
			return p.CalleeName(x) == "builtin.delete" && Glob("call:(*api/key_storage.Storage).GetKeySlots(*", p.Desc(x.Call.Args[0]))
		}

		return false
	}

	if f := p.Method(pkgKS, "KeyStorage", "Initialize"); c.NeedFunc("R20.2", f, ksT+".Initialize") {
		c.MustCut("R20.2", "storage writes ⊣ {isZero(&underlying)}", f, storageWrite, CutSpec{Edges: FactEdge("true(call:" + pkgKS + ".isZero(param#0.underlying))")}, 3)
		c.MustCut("R20.2", "storage writes ⊣ {encryption succeeded}", f, storageWrite, CutSpec{Edges: FactEdge("nil(call:github.com/ProtonMail/gopenpgp/v2/helper.EncryptBinaryMessageArmored(*)#1)")}, 3)
		c.MustCut("R20.2", "storage writes ⊣ {len(masterKey) == 32}", f, storageWrite, CutSpec{Edges: FactEdge("eq(call:builtin.len(param#1),const:32)")}, 3)
	}

	if f := p.Method(pkgKS, "KeyStorage", "AddKeySlot"); c.NeedFunc("R20.2", f, ksT+".AddKeySlot") {
		c.MustCut("R20.2", "slot write ⊣ {slot absent}", f, slotMapWrite, CutSpec{Edges: FactEdge("nil(lookup(call:(*api/key_storage.Storage).GetKeySlots(param#0.underlying),param#1))")}, 1)
		c.MustCut("R20.2", "slot write ⊣ {getKey(old slot) ok}", f, slotMapWrite, CutSpec{Edges: getKeyOK}, 1)

		// failure atomicity: once the new slot is in the map, the operation either succeeds or takes it out again
		undo := func(in ssa.Instruction) bool {
			call, ok := in.(*ssa.Call)

			return ok && p.CalleeName(call) == "builtin.delete" && slotMapWrite(in) && p.Desc(call.Call.Args[1]) == "param#1"
		}
		isInsert := func(in ssa.Instruction) bool { _, ok := in.(*ssa.MapUpdate); return ok && slotMapWrite(in) }
		c.MustFollow("R20.2", "slot inserted ⇒ no failure return unless it is deleted again", f, isInsert, ReturnsNonNil(0), CutSpec{Nodes: undo}, 1)

		for _, in := range Find(f, slotMapWrite) {
			if mu, ok := in.(*ssa.MapUpdate); ok {
				c.Check(p.Desc(mu.Key) == "param#1", "R20.2", FuncName(f)+" :: writes the slot it checked", mu.Pos(), "newSlotID", "key is "+p.Desc(mu.Key))
			}
		}

		enc := p.Calls(f, "github.com/ProtonMail/gopenpgp/v2/helper.EncryptBinaryMessageArmored")
		c.Check(len(enc) == 1 && p.ArgDesc(enc[0], 0) == "param#2" && Glob("call:"+ksT+".getKey(param#0,param#3,param#4)#0", p.ArgDesc(enc[0], 1)), "R20.2", FuncName(f)+" :: new slot encrypts the recovered master key to the new public key", fpos(f), "yes", "encrypts something else")
	}

	if f := p.Method(pkgKS, "KeyStorage", "DeleteKeySlot"); c.NeedFunc("R20.2", f, ksT+".DeleteKeySlot") {
		lenSlots := "call:builtin.len(call:(*api/key_storage.Storage).GetKeySlots(param#0.underlying))"
		c.mustCutEach("R20.2", "delete(slot)", f, slotMapWrite, 1, map[string]EdgePred{
			"len(slots) != 0": FactEdge("ne(" + lenSlots + ",const:0)"),
			"len(slots) != 1": FactEdge("ne("+lenSlots+",const:1)", "gt("+lenSlots+",const:1)", "ge("+lenSlots+",const:2)"),
			"getKey(slot) ok": getKeyOK,
		})

		for _, in := range Find(f, slotMapWrite) {
			call := in.(*ssa.Call)
			c.Check(p.Desc(call.Call.Args[1]) == "param#1", "R20.2", FuncName(f)+" :: deletes the slot whose key was presented", call.Pos(), "slotID", "deletes "+p.Desc(call.Call.Args[1]))
		}

		gk := p.Calls(f, ksT+".getKey")
		c.Check(len(gk) == 1 && p.ArgDesc(gk[0], 1) == "param#1" && p.ArgDesc(gk[0], 2) == "param#2", "R20.2", FuncName(f)+" :: the presented slot/key pair is the one verified", fpos(f), "yes", "getKey called with other arguments")
	}

	// ---------- R20.3 re-seal
	c.Rule("R20.3", "E1", "after every slot-map mutation, KeysHmacHash = hashSlots(master key) before a success return", 3)

	reseal := func(keyGlob string) InstrPred {
		return func(in ssa.Instruction) bool {
			st, ok := in.(*ssa.Store)

			return ok && StoreToField("Storage", "KeysHmacHash")(in) && Glob("call:"+ksT+".hashSlots(param#0,"+keyGlob+")", p.Desc(st.Val))
		}
	}

	for name, key := range map[string]string{"AddKeySlot": "call:" + ksT + ".getKey(*)#0", "DeleteKeySlot": "call:" + ksT + ".getKey(*)#0"} {
		f := p.Method(pkgKS, "KeyStorage", name)
		c.MustFollow("R20.3", "slot mutation → KeysHmacHash = hashSlots(verified key) before return nil", f, slotMapWrite, ReturnsNilConst(0), CutSpec{Nodes: reseal(key)}, 1)
	}

	if f := p.Method(pkgKS, "KeyStorage", "Initialize"); f != nil {
		c.MustFollow("R20.3", "KeySlots set → KeysHmacHash = hashSlots(masterKey) before return nil", f, StoreToField("Storage", "KeySlots"), ReturnsNilConst(0), CutSpec{Nodes: reseal("param#1")}, 1)
	}

	// ---------- R20.4 verify before release
	c.Rule("R20.4", "E1", "getKey releases a key only after verifyKeySlots(key)==nil; verification is an unconditional constant-time compare; format checks precede decryption", 9)

	if f := p.Method(pkgKS, "KeyStorage", "getKey"); c.NeedFunc("R20.4", f, ksT+".getKey") {
		dec := "call:github.com/ProtonMail/gopenpgp/v2/helper.DecryptBinaryMessageArmored(*)"
		// (verifyKeySlots is not an anchor: the normal form inlines it, so the same obligations hold whether
		// the comparison lives in a helper or in getKey itself) a key is released only through the matching
		// outcome of an unconditional constant-time comparison of hashSlots(decrypted key) with the stored tag
		cmp := "call:crypto/subtle.ConstantTimeCompare(call:" + ksT + ".hashSlots(param#0," + dec + "#0),call:(*api/key_storage.Storage).GetKeysHmacHash(param#0.underlying))"
		c.MustCut("R20.4", "return key ⊣ {verifyKeySlots(decrypted key) == nil}", f, ReturnsNonNil(0), CutSpec{Edges: FactEdge("ne("+cmp+",const:0)", "eq("+cmp+",const:1)")}, 1)
		c.Check(len(p.Calls(f, "crypto/subtle.ConstantTimeCompare")) == 1 && len(p.Calls(f, "bytes.Equal")) == 0, "R20.4", FuncName(f)+" :: the tag is compared once, in constant time", fpos(f), "yes", "tag comparison changed")

		okRet := true

		for _, in := range Find(f, ReturnsNonNil(0)) {
			if !p.LeavesMatch(in.(*ssa.Return).Results[0], dec+"#0") {
				okRet = false
			}
		}

		c.Check(okRet, "R20.4", FuncName(f)+" :: the released key is the decrypted one", fpos(f), "yes", "returns another value")

		decrypt := p.CallTo("github.com/ProtonMail/gopenpgp/v2/helper.DecryptBinaryMessageArmored")
		v1 := p.ConstVal("api/key_storage", "StorageVersion_STORAGE_VERSION_1")
		alg := p.ConstVal("api/key_storage", "Algorithm_PGP_AES_GCM_256")

		c.mustCutEach("R20.4", "decrypt", f, decrypt, 1, map[string]EdgePred{
			"initialised":     FactEdge("false(call:" + pkgKS + ".isZero(param#0.underlying))"),
			"version == 1":    FactEdge("eq(call:(*api/key_storage.Storage).GetStorageVersion(param#0.underlying)," + v1 + ")"),
			"slot present":    FactEdge("true(lookup(call:(*api/key_storage.Storage).GetKeySlots(param#0.underlying),param#1)#1)"),
			"algorithm known": FactEdge("eq(*lookup(*)#0.Algorithm," + alg + ")"),
		})

		dcalls := p.Calls(f, "github.com/ProtonMail/gopenpgp/v2/helper.DecryptBinaryMessageArmored")
		c.Check(len(dcalls) == 1 && p.ArgDesc(dcalls[0], 0) == "param#2" && p.FieldOfLeaves(CallArgs(dcalls[0])[2], "EncryptedKey", "lookup(call:(*api/key_storage.Storage).GetKeySlots(param#0.underlying),param#1)#0", "lookup(call:(*api/key_storage.Storage).GetKeySlots(param#0.underlying),param#1)"),
			"R20.4", FuncName(f)+" :: decrypts the requested slot's blob with the presented private key", fpos(f), "yes", "decrypts something else")
	}

	if f := p.Method(pkgKS, "KeyStorage", "UnmarshalBinary"); c.NeedFunc("R20.4", f, ksT+".UnmarshalBinary") {
		v1 := p.ConstVal("api/key_storage", "StorageVersion_STORAGE_VERSION_1")
		c.MustCut("R20.4", "return nil ⊣ {UnmarshalVT ok}", f, ReturnsNilConst(0), CutSpec{Edges: FactEdge("nil(call:(*api/key_storage.Storage).UnmarshalVT(*")}, 1)
		c.MustCut("R20.4", "return nil ⊣ {version == 1}", f, ReturnsNilConst(0), CutSpec{Edges: FactEdge("eq(call:(*api/key_storage.Storage).GetStorageVersion(param#0.underlying)," + v1 + ")")}, 1)
	}

	// no state besides the storage message and the mutex influences verification (e.g. a cached "already verified" flag)
	if ks := p.Named(pkgKS, "KeyStorage"); ks != nil {
		st := ks.Underlying().(interface{ NumFields() int })
		c.Check(st.NumFields() == 2, "R20.4", pkgKS+".KeyStorage :: state is exactly {mutex, storage message}", ks.Obj().Pos(), "2 fields", fmt.Sprintf("%d fields: verification may depend on state outside the sealed message", st.NumFields()))
	}

	// ---------- R20.5 canonical hash
	c.Rule("R20.5", "E1", "hashSlots: keys sorted before iteration; every slot's blob is written to an HMAC-SHA256 keyed by the master key", 3)

	if f := p.Method(pkgKS, "KeyStorage", "hashSlots"); c.NeedFunc("R20.5", f, ksT+".hashSlots") {
		write := p.CallTo("(io.Writer).Write", "(hash.Hash).Write")
		ws := p.Calls(f, "(io.Writer).Write", "(hash.Hash).Write")
		ok := len(ws) == 1
		d := ""
		slots := "call:(*api/key_storage.Storage).GetKeySlots(param#0.underlying)"

		if ok {
			d = p.DescN(CallArgs(ws[0])[1], 7)
			ok = strings.Contains(d, "GetKeySlots(param#0.underlying)") && strings.HasSuffix(d, ".EncryptedKey") && strings.Contains(d, "maps.Keys(")
		}

		// accepted forms: keys := maps.Keys(slots); sort.Strings(keys) / slices.Sort(keys); for … range keys
		//                 for … range slices.Sorted(maps.Keys(slots))
		if strings.Contains(d, "index(call:slices.Sorted(call:maps.Keys("+slots+"))") {
			c.OK("R20.5", FuncName(f)+" :: Write ⊣ {sort.Strings(keys)}", fpos(f), "iterates slices.Sorted(maps.Keys(slots))")
			c.OK("R20.5", FuncName(f)+" :: the sorted slice is the key set that is iterated", fpos(f), "iterates slices.Sorted(maps.Keys(slots))")
		} else {
			c.MustCut("R20.5", "Write ⊣ {sort.Strings(keys)}", f, write, CutSpec{Nodes: p.CallTo("sort.Strings", "slices.Sort")}, 1)

			sorts := p.Calls(f, "sort.Strings", "slices.Sort")
			c.Check(len(sorts) == 1 && Glob("call:*maps.Keys("+slots+")", p.ArgDesc(sorts[0], 0)), "R20.5", FuncName(f)+" :: the sorted slice is the key set that is iterated", fpos(f), "yes", "sorts something else")
		}

		c.Check(ok, "R20.5", FuncName(f)+" :: writes keySlots[key].EncryptedKey for every key of the slot map", fpos(f), short(d, 140), "writes "+d)

		hm := p.Calls(f, "crypto/hmac.New")
		c.Check(len(hm) == 1 && p.ArgDesc(hm[0], 1) == "param#1" && Glob("func:crypto/sha256.New", p.ArgDesc(hm[0], 0)), "R20.5", FuncName(f)+" :: HMAC-SHA256 keyed by the master key", fpos(f), "yes", "MAC construction changed")

	}

	// ---------- error discipline (E8)
	errDisciplineFor(c, "C20")

	// ---------- R20.7 failure atomicity
	c.Rule("R20.7", "E8", "key storage: no method writes the storage and can still fail afterwards — a failed Initialize / AddKeySlot / DeleteKeySlot leaves the slots and the tag as they were", 2)
	c.FailureAtomicity("R20.7", []string{pkgKS}, nil, pkgRRuntime, 4)

}
