package lint

import (
	"fmt"
	"go/types"
	"sort"
	"strings"

	"golang.org/x/tools/go/ssa"
)

func init() {
	register(&PropertyInfo{
		ID: "C13",
		Explanation: "R13.1: every re-establishment of the stream inside the client's receive helper sends a request that (a) clears BootstrapContents, BootstrapBookmark and TailEvents, (b) starts from the last bookmark received, and (c) still carries every other field the initial request carried (namespace, type, id, API version, label/ID queries, aggregation) — either because it is the same request object or because a fresh literal copies all of them. " +
			"R13.2: the retry loop is entered only when retries are enabled and a bookmark was seen; FailedPrecondition on re-establishment ends the helper with the invalid-bookmark class; exhausted backoff and a done context end it with an error — none of them loops. " +
			"R13.3: the bookmark of each received event is recorded before the event is queued for delivery; after a successful re-watch the handshake message is discarded, the next one returned, and only then the backoff is reset. " +
			"R13.4: any error from the helper or from decoding produces exactly one Errored event and ends the goroutine. R13.5: every event of a received message is appended and the batch is sent before the next receive. " +
			"R13.6: the server side (range guard, FailedPrecondition mapping) is C12/C11.",
		NotCovered: "equality of the client-side stream with the server's log over all fault sequences (behavioural); gRPC stream semantics.",
		Assumptions: []string{
			"the server resumes exactly after a valid bookmark and rejects an invalid one (C12 R12.2, C11 R11.1)",
		},
		Run: runC13,
	})
}

// msgFields returns "Type.Field" for every field stored into composite literals of v1alpha1 types named tname in f.
func msgFieldsSet(p *Program, f *ssa.Function, tnames ...string) map[string]bool {
	out := map[string]bool{}

	for _, in := range Find(f, func(in ssa.Instruction) bool { al, ok := in.(*ssa.Alloc); return ok && al.Comment == "complit" }) {
		al := in.(*ssa.Alloc)

		n, ok := al.Type().(*types.Pointer).Elem().(*types.Named)
		if !ok || n.Obj().Pkg() == nil || !strings.HasSuffix(n.Obj().Pkg().Path(), pkgAPI) || !contains(tnames, n.Obj().Name()) {
			continue
		}

		for fld := range allocFields(al) {
			out[n.Obj().Name()+"."+fld] = true
		}
	}

	return out
}

// resumeRequestRule decides R13.1 under the given rule id; it returns the watch goroutine and its receive helper.
func resumeRequestRule(c *Ctx, rule string) (*ssa.Function, *ssa.Function) {
	p := c.P

	wa := p.Method(pkgClient, "Adapter", "watchAdapter")
	if !c.NeedFunc(rule, wa, cliT+".watchAdapter") {
		return nil, nil
	}

	rewatch := p.CallTo("(" + pkgAPI + ".StateClient).Watch")
	recv := ClosureWith(wa, rewatch)

	if !c.NeedFunc(rule, recv, "watchAdapter receive helper (closure containing the re-Watch)") {
		return nil, nil
	}

	// what the initial requests carry
	initial := map[string]bool{}

	for _, m := range []string{"Watch", "WatchKind", "WatchKindAggregated"} {
		f := p.Method(pkgClient, "Adapter", m)
		if !c.NeedFunc(rule, f, cliT+"."+m) {
			continue
		}

		for k := range msgFieldsSet(p, f, "WatchRequest", "WatchOptions") {
			initial[k] = true
		}
		// the request object handed to the goroutine is the one that was sent
		okSame := false

		for _, g := range Find(f, func(in ssa.Instruction) bool { _, ok := in.(*ssa.Go); return ok }) {
			call := g.(*ssa.Go)
			args := CallArgs(call)
			sent := p.Calls(f, "("+pkgAPI+".StateClient).Watch")

			if len(sent) == 1 && len(args) >= 7 && SameVal(args[6], CallArgs(sent[0])[2]) {
				okSame = true
			}
		}

		c.Check(okSame, rule, FuncName(f)+" :: the goroutine receives the request that was sent", fpos(f), "yes", "the retry path works on a different request than the one the watch was established with")
	}

	calls := p.Calls(recv, "("+pkgAPI+".StateClient).Watch")
	if len(calls) != 1 {
		c.Bad(rule, FuncName(recv)+" :: one re-Watch call site", fpos(recv), fmt.Sprintf("%d call sites", len(calls)))

		return nil, nil
	}

	reqArg := CallArgs(calls[0])[2]
	reqDesc := p.Desc(reqArg)
	reset := map[string]string{"BootstrapContents": "const:false", "BootstrapBookmark": "const:false", "TailEvents": "const:0"}

	// form C: the original request object with its Options replaced by a freshly built message
	var optLit *ssa.Alloc

	if reqDesc == "free:param#6" {
		for _, g := range append([]*ssa.Function{recv}, AllClosures(recv)...) {
			for _, in := range Find(g, StoreToField("WatchRequest", "Options")) {
				if al, ok := in.(*ssa.Store).Val.(*ssa.Alloc); ok && al.Comment == "complit" {
					optLit = al
				}
			}
		}
	}

	// a path on which no bookmark was recorded never reaches the re-Watch (R13.2 decides that), so the
	// resume stores may sit behind a test of the bookmark
	noBookmark := FactEdge("nil(*free:var:[]byte)")

	if optLit != nil {
		c.OK(rule, FuncName(recv)+" :: resume request is the original request object (all fields preserved)", calls[0].Pos(), reqDesc+" with freshly built Options")

		fields := allocFields(optLit)

		var missing, wrong []string

		for k := range initial {
			if !strings.HasPrefix(k, "WatchOptions.") {
				continue
			}

			fld := strings.TrimPrefix(k, "WatchOptions.")
			v, set := fields[fld]

			if want, isReset := reset[fld]; isReset {
				if set && p.Desc(v) != want {
					wrong = append(wrong, fld)
				}

				continue
			}

			if !set {
				missing = append(missing, fld)
			}
		}

		sort.Strings(missing)
		sort.Strings(wrong)
		c.Check(len(missing) == 0 && len(wrong) == 0, rule, FuncName(recv)+" :: freshly built resume Options carry every selector of the initial request and no one-shot option", optLit.Pos(), "all copied",
			"resume options drop "+strings.Join(missing, ", ")+" / re-send "+strings.Join(wrong, ", "))

		bm, ok := fields["StartFromBookmark"]
		c.Check(ok && (Glob("free:*.Bookmark", p.Desc(bm)) || Glob("*var:[]byte", p.Desc(bm))), rule, FuncName(recv)+" :: resume Options start from the last bookmark", optLit.Pos(), "yes", "StartFromBookmark is not the recorded bookmark")

		c.MustCut(rule, "re-Watch ⊣ {Options = resume options}", recv, rewatch, CutSpec{Edges: noBookmark, Nodes: func(in ssa.Instruction) bool {
			return StoreToField("WatchRequest", "Options")(in) && in.(*ssa.Store).Val == ssa.Value(optLit)
		}}, 1)
	} else if reqDesc == "free:param#6" {
		c.OK(rule, FuncName(recv)+" :: resume request is the original request object (all fields preserved)", calls[0].Pos(), reqDesc)

		for fld, want := range reset {
			fld, want := fld, want
			c.MustCut(rule, "re-Watch ⊣ {Options."+fld+" = "+strings.TrimPrefix(want, "const:")+"}", recv, rewatch, CutSpec{Edges: noBookmark, Nodes: func(in ssa.Instruction) bool {
				return StoreToField("WatchOptions", fld)(in) && p.Desc(in.(*ssa.Store).Val) == want
			}}, 1)
		}

		c.MustCut(rule, "re-Watch ⊣ {Options.StartFromBookmark = lastBookmark}", recv, rewatch, CutSpec{Edges: noBookmark, Nodes: func(in ssa.Instruction) bool {
			return StoreToField("WatchOptions", "StartFromBookmark")(in) && Glob("free:*.Bookmark", p.Desc(in.(*ssa.Store).Val)) || StoreToField("WatchOptions", "StartFromBookmark")(in) && Glob("*var:[]byte", p.Desc(in.(*ssa.Store).Val))
		}}, 1)

		// no other field of the request is overwritten on the retry path
		for _, g := range append([]*ssa.Function{recv}, AllClosures(recv)...) {
			for _, in := range Find(g, func(in ssa.Instruction) bool { _, ok := in.(*ssa.Store); return ok }) {
				st := in.(*ssa.Store)

				fa, ok := st.Addr.(*ssa.FieldAddr)
				if !ok {
					continue
				}

				sn, fld := FieldOf(fa.X, fa.Field)
				if sn != "WatchRequest" && sn != "WatchOptions" {
					continue
				}

				_, isReset := reset[fld]
				c.Check(sn == "WatchOptions" && (isReset || fld == "StartFromBookmark"), rule, FuncName(g)+" :: retry path rewrites only bootstrap/tail/bookmark ("+sn+"."+fld+")", st.Pos(), "allowed", "the retry path overwrites "+sn+"."+fld)
			}
		}
	} else {
		// a fresh request: it must copy everything the initial requests carry, with the four fields overridden
		got := msgFieldsSet(p, recv, "WatchRequest", "WatchOptions")
		for _, g := range p.PkgFuncs(pkgClient) {
			// helper that builds the resume request
			if cl, _ := CallOf(reqArg); cl != nil && StaticOrClosureCallee(cl) == g {
				for k := range msgFieldsSet(p, g, "WatchRequest", "WatchOptions") {
					got[k] = true
				}
			}
		}

		var missing []string

		for k := range initial {
			fld := k[strings.Index(k, ".")+1:]
			if _, isReset := reset[fld]; isReset {
				continue
			}

			if !got[k] {
				missing = append(missing, k)
			}
		}

		sort.Strings(missing)
		c.Check(len(missing) == 0, rule, FuncName(recv)+" :: a freshly built resume request copies every field of the initial request", calls[0].Pos(), "all copied",
			"resume request drops "+strings.Join(missing, ", ")+": after a transparent reconnect the watch silently changes (filters lost, legacy API version, …)")
	}

	return wa, recv
}

func runC13(c *Ctx) {
	p := c.P

	c.Rule("R13.1", "E3", "resume request: bootstrap/tail cleared, StartFromBookmark = last bookmark, every other field of the initial request preserved", 4)

	wa, recv := resumeRequestRule(c, "R13.1")
	if wa == nil || recv == nil {
		return
	}

	rewatch := p.CallTo("(" + pkgAPI + ".StateClient).Watch")

	// ---------- R13.2 no silent gap
	c.Rule("R13.2", "E1", "retry only with retries enabled and a bookmark seen; invalid bookmark / exhausted backoff / done context end the helper", 7)

	c.mustCutEach("R13.2", "re-Watch", recv, rewatch, 1, map[string]EdgePred{
		"first Recv failed":    FactEdge("nonnil(call:(google.golang.org/grpc.ServerStreamingClient[*]).Recv(*)#1)"),
		"retries not disabled": FactEdge("false(*free:param#0.options.DisableWatchRetry)"),
		"a bookmark was seen":  FactEdge("nonnil(free:*.Bookmark)", "nonnil(*free:var:[]byte)"),
		"context still alive":  FactEdge("nil(call:(context.Context).Err(free:param#1))"),
		"backoff not exhausted": func(e EdgeInfo) bool {
			return AnyFact(e, func(f string) bool {
				return strings.HasPrefix(f, "ne(call:(*github.com/cenkalti/backoff/v4.ExponentialBackOff).NextBackOff(")
			})
		},
	})

	fp := p.EdgeSuccs(recv, "eq(call:google.golang.org/grpc/status.Code(*),const:9)")
	c.NoReach("R13.2", "FailedPrecondition on re-establishment never retries", recv, fp, 1, rewatch, CutSpec{})

	if len(fp) > 0 {
		bad, w := p.Reach(fp, func(in ssa.Instruction) bool {
			r, ok := in.(*ssa.Return)
			if !ok || !IsReturn(in) {
				return false
			}

			mi, isMI := r.Results[1].(*ssa.MakeInterface)

			return !(isMI && strings.HasSuffix(mi.X.Type().String(), ".eInvalidWatchBookmark"))
		}, CutSpec{})
		c.Check(!bad, "R13.2", FuncName(recv)+" :: FailedPrecondition returns the invalid-bookmark class", fpos(recv), "eInvalidWatchBookmark", "returns another error: "+strings.Join(w, " "))
	}

	stop := p.EdgeSuccs(recv, "eq(call:(*github.com/cenkalti/backoff/v4.ExponentialBackOff).NextBackOff(*")
	c.NoReach("R13.2", "exhausted backoff ends the helper with an error", recv, stop, 1, OrInstr(rewatch, ReturnsNilConst(1)), CutSpec{})
	c.NoReach("R13.2", "a done context ends the helper with an error", recv, p.EdgeSuccs(recv, "nonnil(call:(context.Context).Err(free:param#1))", "eq(select#0,const:0)"), 2, OrInstr(rewatch, ReturnsNilConst(1)), CutSpec{})

	// ---------- R13.3 bookmark tracking
	c.Rule("R13.3", "E1", "lastBookmark recorded before the event is queued; handshake discarded after re-watch; backoff reset only after the next message arrived", 4)

	queue := func(in ssa.Instruction) bool {
		call, ok := in.(*ssa.Call)

		return ok && p.CalleeName(call) == "builtin.append" && Glob("*var:[]pkg/state.Event", p.Desc(call.Call.Args[0])) || ok && p.CalleeName(call) == "builtin.append" && strings.Contains(p.Desc(call.Call.Args[0]), "makeslice")
	}
	setLB := func(in ssa.Instruction) bool {
		st, ok := in.(*ssa.Store)

		return ok && Glob("var:[]byte", p.Desc(st.Addr)) && Glob("*.Bookmark", p.Desc(st.Val))
	}

	c.MustCut("R13.3", "events = append(events, event) ⊣ {lastBookmark = msgEvent.Bookmark}", wa, queue, CutSpec{Nodes: setLB}, 1)
	// recorded for the event of this iteration: after one append the next append needs a new store
	c.MustFollow("R13.3", "between two queued events the bookmark is recorded again", wa, queue, queue, CutSpec{Nodes: setLB}, 1)

	recvCalls := p.Calls(recv, "(google.golang.org/grpc.ServerStreamingClient[*]).Recv")
	c.Check(len(recvCalls) == 3, "R13.3", FuncName(recv)+" :: Recv sites: stream, handshake after re-watch, first message after re-watch", fpos(recv), "3", fmt.Sprintf("%d Recv call sites", len(recvCalls)))

	reset2 := p.CallTo("(*github.com/cenkalti/backoff/v4.ExponentialBackOff).Reset")
	c.MustCut("R13.3", "backoff.Reset ⊣ {re-Watch ok}", recv, reset2, CutSpec{Edges: FactEdge("nil(call:(" + pkgAPI + ".StateClient).Watch(*)#1)")}, 1)

	// after the re-watch, success is returned only after two successful Recv (handshake + message)
	if len(recvCalls) == 3 {
		okH := false
		// handshake result #0 is unused; the returned message comes from a later Recv
		for _, rc := range recvCalls[1:] {
			used := false

			for _, r := range *rc.Value().Referrers() {
				if ex, ok := r.(*ssa.Extract); ok && ex.Index == 0 && len(*ex.Referrers()) > 0 {
					used = true
				}
			}

			if !used {
				okH = true
			}
		}

		c.Check(okH, "R13.3", FuncName(recv)+" :: the handshake message after re-establishment is discarded", fpos(recv), "yes", "the empty handshake message would be delivered as an event batch")
		c.NoReach("R13.3", "after re-Watch, a message is returned only after handshake and message were received", recv, After(recv, rewatch), 1, AndInstr(ReturnsNilConst(1), ReturnsNonNil(0)),
			CutSpec{Nodes: func(in ssa.Instruction) bool { return in == recvCalls[2].(ssa.Instruction) }})
	}

	// ---------- R13.4 terminal error
	c.Rule("R13.4", "E1", "helper/decoding errors: one Errored event, then the goroutine returns", 3)

	sendErr := p.CallTo("dyn:closure:"+FuncName(wa)+"$1", "closure:"+FuncName(wa)+"$1")
	se := ClosureWith(wa, func(in ssa.Instruction) bool {
		return StoreToField("Event", "Type")(in) && p.Desc(in.(*ssa.Store).Val) == p.ConstVal(pkgState, "Errored")
	})

	if c.NeedFunc("R13.4", se, "watchAdapter sendError closure") {
		sendErr = func(in ssa.Instruction) bool {
			call, ok := in.(*ssa.Call)

			return ok && StaticOrClosureCallee(call) == se
		}

		n := len(Find(wa, sendErr))
		c.Check(n >= 1, "R13.4", FuncName(wa)+" :: sendError call sites (helper error + 4 decode errors)", fpos(wa), fmt.Sprintf("%d", n), fmt.Sprintf("only %d sendError call sites", n))
		c.NoReach("R13.4", "after sendError the goroutine returns (no further receive, no delivery)", wa, After(wa, sendErr), 1, OrInstr(func(in ssa.Instruction) bool {
			call, ok := in.(*ssa.Call)

			return ok && StaticOrClosureCallee(call) == recv
		}, p.CallTo(gSend)), CutSpec{})

		errEdges := p.EdgeSuccs(wa, "nonnil(call:closure:"+FuncName(recv)+"()#1)", "nonnil(call:pkg/resource/protobuf.Unmarshal(*)#1)", "nonnil(call:pkg/resource/protobuf.UnmarshalResource(*)#1)")
		c.NoReach("R13.4", "every helper/decoding error reaches sendError before anything else is delivered", wa, errEdges, 3, OrInstr(p.CallTo(gSend), IsReturn), CutSpec{Nodes: sendErr, Edges: FactEdge("nonnil(call:(context.Context).Err(param#1))")}) // (a done watch context: nobody is left to deliver the error to)
	}

	// ---------- R13.5 no loss inside a message
	c.Rule("R13.5", "E1", "all events of a message are queued and the batch is sent before the next receive", 2)

	callRecv := func(in ssa.Instruction) bool {
		call, ok := in.(*ssa.Call)

		return ok && StaticOrClosureCallee(call) == recv
	}
	c.MustFollow("R13.5", "between two receives the batch is delivered (or was empty / the goroutine ended)", wa, callRecv, callRecv, CutSpec{Nodes: p.CallTo(gSend), Edges: func(e EdgeInfo) bool {
		// an empty batch on the single-event channel has nothing to send: the range loop's exit edge
		return AnyFact(e, func(f string) bool { return strings.HasPrefix(f, "ge((phi(") && strings.Contains(f, "builtin.len(") })
	}}, 1)

	// the loop over msg.Event has no `continue`/skip that bypasses the append other than through sendError+return
	rangeBody := p.EdgeSuccs(wa, "lt((phi(*call:builtin.len(*call:closure:"+FuncName(recv)+"()#0.Event))")
	if len(rangeBody) == 0 {
		rangeBody = p.EdgeSuccs(wa, "lt((phi(*")
	}

	bad, w := p.Reach(After(wa, setLB), func(in ssa.Instruction) bool { return setLB(in) }, CutSpec{Nodes: queue})
	c.Check(!bad, "R13.5", FuncName(wa)+" :: every received event is queued (no path to the next event that skips the append)", fpos(wa), "yes", "an event can be dropped: "+strings.Join(w, " "))
	_ = rangeBody

	// ---------- R13.6 (shared with C12 R12.3)
	c.Import(runC12, "R12.3", "", "R13.6", "E1", "every bookmark the store hands out (events, Bootstrapped, Noop) encodes the position just before the next event this watch will deliver: the client resumes from it, so a bookmark taken from another position is a silent gap", 1)

}
