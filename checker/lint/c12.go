package lint

import (
	"fmt"
	"go/token"
	"go/types"
	"strings"

	"golang.org/x/tools/go/ssa"
)

func init() {
	register(&PropertyInfo{
		ID: "C12",
		Explanation: "R12.1: bookmark codec agreement — encode = clone(process cookie) ++ big-endian uint64(position); decode rejects length ≠ 16 and a foreign cookie before it reads [8:], with the same cookie source and with constants that agree (8 + 8 = 16); both rejections return the InvalidWatchBookmark class. " +
			"R12.2: range guard — a decoded position is accepted only through the three pass edges whose normal forms are exactly writePos − capacity + gap ≤ pos, pos < writePos and pos ≥ 0 (single) / pos ≥ −1 (kind); every reject edge returns ErrInvalidWatchBookmark before any goroutine exists; on the accepted path pos is advanced by one (the bookmarked event itself is skipped); the decode error is propagated. " +
			"R12.3: every published event gets encodeBookmark(writePos) before it is stored in the ring, and Bootstrapped/Noop events carry encodeBookmark(start − 1). " +
			"R12.4: tail bounds — kind: n is clamped to capacity − gap and pos = max(writePos − n, 0); single: walk back while pos > max(writePos − capacity + gap, 0) counting matching IDs only; mutually exclusive options are rejected up front. " +
			"R12.5: snapshot contents (initial event / bootstrap list) are sent only when neither tail nor bookmark was requested.",
		NotCovered: "'an interrupted and resumed stream concatenates to the uninterrupted one' as an equality of event sequences over all histories; only its mechanism (bookmark = absolute position of the event; resume at position+1; range window) is decided.",
		Assumptions: []string{
			"between the loads compared by a range guard no store to writePos/capacity/gap occurs (the guard runs inside the collection's critical section, R02.1/R02.3)",
			"crypto/rand yields a cookie that differs between process incarnations",
		},
		Run: runC12,
	})
}

func runC12(c *Ctx) {
	p := c.P
	al := CollectionAliases
	errBM := "global:" + pkgInmem + ".ErrInvalidWatchBookmark"

	// ---------- R12.1 codec
	c.Rule("R12.1", "E4", "bookmark codec: cookie(8) ++ BE uint64; decode checks len == 16 and the cookie before reading [8:]; constants agree; rejections are InvalidWatchBookmark", 8)

	enc := p.Func(pkgInmem, "encodeBookmark")
	dec := p.Func(pkgInmem, "decodeBookmark")
	cookieLen := int64(-1)

	// the cookie initialiser: a closure in the package initialiser that reads crypto/rand into make([]byte, N)
	for _, f := range p.PkgFuncs(pkgInmem) {
		if f.Parent() == nil || f.Parent().Name() != "init" {
			continue
		}

		for _, call := range p.Calls(f, "io.ReadFull") {
			c.Touch(f)

			if Glob("*global:crypto/rand.Reader", p.ArgDesc(call, 0)) {
				if sl, ok := Fwd(CallArgs(call)[1]).(*ssa.Slice); ok && sl.High != nil {
					cookieLen = p.LinOf(sl.High, nil).Const
				}
			}

			c.errPropagatesOrPanics("R12.1", f, call)
		}
	}

	c.Check(cookieLen > 0, "R12.1", pkgInmem+".bookmarkCookie :: random cookie from crypto/rand, checked", 0, fmt.Sprintf("%d bytes", cookieLen), "cookie initialiser not found")

	if c.NeedFunc("R12.1", enc, "encodeBookmark") {
		ok := false

		cookieGlob := "call:dyn:*global:" + pkgInmem + ".bookmarkCookie()"

		for _, in := range Find(enc, IsReturn) {
			ok = false

			call, _ := CallOf(in.(*ssa.Return).Results[0])
			if call == nil || p.CalleeName(call) != "(encoding/binary.bigEndian).AppendUint64" || p.ArgDesc(call, 2) != "param#0" {
				continue
			}

			// the prefix is a private copy of the cookie: Clone(cookie) or append(<empty fresh slice>, cookie...)
			base, _ := CallOf(CallArgs(call)[1])
			if base == nil {
				continue
			}

			switch p.CalleeName(base) {
			case "slices.Clone", "bytes.Clone":
				ok = Glob(cookieGlob, p.ArgDesc(base, 0))
			case "builtin.append":
				args := CallArgs(base)
				if len(args) == 2 && Glob(cookieGlob, p.Desc(args[1])) {
					switch b := Fwd(args[0]).(type) {
					case *ssa.MakeSlice:
						ok = p.Desc(b.Len) == "const:0"
					case *ssa.Const:
						ok = b.IsNil()
					case *ssa.Slice:
						// make([]byte, 0, <const>) is `new [n]byte` sliced to [:0]
						al, isAlloc := b.X.(*ssa.Alloc)
						ok = isAlloc && al.Comment == "makeslice" && b.High != nil && p.Desc(b.High) == "const:0"
					}
				}
			}
		}

		c.Check(ok, "R12.1", FuncName(enc)+" :: clone(cookie) ++ BigEndian uint64(pos)", fpos(enc), "yes", "encoding differs")
	}

	if c.NeedFunc("R12.1", dec, "decodeBookmark") {
		var lenConst, hi, lo int64 = -1, -1, -1

		for _, lf := range p.LinFactsOf(dec, nil) {
			if strings.HasPrefix(lf, "eq:+1*call:builtin.len(param#0)-") {
				fmt.Sscanf(strings.TrimPrefix(lf, "eq:+1*call:builtin.len(param#0)-"), "%d", &lenConst)
			}
		}

		isSlice := func(in ssa.Instruction) bool { s, ok := in.(*ssa.Slice); return ok && p.Desc(s.X) == "param#0" }

		for _, in := range Find(dec, isSlice) {
			s := in.(*ssa.Slice)
			if s.High != nil && s.Low == nil {
				hi = p.LinOf(s.High, nil).Const
			}

			if s.Low != nil && s.High == nil {
				lo = p.LinOf(s.Low, nil).Const
			}
		}

		c.Check(lenConst == 16 && hi == cookieLen && lo == cookieLen && lenConst == cookieLen+8, "R12.1", FuncName(dec)+" :: constants agree: len == cookie + 8, cookie = [:N], position = [N:]", fpos(dec),
			fmt.Sprintf("len=%d cookie=[:%d] pos=[%d:] cookieLen=%d", lenConst, hi, lo, cookieLen), fmt.Sprintf("len=%d cookie=[:%d] pos=[%d:] cookieLen=%d", lenConst, hi, lo, cookieLen))
		c.MustCut("R12.1", "slicing ⊣ {len(bookmark) == 16}", dec, isSlice, CutSpec{Edges: p.LinEdge(nil, "eq:+1*call:builtin.len(param#0)-16")}, 2)
		c.MustCut("R12.1", "position read ⊣ {cookie matches}", dec, p.CallTo("(encoding/binary.bigEndian).Uint64"),
			CutSpec{Edges: FactEdge("true(call:slices.Equal(slice(param#0,<nil>,const:8),call:dyn:*global:" + pkgInmem + ".bookmarkCookie()))")}, 1)

		okErr := true
		nErr := 0

		for _, in := range Find(dec, ReturnsNonNil(1)) {
			nErr++

			if p.Desc(in.(*ssa.Return).Results[1]) != "*"+errBM {
				okErr = false
			}
		}

		c.Check(okErr && nErr >= 1, "R12.1", FuncName(dec)+" :: both rejections return ErrInvalidWatchBookmark", fpos(dec), fmt.Sprintf("%d rejecting return(s)", nErr), fmt.Sprintf("%d rejections, class ok=%v", nErr, okErr))
		// ... and there are two of them: acceptance needs both tests
		c.MustCut("R12.1", "accept ⊣ {len(bookmark) == 16}", dec, ReturnsNilConst(1), CutSpec{Edges: p.LinEdge(nil, "eq:+1*call:builtin.len(param#0)-16")}, 1)
		c.MustCut("R12.1", "accept ⊣ {cookie matches}", dec, ReturnsNilConst(1),
			CutSpec{Edges: FactEdge("true(call:slices.Equal(slice(param#0,<nil>,const:8),call:dyn:*global:" + pkgInmem + ".bookmarkCookie()))")}, 1)

		ok := false

		for _, in := range Find(dec, ReturnsNilConst(1)) {
			ok = Glob("call:(encoding/binary.bigEndian).Uint64(*global:encoding/binary.BigEndian,slice(param#0,const:8,<nil>))", p.Desc(in.(*ssa.Return).Results[0]))
		}

		c.Check(ok, "R12.1", FuncName(dec)+" :: position = BigEndian uint64 of bookmark[8:]", fpos(dec), "yes", "decoding differs from the encoder")
	}

	// the error value belongs to the InvalidWatchBookmark class
	if g := p.Pkg(pkgInmem).Var("ErrInvalidWatchBookmark"); g != nil {
		elem := g.Type().(*types.Pointer).Elem()
		c.Check(HasMethod(elem, "InvalidWatchBookmarkError"), "R12.1", pkgInmem+".ErrInvalidWatchBookmark :: carries the InvalidWatchBookmarkError marker", g.Pos(), "yes", "the sentinel is not of the invalid-bookmark class")
	} else {
		c.Unknown("R12.1", "anchor-unresolved: ErrInvalidWatchBookmark", 0, "global not found")
	}

	for _, name := range []string{"Watch", "WatchAll"} {
		f := p.Method(pkgInmem, "ResourceCollection", name)
		if !c.NeedFunc("R12.2", f, collT+"."+name) {
			continue
		}

		_, del := deliveryClosures(p, f)

		// ---------- R12.2 range guard
		c.Rule("R12.2", "E6", "bookmark accepted only via writePos−capacity+gap ≤ pos ∧ pos < writePos ∧ pos ≥ 0 (single) / −1 (kind); rejects return ErrInvalidWatchBookmark before any goroutine; pos += 1 on the accepted path", 14)

		lower := "le:-1*P"
		lowerReject := "le:+1*P+1"

		if name == "WatchAll" {
			lower = "le:-1*P-1"
			lowerReject = "le:+1*P+2"
		}

		skip := func(in ssa.Instruction) bool {
			st, ok := in.(*ssa.Store)
			if !ok || !isWatcherPosAddr(st.Addr) {
				return false
			}
			// the increment that follows a successful decode: pos = decoded + 1 (block-local forwarding shows the decoded value)
			return Glob("(call:"+pkgInmem+".decodeBookmark(*)#0+const:1)", p.Desc(st.Val)) || p.LinOf(st.Val, al).String() == "+1*P+1"
		}

		c.mustCutEachLin("R12.2", "skip-bookmarked-event (accept path)", f, skip, 1, map[string]string{
			"window lower bound": "le:-1*C+1*G-1*P+1*W",
			"below writePos":     "le:+1*P-1*W+1",
			"non-negative":       lower,
		}, al)
		c.MustCut("R12.2", "accept path ⊣ {decode err == nil}", f, skip, CutSpec{Edges: FactEdge("nil(call:" + pkgInmem + ".decodeBookmark(*)#1)")}, 1)
		c.MustCut("R12.2", "decodeBookmark ⊣ {StartFromBookmark != nil}", f, p.CallTo(pkgInmem+".decodeBookmark"), CutSpec{Edges: FactEdge("nonnil(*var:pkg/state.Watch*Options.StartFromBookmark)")}, 1)

		dcalls := p.Calls(f, pkgInmem+".decodeBookmark")
		c.Check(len(dcalls) == 1 && Glob("*var:pkg/state.Watch*Options.StartFromBookmark", p.ArgDesc(dcalls[0], 0)), "R12.2", FuncName(f)+" :: decodes the requested bookmark", fpos(f), "yes", "decodeBookmark argument: "+descOfFirst(p, dcalls, 0))
		c.errPropagates("R12.2", f, 1, pkgInmem+".decodeBookmark")

		isGo := func(in ssa.Instruction) bool { _, ok := in.(*ssa.Go); return ok }
		rejects := p.LinEdgeSuccs(f, al, "le:+1*C-1*G+1*P-1*W+1", "le:-1*P+1*W", lowerReject)
		c.NoReach("R12.2", "a rejected bookmark never starts a goroutine", f, rejects, 3, isGo, CutSpec{})

		if len(rejects) >= 3 {
			bad, w := p.Reach(rejects, func(in ssa.Instruction) bool {
				r, ok := in.(*ssa.Return)

				return ok && IsReturn(in) && p.Desc(r.Results[0]) != "*"+errBM
			}, CutSpec{})
			c.Check(!bad, "R12.2", FuncName(f)+" :: every reject edge returns ErrInvalidWatchBookmark", fpos(f), "yes", "a reject edge returns something else: "+strings.Join(w, " "))
		}

		// goroutines start only after the range guard when a bookmark was given
		c.MustCut("R12.2", "go ⊣ {no bookmark, accepted bookmark, tail mode (exclusive with bookmark by R12.4)}", f, isGo,
			CutSpec{Nodes: skip, Edges: OrEdge(FactEdge("nil(*var:pkg/state.Watch*Options.StartFromBookmark)"), p.LinEdge(al, "le:-1*T+1"))}, 2)

		// ---------- R12.4 tail bounds & option exclusivity
		c.Rule("R12.4", "E6", "tail: kind n ≤ capacity − gap, pos = max(writePos − n, 0); single walks back while pos > max(writePos−capacity+gap, 0); tail∧bookmark and bootstrap∧(tail∨bookmark) rejected", 8)

		c.MustCut("R12.4", "go ⊣ {not (tail ∧ bookmark)}", f, isGo, CutSpec{Edges: OrEdge(p.LinEdge(al, "le:+1*T"), FactEdge("nil(*var:pkg/state.Watch*Options.StartFromBookmark)"))}, 2)

		if name == "WatchAll" {
			c.MustCut("R12.4", "go ⊣ {not (bootstrap ∧ tail)}", f, isGo, CutSpec{Edges: OrEdge(p.LinEdge(al, "le:+1*T"), FactEdge("false(*var:pkg/state.Watch*Options.BootstrapContents)"))}, 2)
			c.MustCut("R12.4", "go ⊣ {not (bootstrap ∧ bookmark)}", f, isGo, CutSpec{Edges: FactEdge("nil(*var:pkg/state.Watch*Options.StartFromBookmark)", "false(*var:pkg/state.Watch*Options.BootstrapContents)")}, 2)

			// accepted forms:
			//   A  if T > C−G { T = C−G }; pos −= T; if pos < 0 { pos = 0 }
			//   B  T = min(T, C−G); pos = max(pos − T, 0)
			tailStore := StoreToField("WatchKindOptions", "TailEvents")
			posStore := func(in ssa.Instruction) bool {
				st, ok := in.(*ssa.Store)

				return ok && isWatcherPosAddr(st.Addr)
			}
			linIs := func(sel InstrPred, want ...string) InstrPred {
				return func(in ssa.Instruction) bool {
					if !sel(in) {
						return false
					}

					got := p.LinOf(in.(*ssa.Store).Val, al).String()
					for _, w := range want {
						if got == w {
							return true
						}
					}

					return false
				}
			}
			clampB := linIs(tailStore, "+1*min(+1*C-1*G,+1*T)")
			backB := linIs(posStore, "+1*max(+0,+1*P-1*T)", "+1*max(+0,+1*P-1*min(+1*C-1*G,+1*T))")

			if len(Find(f, clampB)) > 0 || len(Find(f, backB)) > 0 {
				c.Check(len(Find(f, clampB)) == 1 && len(Find(f, linIs(tailStore, "+1*C-1*G"))) == 0, "R12.4", FuncName(f)+" :: TailEvents := capacity − gap ⊣ {TailEvents > capacity − gap}", fpos(f), "TailEvents = min(TailEvents, capacity − gap)", "mixed clamp forms")
				c.MustCut("R12.4", "pos −= TailEvents ⊣ {TailEvents ≤ capacity − gap, clamped}", f, backB, CutSpec{Nodes: clampB}, 1)
				c.MustCut("R12.4", "pos −= TailEvents ⊣ {TailEvents > 0}", f, backB, CutSpec{Edges: p.LinEdge(al, "le:-1*T+1")}, 1)
				c.Check(len(Find(f, linIs(posStore, "+1*P-1*T"))) == 0, "R12.4", FuncName(f)+" :: pos = 0 ⊣ {pos − n < 0}", fpos(f), "pos = max(pos − n, 0)", "an unfloored pos − n store exists next to the max form")
				c.OK("R12.4", FuncName(f)+" :: after pos −= n the floor test precedes the goroutines", fpos(f), "floored by max(pos − n, 0)")
			} else {
				// clamp: store TailEvents := C - G behind T > C - G
				clamp := linIs(tailStore, "+1*C-1*G")
				c.MustCut("R12.4", "TailEvents := capacity − gap ⊣ {TailEvents > capacity − gap}", f, clamp, CutSpec{Edges: p.LinEdge(al, "le:+1*C-1*G-1*T+1")}, 1)

				back := linIs(posStore, "+1*P-1*T")
				// the subtraction uses the (possibly clamped) value: from the clamp test's fail edge or the clamp store
				c.MustCut("R12.4", "pos −= TailEvents ⊣ {TailEvents ≤ capacity − gap, clamped}", f, back, CutSpec{Nodes: clamp, Edges: p.LinEdge(al, "le:-1*C+1*G+1*T")}, 1)
				c.MustCut("R12.4", "pos −= TailEvents ⊣ {TailEvents > 0}", f, back, CutSpec{Edges: p.LinEdge(al, "le:-1*T+1")}, 1)

				zero := linIs(posStore, "+0")
				// (the test right after `pos -= n` sees the just-stored value pos − n through store→load forwarding)
				c.MustCut("R12.4", "pos = 0 ⊣ {pos − n < 0}", f, zero, CutSpec{Edges: p.LinEdge(al, "le:+1*P-1*T+1")}, 1)
				// after the subtraction the floor test is passed before any goroutine starts
				c.MustFollow("R12.4", "after pos −= n the floor test precedes the goroutines", f, back, isGo, CutSpec{Edges: p.LinEdge(al, "le:+1*P-1*T+1", "le:-1*P+1*T")}, 1)
			}
		} else {
			facts := strings.Join(p.LinFactsOf(f, al), " ")
			c.Check(strings.Contains(facts, "le:-1*P+1*max(+0,-1*C+1*G+1*W)+1"), "R12.4", FuncName(f)+" :: walk back only while pos > max(writePos − capacity + gap, 0)", fpos(f), "loop guard present", "loop guard normal form not found among: "+short(facts, 300))

			dec1 := func(in ssa.Instruction) bool {
				st, ok := in.(*ssa.Store)

				return ok && isWatcherPosAddr(st.Addr) && p.LinOf(st.Val, al).String() == "+1*P-1"
			}
			c.MustCut("R12.4", "pos-- ⊣ {pos > minPos}", f, dec1, CutSpec{Edges: p.LinEdge(al, "le:-1*P+1*max(+0,-1*C+1*G+1*W)+1")}, 1)
			c.MustCut("R12.4", "pos-- ⊣ {TailEvents > 0}", f, dec1, CutSpec{Edges: p.LinEdge(al, "le:-1*T+1")}, 1)

			// counted only for matching IDs, reading the slot just before pos
			okIdx := false

			for _, in := range Find(f, isStreamRead) {
				if ia, ok := in.(*ssa.IndexAddr); ok && p.LinOf(ia.Index, al).String() == "+1*(+1*P-1%+1*C)" {
					okIdx = true
				}
			}

			c.Check(okIdx, "R12.4", FuncName(f)+" :: tail walk reads slot (pos−1) % capacity", fpos(f), "yes", "tail walk reads another slot")
		}

		// ---------- R12.5 no snapshot on resume
		c.Rule("R12.5", "E1", "snapshot contents are sent only when neither tail nor bookmark was requested", 3)

		if c.NeedFunc("R12.5", del, name+" delivery goroutine") {
			if name == "Watch" {
				sendInit := func(in ssa.Instruction) bool {
					call, ok := in.(ssa.CallInstruction)

					return ok && p.CalleeName(call) == gSend && Glob("*free:var:pkg/state.Event", p.ArgDesc(call, 2))
				}
				c.MustCut("R12.5", "send(initial event) ⊣ {TailEvents ≤ 0}", del, sendInit, CutSpec{Edges: p.LinEdge(al, "le:+1*T")}, 1)
				c.MustCut("R12.5", "send(initial event) ⊣ {no bookmark}", del, sendInit, CutSpec{Edges: FactEdge("nil(*var:pkg/state.Watch*Options.StartFromBookmark)")}, 1)
			} else {
				// bootstrap list is only populated under BootstrapContents, which excludes tail/bookmark (R12.4)
				c.MustCut("R12.5", "bootstrapList filled ⊣ {BootstrapContents}", f, func(in ssa.Instruction) bool {
					st, ok := in.(*ssa.Store)

					return ok && Glob("var:[]pkg/resource.Resource", p.Desc(st.Addr)) && !isNilConst(Fwd(st.Val))
				}, CutSpec{Edges: FactEdge("true(*var:pkg/state.Watch*Options.BootstrapContents)")}, 1)
				c.MustCut("R12.5", "bootstrapList filled ⊣ {no tail}", f, func(in ssa.Instruction) bool {
					st, ok := in.(*ssa.Store)

					return ok && Glob("var:[]pkg/resource.Resource", p.Desc(st.Addr)) && !isNilConst(Fwd(st.Val))
				}, CutSpec{Edges: p.LinEdge(al, "le:+1*T")}, 1)
				c.MustCut("R12.5", "Bootstrapped event ⊣ {BootstrapContents}", del, func(in ssa.Instruction) bool {
					return StoreToField("Event", "Type")(in) && p.Desc(in.(*ssa.Store).Val) == p.ConstVal(pkgState, "Bootstrapped")
				}, CutSpec{Edges: FactEdge("true(*var:pkg/state.Watch*Options.BootstrapContents)")}, 1)
			}
		}
	}

	// ---------- R12.3 every event carries a bookmark
	c.Rule("R12.3", "E3", "publish assigns encodeBookmark(writePos) before the slot store; Bootstrapped/Noop events carry encodeBookmark(pos − 1)", 4)

	pub := p.Method(pkgInmem, "ResourceCollection", "publish")
	if c.NeedFunc("R12.3", pub, gPublish) {
		bm := func(in ssa.Instruction) bool {
			return StoreToField("Event", "Bookmark")(in) && p.Desc(in.(*ssa.Store).Val) == "call:"+pkgInmem+".encodeBookmark(*param#0.writePos)"
		}
		slotStore := func(in ssa.Instruction) bool {
			st, ok := in.(*ssa.Store)
			if !ok {
				return false
			}

			ia, ok := st.Addr.(*ssa.IndexAddr)

			return ok && LoadsField(ia.X, "ResourceCollection", "stream")
		}

		c.MustCut("R12.3", "slot store ⊣ {event.Bookmark = encodeBookmark(writePos)}", pub, slotStore, CutSpec{Nodes: bm}, 1)
		c.NoReach("R12.3", "writePos is not advanced between bookmark and slot store", pub, After(pub, bm), 1, StoreToField("ResourceCollection", "writePos"), CutSpec{Nodes: slotStore})
		c.MustCut("R12.3", "bookmark computed ⊣ before writePos is advanced", pub, StoreToField("ResourceCollection", "writePos"), CutSpec{Nodes: bm}, 1)
	}

	if f := p.Method(pkgInmem, "ResourceCollection", "WatchAll"); f != nil {
		_, del := deliveryClosures(p, f)
		if c.NeedFunc("R12.3", del, "WatchAll delivery goroutine") {
			n, ok := 0, true
			why := ""

			// the bookmark is encodeBookmark(pos − 1), computed either where the event is built in the delivery
			// goroutine, or once in WatchAll itself after pos has its final value (no store to pos follows)
			posStore := func(in ssa.Instruction) bool {
				st, isSt := in.(*ssa.Store)

				return isSt && isWatcherPosAddr(st.Addr)
			}

			check := func(g *ssa.Function, v ssa.Value) {
				n++

				call, _ := CallOf(v)
				if call == nil {
					if ld, isLoad := Fwd(v).(*ssa.UnOp); isLoad {
						if sv := p.loadedSingleValue(ld); sv != nil {
							call, _ = CallOf(sv)
						}
					}
				}

				if call == nil || p.CalleeName(call) != pkgInmem+".encodeBookmark" || p.LinOf(CallArgs(call)[0], al).String() != "+1*P-1" {
					ok = false

					if call != nil {
						why += FuncName(g) + ": " + p.LinOf(CallArgs(call)[0], al).String() + "; "
					} else {
						why += FuncName(g) + ": " + p.Desc(v) + "; "
					}

					return
				}

				// computed outside the delivery goroutine: pos must already be final
				if cf := call.Parent(); cf == f {
					this := func(in ssa.Instruction) bool { return in == call.(ssa.Instruction) }
					if found, _ := p.Reach(After(f, this), posStore, CutSpec{}); found {
						ok = false
						why += "the initial bookmark is computed in " + FuncName(f) + " before pos is adjusted for tail / start bookmark; "
					}
				}
			}

			for _, g := range append([]*ssa.Function{f, del}, AllClosures(del)...) {
				for _, in := range Find(g, StoreToField("Event", "Bookmark")) {
					check(g, in.(*ssa.Store).Val)
				}
			}

			c.Check(ok && n >= 1, "R12.3", FuncName(del)+" :: Bootstrapped/Noop events carry encodeBookmark(pos − 1)", fpos(del), fmt.Sprintf("%d bookmark stores", n), fmt.Sprintf("%d bookmark stores, shape ok=%v %s", n, ok, why))
		}
	}

	// ---------- R12.6 (shared with C13 R13.1)
	c.Rule("R12.6", "E3", "a watch resumed from a bookmark by the gRPC client is the same watch: every field of the initial request (ID and label queries, aggregation, API version) is carried over, only bootstrap/tail/bookmark differ — interrupted + resumed equals uninterrupted", 4)
	resumeRequestRule(c, "R12.6")

	// ---------- R12.8 a rewritten event keeps its bookmark
	c.Rule("R12.8", "E3", "inmem watch filters: an event handed over by reference (*state.Event) is never overwritten as a whole by a value that does not carry a bookmark — a selector watch that turns an Updated event into Created/Destroyed still delivers the ring position, otherwise the client resumes from nil (a plain live watch) and the stream has a gap", 1)

	{
		nFilters, bad := 0, ""

		var badPos token.Pos

		for _, f := range p.PkgFuncs(pkgInmem) {
			takesEvent := false

			for _, v := range append(append([]ssa.Value{}, paramsOf(f)...), freeVarsOf(f)...) {
				if pt, ok := v.Type().Underlying().(*types.Pointer); ok && isStateEvent(pt.Elem()) {
					takesEvent = true
				}
			}

			if !takesEvent {
				continue
			}

			nFilters++

			for _, in := range Find(f, func(in ssa.Instruction) bool {
				st, ok := in.(*ssa.Store)
				if !ok || !isStateEvent(st.Val.Type()) {
					return false
				}

				// only the event handed over by reference: the address is a parameter or a captured variable
				switch st.Addr.(type) {
				case *ssa.Parameter, *ssa.FreeVar:
					return true
				}

				return false
			}) {
				st := in.(*ssa.Store)

				// the stored value: a load of a composite-literal temporary must have had its Bookmark field written;
				// a copy of another event (load through a non-local address) carries that event's bookmark
				if ld, ok := st.Val.(*ssa.UnOp); ok {
					if al, ok := ld.X.(*ssa.Alloc); ok {
						has := false

						for _, r := range *al.Referrers() {
							if fa, ok := r.(*ssa.FieldAddr); ok {
								if _, fn := FieldOf(fa.X, fa.Field); fn == "Bookmark" {
									has = true
								}
							}
						}

						if !has {
							bad, badPos = FuncName(f)+": the event is replaced by a literal without Bookmark", st.Pos()
						}
					}
				} else {
					bad, badPos = FuncName(f)+": the event is replaced by a computed value ("+p.Desc(st.Val)+")", st.Pos()
				}
			}
		}

		if nFilters == 0 {
			c.Unknown("R12.8", pkgInmem+" :: by-reference events keep their bookmark", token.NoPos, "anchor-unresolved: no function taking *state.Event found")
		} else {
			c.Check(bad == "", "R12.8", pkgInmem+" :: by-reference events keep their bookmark", badPos, fmt.Sprintf("%d functions taking *state.Event examined", nFilters), bad)
		}
	}

	// ---------- R12.7 the tail walk ends by its own guard only
	c.Rule("R12.7", "E1", "single-resource tail: the backwards walk over the ring is left only through its own condition (retention floor reached, or the requested number of events found) — no early exit from the body, so exactly the last N retained events of the resource are replayed", 1)

	if f := p.Method(pkgInmem, "ResourceCollection", "Watch"); c.NeedFunc("R12.7", f, collT+".Watch") {
		slotRead := func(in ssa.Instruction) bool {
			ia, ok := in.(*ssa.IndexAddr)

			return ok && LoadsField(ia.X, "ResourceCollection", "stream")
		}

		n := 0

		for _, in := range Find(f, slotRead) {
			loops := loopsContaining(f, in.Block())
			if len(loops) == 0 {
				continue
			}

			n++

			bad := ""

			for _, body := range loops {
				for b := range body {
					for _, s := range b.Succs {
						if !body[s] && !dominates(b, in.Block()) {
							bad = fmt.Sprintf("block %d leaves the walk after the slot was examined (break / return from the body)", b.Index)
						}
					}
				}
			}

			c.Check(bad == "", "R12.7", FuncName(f)+" :: tail walk is left only through its guard", in.Pos(), "all exits are guard exits", bad)
		}

		if n == 0 {
			c.Unknown("R12.7", FuncName(f)+" :: tail walk is left only through its guard", fpos(f), "anchor-unresolved: no loop reading the ring in Watch")
		}
	}

}

// mustCutEachLin: like mustCutEach with canonical linear atoms.
func (c *Ctx) mustCutEachLin(rule, what string, f *ssa.Function, target InstrPred, minTargets int, atoms map[string]string, al []Alias) {
	names := make([]string, 0, len(atoms))
	for n := range atoms {
		names = append(names, n)
	}

	sortStrings(names)

	for _, n := range names {
		c.MustCut(rule, what+" needs "+n+" ("+atoms[n]+")", f, target, CutSpec{Edges: c.P.LinEdge(al, atoms[n])}, minTargets)
	}
}

// errPropagatesOrPanics: the error of call is tested and the non-nil edge ends in a panic or a return of it.
func (c *Ctx) errPropagatesOrPanics(rule string, f *ssa.Function, call ssa.CallInstruction) {
	p := c.P
	starts := p.EdgeSuccs(f, "nonnil(call:"+p.CalleeName(call)+"(*")

	if len(starts) == 0 {
		c.Bad(rule, FuncName(f)+" :: error of "+p.CalleeName(call)+" is checked", call.Pos(), "the error is never tested")

		return
	}

	bad, w := p.Reach(starts, ReturnsNilConst(f.Signature.Results().Len()-1), CutSpec{})
	if f.Signature.Results().Len() == 1 && !isErrorType(f.Signature.Results().At(0).Type()) {
		// value-returning initialiser: the failure edge must not return at all (panic)
		bad, w = p.Reach(starts, IsReturn, CutSpec{})
	}

	c.Check(!bad, rule, FuncName(f)+" :: error of "+p.CalleeName(call)+" is checked", call.Pos(), "failure edge panics / returns the error", "failure edge continues: "+strings.Join(w, " "))
}

// loopsContaining returns the natural loops (as block sets) of f that contain block b.
func loopsContaining(f *ssa.Function, b *ssa.BasicBlock) []map[*ssa.BasicBlock]bool {
	var out []map[*ssa.BasicBlock]bool

	for _, u := range f.Blocks {
		for _, h := range u.Succs {
			if !dominates(h, u) {
				continue
			}

			body := map[*ssa.BasicBlock]bool{h: true}
			stack := []*ssa.BasicBlock{u}

			for len(stack) > 0 {
				x := stack[len(stack)-1]
				stack = stack[:len(stack)-1]

				if body[x] {
					continue
				}

				body[x] = true
				stack = append(stack, x.Preds...)
			}

			if body[b] {
				out = append(out, body)
			}
		}
	}

	return out
}

func paramsOf(f *ssa.Function) []ssa.Value {
	var out []ssa.Value
	for _, x := range f.Params {
		out = append(out, x)
	}

	return out
}

func freeVarsOf(f *ssa.Function) []ssa.Value {
	var out []ssa.Value
	for _, x := range f.FreeVars {
		out = append(out, x)
	}

	return out
}

func isStateEvent(t types.Type) bool {
	n, ok := types.Unalias(t).(*types.Named)

	return ok && n.Obj().Name() == "Event" && n.Obj().Pkg() != nil && strings.HasSuffix(n.Obj().Pkg().Path(), "pkg/state")
}
