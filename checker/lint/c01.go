package lint

import (
	"fmt"
	"go/types"
	"strings"

	"golang.org/x/tools/go/ssa"
)

const (
	pkgInmem = "pkg/state/impl/inmem"
	pkgState = "pkg/state"

	collT     = "(*" + pkgInmem + ".ResourceCollection)"
	gPublish  = collT + ".publish"
	gInject   = collT + ".inject"
	gStorePut = "(" + pkgInmem + ".BackingStore).Put"
	gStoreDel = "(" + pkgInmem + ".BackingStore).Destroy"

	// stored resource = result #0 of the storage map lookup
	dStored     = "lookup(*param#0.storage,*)#0"
	dStoredMeta = "*call:(pkg/resource.Resource).Metadata(" + dStored + ")"
	dCopy       = "call:(pkg/resource.Resource).DeepCopy(param#2)"
	dCopyMeta   = "*call:(pkg/resource.Resource).Metadata(" + dCopy + ")"
	// the submitted resource, read either from the caller's object or from its deep copy (same ID and version until SetVersion)
	dNewMeta = "*call:(pkg/resource.Resource).Metadata(*param#2*)"
)

var collectionLock = LockSpec{Rel: pkgInmem, Struct: "ResourceCollection", Mutex: "mu", Guarded: []string{"storage", "stream", "writePos", "capacity"}}

// accepted lock-free entry point: the backing-store load handler (see R10.4 which proves every
// public entry point of inmem.State is gated behind loadStore while the handler runs).
var collectionLockExceptions = map[string]string{
	"(*" + pkgInmem + ".State).loadStore$1": "load handler injects into collections before `loaded` is set; all public entry points block on loadStore/storeMu until then (R10.4)",
}

func init() {
	register(&PropertyInfo{
		ID: "C01",
		Explanation: "Linearizability is argued from shape: every CRUD operation on a (namespace,type) collection reads and writes shared state inside ONE critical section of that collection's mutex (R01.1 lockset over every access site, R01.2 single Lock + deferred Unlock), " +
			"so each operation has a linearization point; the sequential behaviour the statement spells out is pinned by path rules: " +
			"precondition guards and their precedence before any effect (R01.3), no effect on any path that returns an error (R01.4), " +
			"the effects themselves by value provenance (R01.5: version = one Next() of the checked version / \"1\", creation time kept, the deep copy is what is stored, published and persisted, write-back of metadata), " +
			"classifiable errors (R01.6: every marker type implements its whole predicate interface, every conflict literal carries its resource), " +
			"and wrappers are pure delegations (R01.7).",
		NotCovered: "functional correctness beyond the listed clauses (e.g. that List returns all entries), real-time order across processes for the remote case, " +
			"histories mixing several collections beyond the locality argument; sequential correctness of resource.Version/Metadata methods themselves.",
		Assumptions: []string{
			"sync.Mutex provides mutual exclusion; a deferred Unlock runs at function exit",
			"collections of different (namespace,type) share no mutable state (locality of linearizability)",
		},
		Run: runC01,
	})
}

func effectsOf(p *Program) InstrPred {
	return OrInstr(
		MapWriteOnField("ResourceCollection", "storage"),
		p.CallTo(gPublish, gInject, gStorePut, gStoreDel),
		writeBackToParam(p),
	)
}

// writeBackToParam selects `*param.Metadata() = ...` stores (metadata written back into the caller's object).
func writeBackToParam(p *Program) InstrPred {
	return func(in ssa.Instruction) bool {
		st, ok := in.(*ssa.Store)
		if !ok {
			return false
		}

		return Glob("call:(pkg/resource.Resource).Metadata(param#*)", p.Desc(st.Addr))
	}
}

func runC01(c *Ctx) {
	p := c.P

	// ---------- R01.1 lockset
	c.Rule("R01.1", "E2", "every access to storage/stream/writePos/capacity of a collection holds that collection's mutex (helpers summarised requires-held; constructor exempt)", 8)

	li := p.Lockset(collectionLock, pkgInmem)
	c.LocksetReport("R01.1", li, collectionLockExceptions)

	// ---------- R01.2 single critical section
	c.Rule("R01.2", "E2", "Create/Update/Destroy/Get: exactly one Lock, released only by a deferred Unlock => one critical section from first access to return", 4)

	for _, name := range []string{"Create", "Update", "Destroy", "Get"} {
		f := p.Method(pkgInmem, "ResourceCollection", name)
		if !c.NeedFunc("R01.2", f, collT+"."+name) {
			continue
		}

		locks, unlocks, deferred := 0, 0, 0

		for _, in := range Find(f, func(in ssa.Instruction) bool { _, ok := in.(ssa.CallInstruction); return ok }) {
			call := in.(ssa.CallInstruction)
			cn := p.CalleeName(call)

			if len(call.Common().Args) == 0 || !Glob("param#0.mu", p.Desc(call.Common().Args[0])) {
				continue
			}

			switch {
			case cn == "(*sync.Mutex).Lock":
				locks++
			case cn == "(*sync.Mutex).Unlock":
				if _, isDefer := in.(*ssa.Defer); isDefer {
					deferred++
				} else {
					unlocks++
				}
			}
		}

		c.Check(locks == 1 && unlocks == 0 && deferred == 1, "R01.2", FuncName(f)+" :: single critical section", fpos(f),
			"1 Lock, 1 deferred Unlock, no early Unlock", fmt.Sprintf("locks=%d early-unlocks=%d deferred-unlocks=%d", locks, unlocks, deferred))
	}

	// ---------- R01.3 guard chain
	c.Rule("R01.3", "E1", "precondition guards precede every effect (backing store, storage write, publish, write-back) and are tested in the stated precedence", 16)

	effects := effectsOf(p)

	exists := FactEdge("true(" + dStored[:len(dStored)-2] + "#1)")
	absent := FactEdge("false(" + dStored[:len(dStored)-2] + "#1)")
	finEmpty := FactEdge("true(call:(*pkg/resource.Finalizers).Empty(call:(*pkg/resource.Metadata).Finalizers(call:(pkg/resource.Resource).Metadata("+dStored+"))))",
		"true(call:(pkg/resource.Finalizers).Empty(*call:(*pkg/resource.Metadata).Finalizers(call:(pkg/resource.Resource).Metadata("+dStored+"))))")

	fCreate := p.Method(pkgInmem, "ResourceCollection", "Create")
	c.mustCutEach("R01.3", "Create effects", fCreate, effects, 3, map[string]EdgePred{
		"id absent":                  absent,
		"SetOwner(copy, owner)==nil": FactEdge("nil(call:(*pkg/resource.Metadata).SetOwner(call:(pkg/resource.Resource).Metadata(" + dCopy + "),param#3))"),
	})
	c.MustCut("R01.3", "ErrAlreadyExists ⊣ {id present}", fCreate, p.CallTo(pkgInmem+".ErrAlreadyExists"), CutSpec{Edges: exists}, 1)

	fUpdate := p.Method(pkgInmem, "ResourceCollection", "Update")
	ownerEqU := FactEdge("eq(call:(pkg/resource.Metadata).Owner(" + dStoredMeta + "),*param#3.Owner)")
	verEq := FactEdge(
		"true(call:(pkg/resource.Version).Equal(call:(pkg/resource.Metadata).Version("+dStoredMeta+"),call:(pkg/resource.Metadata).Version("+dNewMeta+")))",
		"true(call:(pkg/resource.Version).Equal(call:(pkg/resource.Metadata).Version("+dNewMeta+"),call:(pkg/resource.Metadata).Version("+dStoredMeta+")))",
	)
	phaseOK := FactEdge("nil(*param#3.ExpectedPhase)", "eq(call:(pkg/resource.Metadata).Phase("+dStoredMeta+"),**param#3.ExpectedPhase)")

	c.mustCutEach("R01.3", "Update effects", fUpdate, effects, 3, map[string]EdgePred{
		"exists":               exists,
		"owner matches":        ownerEqU,
		"version equal":        verEq,
		"expected phase holds": phaseOK,
	})
	c.MustCut("R01.3", "ErrNotFound ⊣ {absent}", fUpdate, p.CallTo(pkgInmem+".ErrNotFound"), CutSpec{Edges: absent}, 1)
	c.MustCut("R01.3", "ErrOwnerConflict ⊣ {exists}", fUpdate, p.CallTo(pkgInmem+".ErrOwnerConflict"), CutSpec{Edges: exists}, 1)
	c.MustCut("R01.3", "ErrVersionConflict ⊣ {owner matches} (owner is tested before version)", fUpdate, p.CallTo(pkgInmem+".ErrVersionConflict"), CutSpec{Edges: ownerEqU}, 1)
	c.MustCut("R01.3", "ErrPhaseConflict ⊣ {version equal} (version is tested before phase)", fUpdate, p.CallTo(pkgInmem+".ErrPhaseConflict"), CutSpec{Edges: verEq}, 1)

	fDestroy := p.Method(pkgInmem, "ResourceCollection", "Destroy")
	ownerEqD := FactEdge("eq(call:(pkg/resource.Metadata).Owner(" + dStoredMeta + "),param#3)")

	c.mustCutEach("R01.3", "Destroy effects", fDestroy, effects, 3, map[string]EdgePred{
		"exists":           exists,
		"owner matches":    ownerEqD,
		"finalizers empty": finEmpty,
	})
	c.MustCut("R01.3", "ErrNotFound ⊣ {absent}", fDestroy, p.CallTo(pkgInmem+".ErrNotFound"), CutSpec{Edges: absent}, 1)
	c.MustCut("R01.3", "ErrPendingFinalizers ⊣ {owner matches} (owner is tested before finalizers)", fDestroy, p.CallTo(pkgInmem+".ErrPendingFinalizers"), CutSpec{Edges: ownerEqD}, 1)

	fGet := p.Method(pkgInmem, "ResourceCollection", "Get")
	c.MustCut("R01.3", "Get returns a value ⊣ {exists}", fGet, ReturnsNilConst(1), CutSpec{Edges: exists}, 1)
	c.MustCut("R01.3", "Get ErrNotFound ⊣ {absent}", fGet, p.CallTo(pkgInmem+".ErrNotFound"), CutSpec{Edges: absent}, 1)

	// ---------- R01.4 failed => untouched
	c.Rule("R01.4", "E1", "no path from an effect to an error return (a failed call leaves the state untouched)", 3)

	for _, f := range []*ssa.Function{fCreate, fUpdate, fDestroy} {
		if f == nil {
			continue
		}

		// enabling event = the storage write itself happening AFTER the last fallible step is fine;
		// what must not exist is an error return reachable after a storage write / publish / inject.
		memEffects := OrInstr(MapWriteOnField("ResourceCollection", "storage"), p.CallTo(gPublish, gInject))
		errReturn := func(in ssa.Instruction) bool {
			if !ReturnsNonNil(0)(in) {
				return false
			}

			r := in.(*ssa.Return)
			// exception (Create): re-applying SetOwner on the caller's object after inject; the identical call on the deep copy already succeeded
			if Glob("call:(*pkg/resource.Metadata).SetOwner(call:(pkg/resource.Resource).Metadata(param#2),param#3)", p.Desc(r.Results[0])) {
				return false
			}

			return true
		}

		c.MustFollow("R01.4", "after storage write/publish no error return", f, memEffects, errReturn, CutSpec{}, 1)
	}

	// ---------- R01.5 effects
	c.Rule("R01.5", "E3", "effects: version/created/owner values, the deep copy is what is persisted, stored and published, metadata written back", 20)
	c01Effects(c, "R01.5", fCreate, fUpdate, fDestroy)

	// ---------- R01.6 error tables
	c.Rule("R01.6", "E4", "every type carrying an error-class marker implements the whole predicate interface; conflict literals carry their resource; owner/phase conflicts are conflicts", 10)
	errorTables(c, "R01.6")

	// ---------- R01.7 wrappers
	c.Rule("R01.7", "E5", "every CoreState wrapper method forwards ctx, target and options unchanged to the same-named method of the wrapped state; the delegate is selected by the target's own namespace/type", 40)
	wrapperDelegation(c, "R01.7")
	dispatchKeys(c, "R01.7")

	// ---------- R01.9 registries
	c.Rule("R01.9", "E1", "get-or-create registries (namespace -> state, type -> collection) hand out one instance per key: a freshly built instance is returned only through an atomic insert-if-absent", 2)
	registryAtomic(c, "R01.9", p.Method("pkg/state/impl/namespaced", "State", "getNamespace"), "dyn:*param#0.builder")
	registryAtomic(c, "R01.9", p.Method(pkgInmem, "State", "getCollection"), pkgInmem+".NewResourceCollection")

	// ---------- R01.10 persistent-backed: reads see committed state only after a successful load
	c.Rule("R01.10", "E1", "persistent-backed state: every operation is gated by loadStore()==nil; `loaded` is set only after Load()==nil (a failed load is retried, never papered over)", 11)
	loadGate(c, "R01.10")

	// ---------- R01.11 a rejected write leaves no trace in the stored resource's metadata
	c.Import(runC19, "R19.3", "pkg/resource.Finalizers)", "R01.11", "E3", "Finalizers.Add/Remove write only to storage created in the same call: a conflicting or rejected AddFinalizer/RemoveFinalizer/Update attempt (built on a copy of the stored resource) cannot alter what the store still holds", 2)

	// ---------- error discipline (E8)
	errDisciplineFor(c, "C01")

	// ---------- R01.13 failure atomicity
	c.Rule("R01.13", "E8", "inmem / namespaced state: no operation writes collection or state fields and can still fail afterwards — a rejected or failed call is not observable later", 3)
	c.FailureAtomicity("R01.13", []string{pkgInmem, "pkg/state/impl/namespaced"}, nil, pkgRRuntime, 4)

}

func c01Effects(c *Ctx, rule string, fCreate, fUpdate, fDestroy *ssa.Function) {
	p := c.P
	one := func(f *ssa.Function, what string, calls []ssa.CallInstruction) ssa.CallInstruction {
		if len(calls) != 1 {
			c.Bad(rule, FuncName(f)+" :: "+what, fpos(f), fmt.Sprintf("expected exactly one such call, found %d", len(calls)))

			return nil
		}

		return calls[0]
	}
	argIs := func(f *ssa.Function, what string, call ssa.CallInstruction, idx int, globs ...string) {
		if call == nil {
			return
		}

		d := p.DescN(CallArgs(call)[idx], 7)
		c.Check(GlobAny(globs, d), rule, FuncName(f)+" :: "+what, call.Pos(), short(d, 160), "value is "+d)
	}

	if c.NeedFunc(rule, fUpdate, collT+".Update") {
		f := fUpdate
		sv := one(f, "SetVersion", p.Calls(f, "(*pkg/resource.Metadata).SetVersion"))
		argIs(f, "SetVersion target is the deep copy", sv, 0, "call:(pkg/resource.Resource).Metadata("+dCopy+")")
		argIs(f, "new version = exactly one Next() of the version that passed the Equal guard", sv, 1,
			"call:(pkg/resource.Version).Next(call:(pkg/resource.Metadata).Version("+dNewMeta+"))",
			"call:(pkg/resource.Version).Next(call:(pkg/resource.Metadata).Version("+dStoredMeta+"))")

		sc := one(f, "SetCreated", p.Calls(f, "(*pkg/resource.Metadata).SetCreated"))
		argIs(f, "SetCreated target is the deep copy", sc, 0, "call:(pkg/resource.Resource).Metadata("+dCopy+")")
		argIs(f, "creation time kept from the stored resource", sc, 1, "call:(pkg/resource.Metadata).Created("+dStoredMeta+")")

		eff := effectsOf(p)
		c.MustCut(rule, "effects ⊣ {SetVersion}", f, eff, CutSpec{Nodes: p.CallTo("(*pkg/resource.Metadata).SetVersion")}, 3)
		c.MustCut(rule, "effects ⊣ {SetCreated}", f, eff, CutSpec{Nodes: p.CallTo("(*pkg/resource.Metadata).SetCreated")}, 3)

		put := one(f, "BackingStore.Put", p.Calls(f, gStorePut))
		argIs(f, "persisted object is the deep copy", put, 3, dCopy)

		c01MapWrite(c, rule, f, dCopy, "call:(pkg/resource.Metadata).ID("+dNewMeta+")")
		c01Publish(c, rule, f, p.ConstVal(pkgState, "Updated"), dCopy, dStored)
		c01WriteBack(c, rule, f)
	}

	if c.NeedFunc(rule, fCreate, collT+".Create") {
		f := fCreate
		sv := one(f, "SetVersion", p.Calls(f, "(*pkg/resource.Metadata).SetVersion"))
		argIs(f, "SetVersion target is the deep copy", sv, 0, "call:(pkg/resource.Resource).Metadata("+dCopy+")")
		argIs(f, "initial version is ParseVersion(\"1\")", sv, 1, "call:pkg/resource.ParseVersion(const:\"1\")#0")

		put := one(f, "BackingStore.Put", p.Calls(f, gStorePut))
		argIs(f, "persisted object is the deep copy", put, 3, dCopy)

		inj := one(f, "inject", p.Calls(f, gInject))
		argIs(f, "injected object is the deep copy", inj, 1, dCopy)

		c.MustCut(rule, "effects ⊣ {SetVersion}", f, effectsOf(p), CutSpec{Nodes: p.CallTo("(*pkg/resource.Metadata).SetVersion")}, 3)
		c01WriteBack(c, rule, f)

		fi := p.Method(pkgInmem, "ResourceCollection", "inject")
		if c.NeedFunc(rule, fi, collT+".inject") {
			c01MapWrite(c, rule, fi, "param#1", "call:(pkg/resource.Metadata).ID(*call:(pkg/resource.Resource).Metadata(param#1))")
			c01Publish(c, rule, fi, p.ConstVal(pkgState, "Created"), "param#1", "")
		}
	}

	if c.NeedFunc(rule, fDestroy, collT+".Destroy") {
		f := fDestroy
		dels := Find(f, MapWriteOnField("ResourceCollection", "storage"))
		ok := len(dels) == 1

		if ok {
			call, isCall := dels[0].(*ssa.Call)
			ok = isCall && Glob("call:(pkg/resource.*).ID(param#2)", p.Desc(call.Call.Args[1]))
		}

		c.Check(ok, rule, FuncName(f)+" :: delete(storage, ptr.ID())", fpos(f), "one delete keyed by the target's ID", "storage removal is not a single delete keyed by the target's ID")

		lookups := Find(f, func(in ssa.Instruction) bool {
			l, ok := in.(*ssa.Lookup)
			return ok && LoadsField(l.X, "ResourceCollection", "storage")
		})
		ok = len(lookups) == 1 && Glob("call:(pkg/resource.*).ID(param#2)", p.Desc(lookups[0].(*ssa.Lookup).Index))
		c.Check(ok, rule, FuncName(f)+" :: lookup keyed by the target's ID", fpos(f), "yes", "the existence lookup does not use the target's ID")

		c01Publish(c, rule, f, p.ConstVal(pkgState, "Destroyed"), dStored, "")

		del := one(f, "BackingStore.Destroy", p.Calls(f, gStoreDel))
		argIs(f, "backing store destroys the same target", del, 3, "param#2")
	}
}

// c01MapWrite: the single storage[k] = v in f has the expected value and key.
func c01MapWrite(c *Ctx, rule string, f *ssa.Function, wantVal, wantKey string) {
	p := c.P

	var ups []*ssa.MapUpdate

	for _, in := range Find(f, MapWriteOnField("ResourceCollection", "storage")) {
		if mu, ok := in.(*ssa.MapUpdate); ok {
			ups = append(ups, mu)
		}
	}

	if len(ups) != 1 {
		c.Bad(rule, FuncName(f)+" :: storage[id] = copy", fpos(f), fmt.Sprintf("expected exactly one storage update, found %d", len(ups)))

		return
	}

	v, k := p.DescN(ups[0].Value, 6), p.DescN(ups[0].Key, 6)
	c.Check(Glob(wantVal, v) && Glob(wantKey, k), rule, FuncName(f)+" :: storage[id] = copy", ups[0].Pos(), "value "+v+" key "+short(k, 80), "stored value "+v+" under key "+k)
}

// c01Publish: the event literal given to publish has the expected Type/Resource/Old.
func c01Publish(c *Ctx, rule string, f *ssa.Function, wantType, wantRes, wantOld string) {
	p := c.P

	calls := p.Calls(f, gPublish)
	if len(calls) != 1 {
		c.Bad(rule, FuncName(f)+" :: publish event", fpos(f), fmt.Sprintf("expected exactly one publish call, found %d", len(calls)))

		return
	}

	fields := StructLitFields(CallArgs(calls[0])[1])
	if fields == nil {
		c.Unknown(rule, FuncName(f)+" :: publish event", calls[0].Pos(), "event is not a struct literal built in this function")

		return
	}

	get := func(n string) string {
		if v, ok := fields[n]; ok {
			return p.DescN(v, 6)
		}

		return "<unset>"
	}

	ok := get("Type") == wantType && Glob(wantRes, get("Resource"))
	if wantOld == "" {
		ok = ok && get("Old") == "<unset>"
	} else {
		ok = ok && Glob(wantOld, get("Old"))
	}

	c.Check(ok, rule, FuncName(f)+" :: publish event contents", calls[0].Pos(),
		fmt.Sprintf("Type=%s Resource=%s Old=%s", get("Type"), get("Resource"), get("Old")),
		fmt.Sprintf("Type=%s (want %s) Resource=%s (want %s) Old=%s (want %q)", get("Type"), wantType, get("Resource"), wantRes, get("Old"), wantOld))
}

func c01WriteBack(c *Ctx, rule string, f *ssa.Function) {
	p := c.P
	wbs := Find(f, writeBackToParam(p))

	ok := len(wbs) == 1
	if ok {
		st := wbs[0].(*ssa.Store)
		ok = Glob("call:(pkg/resource.Resource).Metadata(param#2)", p.Desc(st.Addr)) && Glob(dCopyMeta, p.Desc(st.Val))
	}

	c.Check(ok, rule, FuncName(f)+" :: caller's metadata := stored copy's metadata", fpos(f), "one write-back from the deep copy", "write-back missing or not from the stored copy")

	if ok {
		c.MustCut(rule, "write-back ⊣ {storage write / inject}", f, writeBackToParam(p),
			CutSpec{Nodes: OrInstr(MapWriteOnField("ResourceCollection", "storage"), p.CallTo(gInject))}, 1)
	}
}

// StructLitFields returns field name -> stored value for a struct value that is the load of a
// local composite literal (`t = local T (complit); &t.F = v...; *t`).
func StructLitFields(v ssa.Value) map[string]ssa.Value {
	u, ok := v.(*ssa.UnOp)
	if !ok {
		return nil
	}

	al, ok := u.X.(*ssa.Alloc)
	if !ok {
		return nil
	}

	return allocFields(al)
}

func allocFields(al *ssa.Alloc) map[string]ssa.Value {
	out := map[string]ssa.Value{}

	for _, r := range *al.Referrers() {
		fa, ok := r.(*ssa.FieldAddr)
		if !ok {
			continue
		}

		_, name := FieldOf(fa.X, fa.Field)

		for _, rr := range *fa.Referrers() {
			if st, ok := rr.(*ssa.Store); ok && st.Addr == ssa.Value(fa) {
				out[name] = st.Val
			}

			// nested struct literal: &t.Inner.F
			if fa2, ok := rr.(*ssa.FieldAddr); ok {
				_, n2 := FieldOf(fa2.X, fa2.Field)

				for _, r3 := range *fa2.Referrers() {
					if st, ok := r3.(*ssa.Store); ok && st.Addr == ssa.Value(fa2) {
						out[name+"."+n2] = st.Val
					}
				}
			}
		}
	}

	return out
}

// ---------- R01.6 error tables ----------

func errorTables(c *Ctx, rule string) {
	p := c.P

	st := p.Pkg(pkgState)
	if st == nil {
		c.Unknown(rule, "anchor-unresolved: pkg/state", 0, "package not loaded")

		return
	}

	// predicate interfaces: named interface types Err* in pkg/state with at least one method
	type class struct {
		name  string
		iface *types.Interface
	}

	var classes []class

	for _, n := range st.Pkg.Scope().Names() {
		tn, ok := st.Pkg.Scope().Lookup(n).(*types.TypeName)
		if !ok || !strings.HasPrefix(n, "Err") {
			continue
		}

		if it, ok := tn.Type().Underlying().(*types.Interface); ok && it.NumMethods() > 0 {
			classes = append(classes, class{n, it})
		}
	}

	if len(classes) < 5 {
		c.Unknown(rule, "anchor-unresolved: state.Err* interfaces", 0, fmt.Sprintf("found %d predicate interfaces", len(classes)))
	}

	markerOf := map[string]class{} // marker method name -> class
	for _, cl := range classes {
		for i := range cl.iface.NumMethods() {
			if m := cl.iface.Method(i).Name(); strings.HasSuffix(m, "Error") {
				markerOf[m] = cl
			}
		}
	}

	conflict := markerOf["ConflictError"]

	for _, path := range p.OwnPackages() {
		sp := p.SSAPkg[path]

		for _, n := range sp.Pkg.Scope().Names() {
			tn, ok := sp.Pkg.Scope().Lookup(n).(*types.TypeName)
			if !ok || tn.IsAlias() {
				continue
			}

			named, ok := tn.Type().(*types.Named)
			if !ok {
				continue
			}

			if _, isIface := named.Underlying().(*types.Interface); isIface {
				continue
			}

			rel := strings.TrimPrefix(path, Mod) + "." + n

			for marker, cl := range markerOf {
				if !HasMethod(named, marker) {
					continue
				}

				c.Check(ImplementsIface(named, cl.iface), rule, rel+" :: implements "+cl.name, tn.Pos(),
					"marker "+marker+" + full interface", "has marker "+marker+" but does not implement state."+cl.name+" (missing methods): the predicate state.Is"+strings.TrimPrefix(cl.name, "Err")+"Error cannot classify it")

				if (marker == "OwnerConflictError" || marker == "PhaseConflictError") && conflict.iface != nil {
					c.Check(ImplementsIface(named, conflict.iface), rule, rel+" :: "+marker+" type is also an ErrConflict", tn.Pos(),
						"yes", "owner/phase conflict that is not a conflict: retry filters and IsConflictError disagree")
				}
			}
		}
	}

	// conflict literals initialise the field GetResource returns
	for _, path := range p.OwnPackages() {
		rel := strings.TrimPrefix(path, Mod)

		for _, f := range p.PkgFuncs(rel) {
			for _, in := range Find(f, func(in ssa.Instruction) bool { _, ok := in.(*ssa.Alloc); return ok }) {
				al := in.(*ssa.Alloc)

				elem := al.Type().(*types.Pointer).Elem()

				named, ok := elem.(*types.Named)
				if !ok || !HasMethod(named, "GetResource") || !HasMethod(named, "ConflictError") {
					continue
				}

				if _, isStruct := named.Underlying().(*types.Struct); !isStruct {
					continue
				}

				if named.Obj().Pkg() == nil || !strings.HasPrefix(named.Obj().Pkg().Path()+"/", Mod) {
					continue
				}

				if al.Comment != "complit" {
					continue // spilled receiver / local copy, not a literal
				}

				fld := resourceFieldOf(p, named)
				if fld == "" {
					c.Unknown(rule, FuncName(f)+" :: conflict literal of "+named.Obj().Name(), al.Pos(), "cannot tell which field GetResource returns")

					continue
				}

				fields := allocFields(al)
				c.Touch(f)

				if !structHasField(named, fld) {
					// the field lives in an embedded conflict struct: the embedded value must itself be a literal (checked on its own)
					okEmb := false

					for _, v := range fields {
						if u, isLoad := v.(*ssa.UnOp); isLoad {
							if inner, isAlloc := u.X.(*ssa.Alloc); isAlloc && inner.Comment == "complit" {
								if in, isNamed := inner.Type().(*types.Pointer).Elem().(*types.Named); isNamed && HasMethod(in, "GetResource") {
									okEmb = true
								}
							}
						}
					}

					c.Check(okEmb, rule, FuncName(f)+" :: "+named.Obj().Name()+" literal embeds an initialised conflict literal", al.Pos(),
						"embedded literal present", "outer conflict type built with a zero embedded conflict: no resource")

					continue
				}

				var val ssa.Value

				for k, v := range fields {
					if k == fld || strings.HasSuffix(k, "."+fld) {
						val = v
					}
				}

				c.Check(val != nil && !isNilConst(Fwd(val)), rule, FuncName(f)+" :: conflict literal initialises "+fld, al.Pos(),
					"resource set", "conflict error built without its resource: IsConflictError(err, WithResourceType/Namespace) dereferences nil")
			}
		}
	}
}

func structHasField(named *types.Named, fld string) bool {
	st, ok := named.Underlying().(*types.Struct)
	if !ok {
		return false
	}

	for i := range st.NumFields() {
		if st.Field(i).Name() == fld {
			return true
		}
	}

	return false
}

// resourceFieldOf finds the struct field (possibly of an embedded struct) that T.GetResource returns.
func resourceFieldOf(p *Program, named *types.Named) string {
	for _, t := range []types.Type{named, types.NewPointer(named)} {
		ms := types.NewMethodSet(t)

		sel := ms.Lookup(named.Obj().Pkg(), "GetResource")
		if sel == nil {
			continue
		}

		fn := p.SSA.FuncValue(sel.Obj().(*types.Func))
		if fn == nil {
			continue
		}

		for _, in := range Find(fn, IsReturn) {
			r := in.(*ssa.Return)
			if len(r.Results) != 1 {
				continue
			}

			switch x := Fwd(r.Results[0]).(type) {
			case *ssa.Field:
				_, n := FieldOf(x.X, x.Field)

				return n
			case *ssa.UnOp:
				if fa, ok := x.X.(*ssa.FieldAddr); ok {
					_, n := FieldOf(fa.X, fa.Field)

					return n
				}
			}
		}
	}

	return ""
}

// ---------- R01.7 wrapper delegation ----------

var coreStateMethods = []string{"Get", "List", "Create", "Update", "Destroy", "Watch", "WatchKind", "WatchKindAggregated"}

// wrapperDelegation checks every CoreState implementation of the module that wraps another
// CoreState: each method's non-error exits return the result of the same-named method on a
// state.CoreState value, called with the method's own parameters in order.
func wrapperDelegation(c *Ctx, rule string) {
	p := c.P

	csN := p.Named(pkgState, "CoreState")
	if csN == nil {
		c.Unknown(rule, "anchor-unresolved: state.CoreState", 0, "interface not found")

		return
	}

	cs := csN.Underlying().(*types.Interface)

	// implementations that are stores themselves or translate to another protocol, not wrappers
	notWrappers := map[string]string{
		pkgInmem + ".State":                 "the store itself",
		"pkg/state/protobuf/client.Adapter": "gRPC client (covered by C11 rules)",
		"pkg/state.coreWrapper":             "adds helper methods on top of an embedded CoreState (methods promoted, not re-implemented)",
	}

	for _, path := range p.OwnPackages() {
		rel := strings.TrimPrefix(path, Mod)
		if strings.Contains(rel, "conformance") || strings.HasPrefix(rel, "cmd/") {
			continue
		}

		sp := p.SSAPkg[path]

		for _, n := range sp.Pkg.Scope().Names() {
			tn, ok := sp.Pkg.Scope().Lookup(n).(*types.TypeName)
			if !ok || tn.IsAlias() {
				continue
			}

			named, ok := tn.Type().(*types.Named)
			if !ok || named.TypeParams().Len() > 0 {
				continue
			}

			if _, isIface := named.Underlying().(*types.Interface); isIface || !ImplementsIface(named, cs) {
				continue
			}

			full := rel + "." + n
			if _, skip := notWrappers[full]; skip {
				continue
			}

			for _, mname := range coreStateMethods {
				sel := types.NewMethodSet(types.NewPointer(named)).Lookup(named.Obj().Pkg(), mname)
				if sel == nil {
					continue
				}

				fn := sel.Obj().(*types.Func)
				recv := fn.Type().(*types.Signature).Recv().Type()

				if pt, ok := recv.(*types.Pointer); ok {
					recv = pt.Elem()
				}

				if !types.Identical(recv, named) {
					continue // promoted from an embedded state: nothing re-implemented
				}

				body := p.SSA.FuncValue(fn)
				if body == nil || len(body.Blocks) == 0 {
					continue
				}

				c.Touch(body)
				checkDelegation(c, rule, full, mname, body)
			}
		}
	}
}

func checkDelegation(c *Ctx, rule, typ, mname string, f *ssa.Function) {
	p := c.P
	construct := typ + "." + mname + " :: pure delegation"

	// cache.stateWrapper serves Get/List/ContextWithTeardown from the cache by design (C15)
	if typ == pkgCache+".stateWrapper" && (mname == "Get" || mname == "List") {
		c.OK(rule, construct, fpos(f), "served from the read cache when the kind is cached (coherence is C15's subject); falls through to the inner state otherwise")

		return
	}

	var delegs []ssa.CallInstruction

	for _, in := range Find(f, func(in ssa.Instruction) bool { _, ok := in.(*ssa.Call); return ok }) {
		call := in.(*ssa.Call)
		cn := p.CalleeName(call)

		if Glob("(pkg/state.*)."+mname, cn) || Glob("(*pkg/state*)."+mname, cn) && call.Common().StaticCallee() != f {
			delegs = append(delegs, call)
		}
	}

	if len(delegs) == 0 {
		c.Bad(rule, construct, fpos(f), "no call to a wrapped state's "+mname)

		return
	}

	c.delegateOnce(rule, f, "(pkg/state.*)."+mname)

	nparams := len(f.Params)

	for _, d := range delegs {
		args := CallArgs(d)

		ok := len(args) == nparams
		detail := ""

		for i := 1; ok && i < len(args); i++ {
			got := p.Desc(args[i])
			if got != fmt.Sprintf("param#%d", i) {
				ok = false
				detail = fmt.Sprintf("argument %d of the inner call is %s, not the wrapper's own parameter", i, got)
			}
		}

		if len(args) != nparams {
			detail = fmt.Sprintf("inner call has %d arguments, wrapper has %d parameters", len(args), nparams)
		}

		// the receiver must be chosen from the wrapper itself, possibly keyed by the target's namespace/type
		if ok {
			r := p.DescN(args[0], 6)
			if strings.Contains(r, "param#") && !strings.Contains(r, "param#0") {
				// keyed by something else than the receiver
			}

			for i := 3; i < nparams; i++ {
				if strings.Contains(r, fmt.Sprintf("param#%d", i)) {
					ok = false
					detail = "the inner state is selected using an option/channel parameter: " + r
				}
			}
		}

		c.Check(ok, rule, construct, d.Pos(), "forwards its own parameters in order", detail)
	}

	// every success exit returns the inner call's results
	isDeleg := func(v ssa.Value) bool {
		call, _ := CallOf(v)
		if call == nil {
			return false
		}

		for _, d := range delegs {
			if d == call {
				return true
			}
		}

		return false
	}

	for _, in := range Find(f, IsReturn) {
		r := in.(*ssa.Return)
		if len(r.Results) == 0 {
			continue
		}

		errv := r.Results[len(r.Results)-1]
		if isDeleg(errv) {
			continue
		}

		if isNilConst(Fwd(errv)) {
			// returning success without the inner call's error: only acceptable if the inner error was tested nil on the way
			bad, w := p.Reach(Entry(f), func(i ssa.Instruction) bool { return i == in }, CutSpec{Edges: func(e EdgeInfo) bool {
				for _, fact := range e.Facts {
					if strings.HasPrefix(fact, "nil(call:") {
						call, _ := CallOf(e.If.Cond.(*ssa.BinOp).X)
						if call != nil {
							for _, d := range delegs {
								if d == call {
									return true
								}
							}
						}
					}
				}

				return false
			}})
			if bad {
				c.Bad(rule, construct+" (success exit)", r.Pos(), "returns nil without the inner call having succeeded: "+strings.Join(w, " "))
			}
		}
	}
}

// dispatchKeys: namespaced.State picks the per-namespace state by the target's namespace;
// inmem.State picks the collection by the target's type and hands the collection the target's
// own ID / the decoded options.
func dispatchKeys(c *Ctx, rule string) {
	p := c.P

	for _, m := range coreStateMethods {
		f := p.Method("pkg/state/impl/namespaced", "State", m)
		if !c.NeedFunc(rule, f, "namespaced.State."+m) {
			continue
		}

		calls := p.Calls(f, "(pkg/state.CoreState)."+m)
		ok := len(calls) == 1
		d := ""

		if ok {
			d = p.DescN(CallArgs(calls[0])[0], 6)
			ok = Glob("call:(*pkg/state/impl/namespaced.State).getNamespace(param#0,call:(pkg/resource.*).Namespace(param#2))", d) ||
				Glob("call:(*pkg/state/impl/namespaced.State).getNamespace(param#0,call:(pkg/resource.Metadata).Namespace(*call:(pkg/resource.Resource).Metadata(param#2)))", d)
		}

		c.Check(ok, rule, "pkg/state/impl/namespaced.State."+m+" :: delegate selected by the target's namespace", fpos(f), short(d, 120), "delegate is "+d)
	}

	collCall := map[string]string{"Get": "Get", "List": "List", "Create": "Create", "Update": "Update", "Destroy": "Destroy", "Watch": "Watch", "WatchKind": "WatchAll", "WatchKindAggregated": "WatchAll"}

	for _, m := range coreStateMethods {
		f := p.Method(pkgInmem, "State", m)
		if !c.NeedFunc(rule, f, "inmem.State."+m) {
			continue
		}

		calls := p.Calls(f, collT+"."+collCall[m])
		ok := len(calls) == 1
		d := ""

		if ok {
			d = p.DescN(CallArgs(calls[0])[0], 6)
			ok = Glob("call:(*"+pkgInmem+".State).getCollection(param#0,call:(pkg/resource.*).Type(param#2))", d) ||
				Glob("call:(*"+pkgInmem+".State).getCollection(param#0,call:(pkg/resource.Metadata).Type(*call:(pkg/resource.Resource).Metadata(param#2)))", d)
		}

		c.Check(ok, rule, pkgInmem+".State."+m+" :: collection selected by the target's type", fpos(f), short(d, 120), "collection is "+d)

		if !ok {
			continue
		}

		args := CallArgs(calls[0])
		want := map[string][]string{
			"Get":     {"call:(pkg/resource.*).ID(param#2)"},
			"Create":  {"param#1", "param#2", "*var:pkg/state.CreateOptions.Owner"},
			"Update":  {"param#1", "param#2", "var:pkg/state.UpdateOptions"},
			"Destroy": {"param#1", "param#2", "*var:pkg/state.DestroyOptions.Owner"},
			"Watch":   {"param#1", "call:(pkg/resource.*).ID(param#2)", "param#3", "param#4"},
			"List":    {"var:pkg/state.ListOptions"},
		}[m]

		for i, w := range want {
			got := p.DescN(args[i+1], 4)
			c.Check(Glob(w, got), rule, fmt.Sprintf("%s.State.%s :: collection argument %d", pkgInmem, m, i+1), calls[0].Pos(), got, "argument is "+got+", expected "+w)
		}
	}

	// getCollection keys the map by its parameter and builds the collection for that type and the state's namespace
	g := p.Method(pkgInmem, "State", "getCollection")
	if c.NeedFunc(rule, g, "inmem.State.getCollection") {
		nc := p.Calls(g, pkgInmem+".NewResourceCollection")
		ok := len(nc) == 1 && p.ArgDesc(nc[0], 0) == "*param#0.ns" && p.ArgDesc(nc[0], 1) == "param#1" && p.ArgDesc(nc[0], 5) == "*param#0.store"
		c.Check(ok, rule, pkgInmem+".State.getCollection :: new collection for (st.ns, typ) with the state's backing store", fpos(g), "yes", "collection constructed with other namespace/type/store")

		for _, call := range p.Calls(g, "*HashTrieMap[*]).Load", "*HashTrieMap[*]).LoadOrStore") {
			c.Check(p.ArgDesc(call, 1) == "param#1", rule, pkgInmem+".State.getCollection :: map keyed by the requested type ("+call.Common().StaticCallee().Name()+")", call.Pos(), "yes", "key is "+p.ArgDesc(call, 1))
		}
	}
}

// registryAtomic: f is a get-or-create lookup. Every value it returns is either what the shared
// map handed back (Load / LoadOrStore / a map lookup), or a fresh instance that was inserted
// under a lock after a lookup that showed the key absent with no unlock in between
// (double-checked creation). Returning a fresh instance any other way lets two callers that race
// on the first access of a key each get their own instance.
func registryAtomic(c *Ctx, rule string, f *ssa.Function, freshGlob string) {
	p := c.P
	if !c.NeedFunc(rule, f, "registry lookup") {
		return
	}

	isFresh := func(v ssa.Value) bool {
		call, _ := CallOf(v)

		return call != nil && Glob(freshGlob, p.CalleeName(call))
	}
	fromMap := func(v ssa.Value) bool {
		v = Fwd(v)
		if ex, ok := v.(*ssa.Extract); ok {
			if _, isLookup := ex.Tuple.(*ssa.Lookup); isLookup {
				return true
			}
		}

		if _, isLookup := v.(*ssa.Lookup); isLookup {
			return true
		}

		call, _ := CallOf(v)
		if call == nil {
			return false
		}

		cn := p.CalleeName(call)

		return Glob("*HashTrieMap[*]).Load", cn) || Glob("*HashTrieMap[*]).LoadOrStore", cn) || Glob("(*sync.Map).Load*", cn)
	}

	nFresh := len(p.Calls(f, freshGlob))
	if nFresh == 0 {
		c.Unknown(rule, FuncName(f)+" :: one instance per key", fpos(f), "anchor-unresolved: no call that builds a fresh instance ("+freshGlob+")")

		return
	}

	ok := true
	detail := ""

	for _, in := range Find(f, IsReturn) {
		r := in.(*ssa.Return)

		for _, leaf := range phiLeaves(r.Results[0]) {
			switch {
			case fromMap(leaf):
			case isFresh(leaf):
				// allowed only as double-checked insertion
				store := func(i ssa.Instruction) bool {
					mu, isMU := i.(*ssa.MapUpdate)

					return isMU && isFresh(mu.Value)
				}
				absent := FactEdge("false(lookup(*)#1)", "nil(lookup(*))")
				unlock := p.PlainCallTo("(*sync.Mutex).Unlock", "(*sync.RWMutex).Unlock", "(*sync.RWMutex).RUnlock")

				if len(Find(f, store)) == 0 {
					ok, detail = false, "a freshly built instance is returned without being inserted into the shared map"

					continue
				}

				if bad, w := p.Reach(Entry(f), store, CutSpec{Edges: absent}); bad {
					ok, detail = false, "fresh instance inserted without a lookup showing the key absent: "+strings.Join(w, " ")
				}

				lookup := func(i ssa.Instruction) bool { _, isLookup := i.(*ssa.Lookup); return isLookup }

				if bad, w := p.Reach(After(f, unlock), store, CutSpec{Nodes: lookup}); bad {
					ok, detail = false, "after a lock was released the fresh instance is inserted without re-checking the key (two first callers each get their own instance): "+strings.Join(w, " ")
				}
			default:
				ok, detail = false, "returns "+p.Desc(leaf)
			}
		}
	}

	c.Check(ok, rule, FuncName(f)+" :: one instance per key", fpos(f), "returns what the shared map holds (atomic load-or-store)", detail)
}

func phiLeaves(v ssa.Value) []ssa.Value {
	seen := map[ssa.Value]bool{}

	var out []ssa.Value

	var walk func(v ssa.Value)

	walk = func(v ssa.Value) {
		v = Fwd(v)
		if seen[v] {
			return
		}

		seen[v] = true

		if phi, ok := v.(*ssa.Phi); ok {
			for _, e := range phi.Edges {
				walk(e)
			}

			return
		}

		out = append(out, v)
	}

	walk(v)

	return out
}

// delegateOnce: the call matching globs is not re-reachable from itself (no retry loop around a
// delegate whose arguments — the caller's object, a non-idempotent mutator — would be applied twice).
func (c *Ctx) delegateOnce(rule string, f *ssa.Function, globs ...string) {
	p := c.P
	if f == nil || len(p.Calls(f, globs...)) == 0 {
		return
	}

	c.NoReach(rule, "delegate "+strings.Join(globs, "|")+" is invoked at most once per call", f, After(f, p.CallTo(globs...)), 1, p.CallTo(globs...), CutSpec{})
}
