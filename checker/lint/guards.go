package lint

import (
	"fmt"
	"go/constant"
	"go/token"
	"go/types"
	"sort"
	"strings"

	"golang.org/x/tools/go/ssa"
)

// E6 — guard normal form.
//
// An integer comparison `a REL b` is turned into a canonical linear atom Σ cᵢ·vᵢ + c ≤ 0 (or
// = 0 / ≠ 0). Variables are the Desc strings of the non-arithmetic leaves, renamed through an
// alias table supplied by the rule (so `collection.writePos` in a method and the same field seen
// through a closure's free variable are both "W"). Equivalent rewrites (`cap < lag`,
// `!(lag <= cap)`, an intermediate local) normalise to the same atom; a change of the solution
// set (`>`→`>=`, dropped `+gap`) does not.
//
// NOTE: a memory location is one variable regardless of intervening stores; rules use lin facts
// only where the compared locations are not written between the loads (delivery loops, range
// guards), and say so.

// Alias maps a Desc glob to a short variable name.
type Alias struct {
	Glob, Name string
	// Match, when set, identifies the variable by SSA value identity instead of by description.
	Match func(ssa.Value) bool
}

// Lin is a linear form over named variables.
type Lin struct {
	Coef  map[string]int64
	Const int64
}

func (l Lin) add(o Lin, k int64) Lin {
	out := Lin{Coef: map[string]int64{}, Const: l.Const + k*o.Const}

	for n, c := range l.Coef {
		out.Coef[n] = c
	}

	for n, c := range o.Coef {
		out.Coef[n] += k * c

		if out.Coef[n] == 0 {
			delete(out.Coef, n)
		}
	}

	return out
}

func (l Lin) String() string {
	names := make([]string, 0, len(l.Coef))
	for n := range l.Coef {
		names = append(names, n)
	}

	sort.Strings(names)

	var sb strings.Builder

	for _, n := range names {
		fmt.Fprintf(&sb, "%+d*%s", l.Coef[n], n)
	}

	if l.Const != 0 || len(names) == 0 {
		fmt.Fprintf(&sb, "%+d", l.Const)
	}

	return sb.String()
}

func aliasName(aliases []Alias, desc string) string {
	for _, a := range aliases {
		if a.Match == nil && Glob(a.Glob, desc) {
			return a.Name
		}
	}

	return desc
}

// LinOf computes the linear form of an integer-typed value.
func (p *Program) LinOf(v ssa.Value, aliases []Alias) Lin {
	v = Fwd(v)

	switch x := v.(type) {
	case *ssa.Const:
		if x.Value != nil && x.Value.Kind() == constant.Int {
			if i, ok := constant.Int64Val(x.Value); ok {
				return Lin{Coef: map[string]int64{}, Const: i}
			}
		}
	case *ssa.Convert:
		if isIntType(x.X.Type()) && isIntType(x.Type()) {
			return p.LinOf(x.X, aliases)
		}
	case *ssa.UnOp:
		if x.Op == token.SUB {
			return Lin{Coef: map[string]int64{}}.add(p.LinOf(x.X, aliases), -1)
		}
	case *ssa.BinOp:
		switch x.Op {
		case token.ADD:
			return p.LinOf(x.X, aliases).add(p.LinOf(x.Y, aliases), 1)
		case token.SUB:
			return p.LinOf(x.X, aliases).add(p.LinOf(x.Y, aliases), -1)
		case token.MUL:
			lx, ly := p.LinOf(x.X, aliases), p.LinOf(x.Y, aliases)
			if len(lx.Coef) == 0 {
				return Lin{Coef: map[string]int64{}}.add(ly, lx.Const)
			}

			if len(ly.Coef) == 0 {
				return Lin{Coef: map[string]int64{}}.add(lx, ly.Const)
			}
		case token.REM, token.QUO:
			name := "(" + p.LinOf(x.X, aliases).String() + x.Op.String() + p.LinOf(x.Y, aliases).String() + ")"

			return Lin{Coef: map[string]int64{name: 1}}
		}
	case *ssa.Call:
		if b, ok := x.Call.Value.(*ssa.Builtin); ok && (b.Name() == "max" || b.Name() == "min") {
			parts := make([]string, len(x.Call.Args))
			for i, a := range x.Call.Args {
				parts[i] = p.LinOf(a, aliases).String()
			}

			sort.Strings(parts) // min/max are commutative

			return Lin{Coef: map[string]int64{b.Name() + "(" + strings.Join(parts, ",") + ")": 1}}
		}
	}

	for _, a := range aliases {
		if a.Match != nil && a.Match(v) {
			return Lin{Coef: map[string]int64{a.Name: 1}}
		}
	}

	return Lin{Coef: map[string]int64{aliasName(aliases, p.Desc(v)): 1}}
}

func isIntType(t types.Type) bool {
	b, ok := t.Underlying().(*types.Basic)

	return ok && b.Info()&types.IsInteger != 0
}

// LinFact renders the canonical atom that holds on the given edge of an integer comparison, or ""
// if the condition is not an integer comparison. Forms: "le:<lin>" (lin ≤ 0), "eq:<lin>", "ne:<lin>".
func (p *Program) LinFact(cond ssa.Value, taken bool, aliases []Alias) string {
	neg := !taken
	cond = Fwd(cond)

	for {
		if u, ok := cond.(*ssa.UnOp); ok && u.Op == token.NOT {
			neg = !neg
			cond = Fwd(u.X)

			continue
		}

		break
	}

	b, ok := cond.(*ssa.BinOp)
	if !ok || !isIntType(b.X.Type()) {
		return ""
	}

	op := b.Op
	if neg {
		switch op {
		case token.EQL:
			op = token.NEQ
		case token.NEQ:
			op = token.EQL
		case token.LSS:
			op = token.GEQ
		case token.GEQ:
			op = token.LSS
		case token.GTR:
			op = token.LEQ
		case token.LEQ:
			op = token.GTR
		default:
			return ""
		}
	}

	d := p.LinOf(b.X, aliases).add(p.LinOf(b.Y, aliases), -1) // X - Y
	zero := Lin{Coef: map[string]int64{}}

	switch op {
	case token.LEQ: // X - Y <= 0
		return "le:" + d.String()
	case token.LSS: // X - Y < 0  <=>  X - Y + 1 <= 0
		d.Const++

		return "le:" + d.String()
	case token.GEQ: // Y - X <= 0
		return "le:" + zero.add(d, -1).String()
	case token.GTR: // Y - X + 1 <= 0
		n := zero.add(d, -1)
		n.Const++

		return "le:" + n.String()
	case token.EQL, token.NEQ:
		// sign-normalise: first variable (sorted) gets a positive coefficient
		names := make([]string, 0, len(d.Coef))
		for n := range d.Coef {
			names = append(names, n)
		}

		sort.Strings(names)

		if len(names) > 0 && d.Coef[names[0]] < 0 || len(names) == 0 && d.Const < 0 {
			d = zero.add(d, -1)
		}

		if op == token.EQL {
			return "eq:" + d.String()
		}

		return "ne:" + d.String()
	}

	return ""
}

// LinEdge selects If edges whose canonical integer atom (under aliases) is one of wants.
func (p *Program) LinEdge(aliases []Alias, wants ...string) EdgePred {
	return func(e EdgeInfo) bool {
		try := func(cond ssa.Value, taken bool) bool {
			f := p.LinFact(cond, taken, aliases)
			if f == "" {
				return false
			}

			for _, w := range wants {
				if f == w {
					return true
				}
			}

			return false
		}

		if try(e.Cond, e.Taken) || (e.RawCond != nil && e.RawCond != e.Cond && try(e.RawCond, e.Taken)) {
			return true
		}

		// what the outcome of a computed flag implies (see impliedConds)
		for _, ct := range p.impliedConds(e.Cond, e.Taken, 0) {
			if try(ct.Cond, ct.Truth) {
				return true
			}
		}

		for _, grp := range e.AnyOf {
			all := len(grp) > 0

			for _, ct := range grp {
				hit := try(ct.Cond, ct.Truth)

				for _, ic := range p.impliedConds(ct.Cond, ct.Truth, 1) {
					hit = hit || try(ic.Cond, ic.Truth)
				}

				if !hit {
					all = false
				}
			}

			if all {
				return true
			}
		}

		return false
	}
}

// LinEdgeSuccs returns the successor locations of the edges carrying one of the atoms.
func (p *Program) LinEdgeSuccs(f *ssa.Function, aliases []Alias, wants ...string) []Loc {
	var out []Loc

	if f == nil {
		return nil
	}

	for _, b := range f.Blocks {
		if len(b.Instrs) == 0 {
			continue
		}

		ifi, ok := b.Instrs[len(b.Instrs)-1].(*ssa.If)
		if !ok {
			continue
		}

		for k, succ := range b.Succs {
			lf := p.LinFact(ifi.Cond, k == 0, aliases)
			for _, w := range wants {
				if lf == w {
					out = append(out, Loc{B: succ, Pred: b})
				}
			}
		}
	}

	return out
}

// LinFactsOf lists every canonical integer atom appearing on an edge of f (debug / evidence).
func (p *Program) LinFactsOf(f *ssa.Function, aliases []Alias) []string {
	seen := map[string]bool{}

	if f == nil {
		return nil
	}

	for _, b := range f.Blocks {
		if len(b.Instrs) == 0 {
			continue
		}

		if ifi, ok := b.Instrs[len(b.Instrs)-1].(*ssa.If); ok {
			for _, t := range []bool{true, false} {
				if lf := p.LinFact(ifi.Cond, t, aliases); lf != "" {
					seen[lf] = true
				}
			}
		}
	}

	var out []string
	for k := range seen {
		out = append(out, k)
	}

	sort.Strings(out)

	return out
}
