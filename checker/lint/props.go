package lint

// Properties returns the registry of property checks.
func Properties() map[string]*PropertyInfo {
	m := map[string]*PropertyInfo{}

	for _, p := range registry {
		m[p.ID] = p
	}

	return m
}

var registry []*PropertyInfo

func register(p *PropertyInfo) { registry = append(registry, p) }
