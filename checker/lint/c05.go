package lint

import (
	"fmt"
	"strings"

	"golang.org/x/tools/go/ssa"
)

const pkgReduced = "pkg/controller/runtime/internal/reduced"

func init() {
	register(&PropertyInfo{
		ID: "C05",
		Explanation: "Liveness ('eventually reconciles') is NOT decided. Decided necessary structure of the wake-up pipeline: R05.1 aggregated watches are established before any controller goroutine is started; R05.2 every input added to the dependency database is followed, before success is reported, by registering a watch for the same namespace/type, and a watch registered while running is established immediately; " +
			"R05.3 every event other than Noop / Bootstrapped / pre-bootstrap cached traffic is inserted into the notification map; R05.4 the single dedup map is handed over correctly: it is parked on the 'empty' channel only when it has no entries, keys are taken before the hand-off, and a goroutine does not touch the map after sending it until it receives it again; " +
			"R05.5 every dependent controller returned by the database is triggered; R05.6 the reconcile signal is a capacity-1 channel with a non-blocking send and is raised from every source (watch, QueueReconcile, construction, restart); R05.7 the destroy-ready filter is installed exactly for DestroyReady inputs, removed with the input, and means phase == TearingDown ∧ no finalizers; UpdateInputs mutates the database only through the add/delete API the filter bookkeeping is written against; " +
			"R05.8 queue routing: QPrimary→reconcile job, QMapped→map job, QMappedDestroyReady→map job behind the filter; R05.9 queue controllers list and enqueue every primary input at start-up and every mapped pointer becomes a reconcile job.",
		NotCovered: "eventual reconciliation and 'last observed state == current state at quiescence' (liveness over schedules); delivery delays; controller busy times.",
		Assumptions: []string{
			"a kind watch delivers every committed change (C02) and the queue does not lose items (C09)",
		},
		Run: runC05,
	})
}

func runC05(c *Ctx) {
	p := c.P

	// ---------- R05.1 start order
	c.Rule("R05.1", "E1", "Runtime.Run: setupWatches()==nil before any controller/pipeline goroutine is started", 2)

	fRun := p.Method(pkgRuntime, "Runtime", "Run")
	if c.NeedFunc("R05.1", fRun, rtT+".Run") {
		start := p.BodyWith(fRun, p.CallTo(rtT+".setupWatches"))
		if c.NeedFunc("R05.1", start, "Run start closure") {
			spawn := p.CallTo("(*golang.org/x/sync/errgroup.Group).Go", pkgRuntime+".goFunc")
			c.MustCut("R05.1", "goroutines ⊣ {setupWatches() == nil}", start, spawn, CutSpec{Edges: FactEdge("nil(call:" + rtT + ".setupWatches(*")}, 2)
			c.MustCut("R05.1", "setupWatches ⊣ {runCtx created}", start, p.CallTo(rtT+".setupWatches"), CutSpec{Nodes: StoreToField("Runtime", "runCtx")}, 1)
		}
	}

	// ---------- R05.2 watch on registration
	c.Rule("R05.2", "E1", "every AddControllerInput is followed by registering a watch for the same kind before success; Runtime.watch establishes it immediately when running", 6)

	addIn := p.CallTo(dbT + ".AddControllerInput")

	if f := p.Method(pkgRRuntime, "Adapter", "UpdateInputs"); c.NeedFunc("R05.2", f, "rruntime.UpdateInputs") {
		wf := p.CallTo("dyn:*param#0.watchFunc")
		c.MustFollow("R05.2", "after AddControllerInput, return nil only via watchFunc", f, addIn, ReturnsNilConst(0), CutSpec{Nodes: wf}, 1)
		c.MustFollow("R05.2", "after AddControllerInput, the next Add only via watchFunc", f, addIn, addIn, CutSpec{Nodes: wf}, 1)

		for _, call := range p.Calls(f, "dyn:*param#0.watchFunc") {
			a, b := p.ArgDesc(call, 0), p.ArgDesc(call, 1)
			adds := p.Calls(f, dbT+".AddControllerInput")
			ok := len(adds) == 1 && strings.HasSuffix(a, ".Namespace") && strings.HasSuffix(b, ".Type") && strings.TrimSuffix(a, ".Namespace") == strings.TrimSuffix(b, ".Type")
			c.Check(ok, "R05.2", FuncName(f)+" :: the watch is registered for the added input's (namespace, type)", call.Pos(), a+" / "+b, "watchFunc called with "+a+" / "+b)
		}
	}

	if f := p.Func(pkgQRuntime, "NewAdapter"); c.NeedFunc("R05.2", f, "qruntime.NewAdapter") {
		rw := p.CallTo("dyn:*.RegisterWatch")
		c.MustFollow("R05.2", "after AddControllerInput, success only via RegisterWatch", f, addIn, ReturnsNilConst(1), CutSpec{Nodes: rw}, 1)
		c.MustFollow("R05.2", "after AddControllerInput, the next Add only via RegisterWatch", f, addIn, addIn, CutSpec{Nodes: rw}, 1)
	}

	if f := p.Method(pkgRuntime, "Runtime", "watch"); c.NeedFunc("R05.2", f, rtT+".watch") {
		wk := p.CallTo("(pkg/state.CoreState).WatchKindAggregated", "(pkg/state.State).WatchKindAggregated")
		c.MustCut("R05.2", "return without establishing a watch ⊣ {already watched, runtime not started}", f, ReturnsNilConst(0), CutSpec{Edges: FactEdge("true(lookup(*param#0.watched,*)#1)", "nil(*param#0.runCtx)")}, 1)
		c.NoReach("R05.2", "new kind while running ⇒ the watch is established before returning", f, p.EdgeSuccs(f, "nonnil(*param#0.runCtx)"), 1, IsReturn, CutSpec{Nodes: wk})

		for _, call := range p.Calls(f, "(pkg/state.CoreState).WatchKindAggregated", "(pkg/state.State).WatchKindAggregated") {
			ok := p.ArgDesc(call, 1) == "*param#0.runCtx" && p.ArgDesc(call, 3) == "*param#0.watchCh" && Glob("call:pkg/resource.NewMetadata(param#1,param#2,*", p.ArgDesc(call, 2))
			c.Check(ok, "R05.2", FuncName(f)+" :: watch of the requested kind on the runtime context into the runtime's watch channel", call.Pos(), "yes", "watch established with other arguments")
		}

		lk := p.Lockset(LockSpec{Rel: pkgRuntime, Struct: "Runtime", Mutex: "watchedMu", Guarded: []string{"watched"}}, pkgRuntime)
		okL := true

		for _, g := range []*ssa.Function{f, p.Method(pkgRuntime, "Runtime", "setupWatches")} {
			if g == nil {
				continue
			}

			for _, in := range Find(g, func(in ssa.Instruction) bool { _, ok := lk.guardedAccess(in); return ok }) {
				if lk.HeldAt(in) <= 0 {
					okL = false
				}
			}
		}

		c.Check(okL, "R05.2", "Runtime.watched is accessed under watchedMu in watch/setupWatches", fpos(f), "yes", "watched map accessed without watchedMu")
	}

	if f := p.Method(pkgRuntime, "Runtime", "setupWatches"); c.NeedFunc("R05.2", f, rtT+".setupWatches") {
		c.errPropagates("R05.2", f, 1, "(pkg/state.CoreState).WatchKindAggregated", "(pkg/state.State).WatchKindAggregated")
	}

	// ---------- R05.3 event table
	c.Rule("R05.3", "E1", "processEvents: an event is skipped (no notification entry) only if it is Noop, Bootstrapped, or cached traffic before bootstrap", 1)

	if f := p.Method(pkgRuntime, "Runtime", "processEvents"); c.NeedFunc("R05.3", f, rtT+".processEvents") {
		evT := func(n string) string { return "eq(*var:pkg/state.Event.Type," + p.ConstVal(pkgState, n) + ")" }
		loopHead := func(e EdgeInfo) bool { return strings.HasPrefix(e.Facts[0], "lt((phi(") }
		// from the start of an iteration (the loop-head true edge), reaching the next loop-head test without a MapUpdate needs one of the exemptions
		var starts []Loc

		for _, b := range f.Blocks {
			if ifi, ok := b.Instrs[len(b.Instrs)-1].(*ssa.If); ok && strings.HasPrefix(p.Facts(ifi.Cond, true)[0], "lt((phi(") {
				starts = append(starts, Loc{B: b.Succs[0], Pred: b})
			}
		}

		bad, w := p.Reach(starts, func(in ssa.Instruction) bool {
			ifi, ok := in.(*ssa.If)

			return ok && strings.HasPrefix(p.Facts(ifi.Cond, true)[0], "lt((phi(")
		}, CutSpec{
			Nodes: func(in ssa.Instruction) bool { _, ok := in.(*ssa.MapUpdate); return ok },
			Edges: OrEdge(FactEdge(evT("Noop"), evT("Bootstrapped"), "false(call:"+cacheT+".IsHandledBootstrapped(*)#1)"), func(e EdgeInfo) bool {
				// the not-yet-bootstrapped answer of the cache, also when it is remembered across events of one batch
				if e.Taken || e.Cond == nil {
					return false
				}

				leaves := PhiLeaves(e.Cond)
				if len(leaves) == 0 {
					return false
				}

				seenCall := false

				for _, l := range leaves {
					if k, isConst := l.(*ssa.Const); isConst && k.Value != nil {
						continue
					}

					ex, isEx := l.(*ssa.Extract)
					if !isEx || ex.Index != 1 {
						return false
					}

					call, _ := ex.Tuple.(*ssa.Call)
					if call == nil || p.CalleeName(call) != cacheT+".IsHandledBootstrapped" {
						return false
					}

					seenCall = true
				}

				return seenCall
			}),
		})
		c.Check(len(starts) == 1 && !bad, "R05.3", FuncName(f)+" :: every other event reaches m[key] = value", fpos(f), "yes", "an event can be dropped without notification: "+strings.Join(w, " "))
		_ = loopHead
	}

	// ---------- R05.4 map hand-off
	c.Rule("R05.4", "E1", "dedup map hand-off: parked on `empty` only when empty; takeOne before the hand-off; no use after sending until received again", 6)

	usesMap := func(mapDesc string) InstrPred {
		return func(in ssa.Instruction) bool {
			switch x := in.(type) {
			case *ssa.Call:
				if p.CalleeName(x) == gSend {
					return false
				}

				for _, a := range CallArgs(x) {
					if p.Desc(a) == mapDesc {
						return true
					}
				}
			case *ssa.MapUpdate:
				return p.Desc(x.Map) == mapDesc
			case *ssa.Lookup:
				return p.Desc(x.X) == mapDesc
			case *ssa.Range:
				return p.Desc(x.X) == mapDesc
			}

			return false
		}
	}
	isSel := func(in ssa.Instruction) bool { _, ok := in.(*ssa.Select); return ok }

	if f := p.Method(pkgRuntime, "Runtime", "deduplicateWatchEvents"); c.NeedFunc("R05.4", f, rtT+".deduplicateWatchEvents") {
		sendEmpty := func(in ssa.Instruction) bool {
			call, ok := in.(*ssa.Call)

			return ok && p.CalleeName(call) == gSend && p.ArgDesc(call, 1) == "param#2"
		}
		sendCh := func(in ssa.Instruction) bool {
			call, ok := in.(*ssa.Call)

			return ok && p.CalleeName(call) == gSend && p.ArgDesc(call, 1) == "param#1"
		}
		mdesc := "select#3"

		for _, in := range Find(f, OrInstr(sendEmpty, sendCh)) {
			mdesc = p.ArgDesc(in.(ssa.CallInstruction), 2)
		}

		c.MustCut("R05.4", "map parked on `empty` ⊣ {len(m) == 0}", f, sendEmpty, CutSpec{Edges: FactEdge("eq(call:builtin.len(*),const:0)")}, 1)
		// (handing over a map that happens to be empty is harmless: only the parking side is a necessary condition)
		c.NoReach("R05.4", "no use of the map after sending it, before receiving one again", f, After(f, OrInstr(sendEmpty, sendCh)), 2, usesMap(mdesc), CutSpec{Nodes: isSel})
		c.MustCut("R05.4", "processEvents ⊣ {a map was acquired}", f, p.CallTo(rtT+".processEvents"), CutSpec{Nodes: isSel}, 2)
	}

	if f := p.Method(pkgRuntime, "Runtime", "deliverDeduplicatedEvents"); c.NeedFunc("R05.4", f, rtT+".deliverDeduplicatedEvents") {
		send := func(ch string) InstrPred {
			return func(in ssa.Instruction) bool {
				call, ok := in.(*ssa.Call)

				return ok && p.CalleeName(call) == gSend && p.ArgDesc(call, 1) == ch
			}
		}
		take := p.CallTo("(" + pkgRuntime + ".dedup).takeOne")

		c.MustCut("R05.4", "hand-back ⊣ {takeOne}", f, OrInstr(send("param#1"), send("param#2")), CutSpec{Nodes: take}, 2)
		c.MustCut("R05.4", "map parked on `empty` ⊣ {len(m) <= 0}", f, send("param#2"), CutSpec{Edges: FactEdge("le(call:builtin.len(*),const:0)", "eq(call:builtin.len(*),const:0)")}, 1)
		c.MustCut("R05.4", "map returned on `ch` ⊣ {len(m) > 0}", f, send("param#1"), CutSpec{Edges: FactEdge("gt(call:builtin.len(*),const:0)", "ne(call:builtin.len(*),const:0)")}, 1)

		mdesc := ""
		for _, call := range p.Calls(f, "("+pkgRuntime+".dedup).takeOne") {
			mdesc = p.ArgDesc(call, 0)
		}

		c.NoReach("R05.4", "no use of the map after handing it back, before receiving one again", f, AfterTargets(f, OrInstr(send("param#1"), send("param#2"))), 1, usesMap(mdesc), CutSpec{Nodes: isSel})

		// the delivery goroutine receives maps only from ch (never from `empty`: a parked map is by definition empty)
		for _, in := range Find(f, isSel) {
			for _, st := range in.(*ssa.Select).States {
				if d := p.Desc(st.Chan); d == "param#2" {
					c.Bad("R05.4", FuncName(f)+" :: receives from `empty`", in.Pos(), "delivery must not consume parked (empty) maps")
				}
			}
		}

		// ---------- R05.5 delivery
		c.Rule("R05.5", "E1", "every controller returned by GetDependentControllers is triggered with the taken key", 2)

		wt := p.Calls(f, "(pkg/controller/runtime/internal/adapter.Adapter).WatchTrigger")
		okW := len(wt) == 1

		if okW {
			recv := p.DescN(CallArgs(wt[0])[0], 6)
			okW = strings.Contains(recv, "lookup(*param#0.controllers,") && strings.Contains(recv, dbT+".GetDependentControllers(") && Glob("var:pkg/controller/runtime/internal/reduced.Metadata", p.ArgDesc(wt[0], 1))
		}

		c.Check(okW, "R05.5", FuncName(f)+" :: WatchTrigger(&k) on controllers[name] for name ranging over GetDependentControllers(k)", fpos(f), "yes", "delivery loop shape changed")

		gd := p.Calls(f, dbT+".GetDependentControllers")
		okK := len(gd) == 1

		if okK {
			flds := StructLitFields(CallArgs(gd[0])[1])
			okK = flds != nil && Glob("*var:pkg/controller/runtime/internal/reduced.Metadata.*Namespace", p.Desc(flds["Namespace"])) && Glob("*var:pkg/controller/runtime/internal/reduced.Metadata.*Typ", p.Desc(flds["Type"])) && Glob("call:github.com/siderolabs/gen/optional.Some(*var:pkg/controller/runtime/internal/reduced.Metadata.*ID)", p.Desc(flds["ID"]))
		}

		c.Check(okK, "R05.5", FuncName(f)+" :: dependents are looked up by the taken key's (namespace, type, id)", fpos(f), "yes", "lookup key differs from the notification key")
	}

	dependentsFresh(c, "R05.5")

	// ---------- R05.6 pending signal
	c.Rule("R05.6", "E4", "reconcile signal: capacity-1 channel, non-blocking send, raised from every source", 6)

	if f := p.Func(pkgRRuntime, "NewAdapter"); c.NeedFunc("R05.6", f, "rruntime.NewAdapter") {
		okCap := false

		for _, in := range Find(f, StoreToField("Adapter", "ch")) {
			if mc, ok := in.(*ssa.Store).Val.(*ssa.MakeChan); ok && p.LinOf(mc.Size, nil).Const >= 1 {
				okCap = true
			}
		}

		c.Check(okCap, "R05.6", "rruntime.NewAdapter :: reconcile channel has capacity >= 1", fpos(f), "yes", "an unbuffered signal channel loses a wake-up that arrives while the controller is busy")
		c.MustCut("R05.6", "return adapter ⊣ {initial triggerReconcile}", f, ReturnsNilConst(1), CutSpec{Nodes: p.CallTo("(*" + pkgRRuntime + ".Adapter).triggerReconcile")}, 1)
	}

	if f := p.Method(pkgRRuntime, "Adapter", "triggerReconcile"); c.NeedFunc("R05.6", f, "rruntime.triggerReconcile") {
		sels := Find(f, func(in ssa.Instruction) bool { _, ok := in.(*ssa.Select); return ok })
		ok := len(sels) == 1

		if ok {
			sel := sels[0].(*ssa.Select)
			ok = !sel.Blocking && len(sel.States) == 1 && sel.States[0].Dir == 1 && p.Desc(sel.States[0].Chan) == "*param#0.ch" // types.SendOnly == 1
		}

		c.Check(ok, "R05.6", FuncName(f)+" :: non-blocking send on adapter.ch", fpos(f), "select{case ch<-: default:}", "signal send can block or targets another channel")
	}

	for _, name := range []string{"QueueReconcile", "WatchTrigger"} {
		f := p.Method(pkgRRuntime, "Adapter", name)
		if !c.NeedFunc("R05.6", f, "rruntime."+name) {
			continue
		}

		c.Check(len(p.Calls(f, "(*"+pkgRRuntime+".Adapter).triggerReconcile")) == 1, "R05.6", FuncName(f)+" :: raises the reconcile signal", fpos(f), "yes", "does not call triggerReconcile")
	}

	if f := p.Method(pkgRRuntime, "Adapter", "EventCh"); c.NeedFunc("R05.6", f, "rruntime.EventCh") {
		ok := false

		for _, in := range Find(f, IsReturn) {
			ok = p.Desc(in.(*ssa.Return).Results[0]) == "*param#0.ch"
		}

		c.Check(ok, "R05.6", FuncName(f)+" :: controllers wait on the channel the signal is sent to", fpos(f), "adapter.ch", "EventCh returns another channel")
	}

	// ---------- R05.7 filters
	c.Rule("R05.7", "E1", "destroy-ready filter: installed iff the input kind is DestroyReady, removed with the input; predicate = TearingDown ∧ no finalizers; database mutated only through add/delete", 8)

	if f := p.Method(pkgRRuntime, "Adapter", "UpdateInputs"); f != nil {
		dr := p.ConstVal("pkg/controller", "InputDestroyReady")
		addF := p.CallTo("(*" + pkgRRuntime + ".Adapter).addWatchFilter")
		delF := p.CallTo("(*" + pkgRRuntime + ".Adapter).deleteWatchFilter")
		delIn := p.CallTo(dbT + ".DeleteControllerInput")

		c.MustCut("R05.7", "addWatchFilter ⊣ {Kind == DestroyReady}", f, addF, CutSpec{Edges: FactEdge("eq(*.Kind," + dr + ")")}, 1)
		var afterAdd []Loc

		for _, loc := range p.EdgeSuccs(f, "eq(*.Kind,"+dr+")") {
			for _, a := range Find(f, addIn) {
				if dominates(a.Block(), loc.B) {
					afterAdd = append(afterAdd, loc)
				}
			}
		}

		c.NoReach("R05.7", "a DestroyReady input that was added gets its filter before the watch/next step", f, afterAdd, 1, p.CallTo("dyn:*param#0.watchFunc"), CutSpec{Nodes: addF})
		c.MustFollow("R05.7", "after DeleteControllerInput the filter of that kind is removed", f, delIn, OrInstr(ReturnsNilConst(0), addIn, delIn), CutSpec{Nodes: delF}, 1)

		for _, call := range p.Calls(f, "(*"+pkgRRuntime+".Adapter).addWatchFilter") {
			c.Check(Glob("func:"+pkgReduced+".FilterDestroyReady", p.ArgDesc(call, 3)), "R05.7", FuncName(f)+" :: the installed filter is FilterDestroyReady", call.Pos(), "yes", "another filter is installed")
		}

		// closed world: the only database methods UpdateInputs uses
		allowedDB := map[string]bool{dbT + ".GetControllerInputs": true, dbT + ".AddControllerInput": true, dbT + ".DeleteControllerInput": true}

		for _, call := range p.Calls(f, dbT+".*") {
			c.Check(allowedDB[p.CalleeName(call)], "R05.7", FuncName(f)+" :: uses only Get/Add/DeleteControllerInput on the dependency database ("+call.Common().StaticCallee().Name()+")", call.Pos(), "known API",
				"a database mutation the filter/watch bookkeeping was not written against: an input can change without its filter and watch being updated")
		}
	}

	if f := p.Method(pkgRRuntime, "Adapter", "WatchTrigger"); c.NeedFunc("R05.7", f, "rruntime.WatchTrigger") {
		c.MustCut("R05.7", "return without trigger ⊣ {a filter exists and rejects the event}", f, IsReturn, CutSpec{Nodes: p.CallTo("(*" + pkgRRuntime + ".Adapter).triggerReconcile"), Edges: FactEdge("false(call:dyn:lookup(*param#0.watchFilters,*)(param#1))")}, 1)

		for _, in := range Find(f, func(in ssa.Instruction) bool {
			l, ok := in.(*ssa.Lookup)
			return ok && LoadsField(l.X, "Adapter", "watchFilters")
		}) {
			flds := StructLitFields(in.(*ssa.Lookup).Index)
			ok := flds != nil && Glob("*param#1.*Namespace", p.Desc(flds["Namespace"])) && Glob("*param#1.*Typ", p.Desc(flds["Type"]))
			c.Check(ok, "R05.7", FuncName(f)+" :: the filter is looked up by the event's (namespace, type)", in.Pos(), "yes", "filter looked up by another key")
		}
	}

	if f := p.Func(pkgReduced, "FilterDestroyReady"); c.NeedFunc("R05.7", f, "reduced.FilterDestroyReady") {
		ok := false

		for _, in := range Find(f, IsReturn) {
			d := p.Desc(in.(*ssa.Return).Results[0])
			ok = d == "phi(const:false|*param#0.Value.FinalizersEmpty)" || d == "phi(const:false|*param#0.FinalizersEmpty)"
		}

		c.MustCut("R05.7", "FinalizersEmpty consulted ⊣ {Phase == TearingDown}", f, func(in ssa.Instruction) bool {
			fa, isFA := in.(*ssa.FieldAddr)
			if !isFA {
				return false
			}

			_, n := FieldOf(fa.X, fa.Field)

			return n == "FinalizersEmpty"
		}, CutSpec{Edges: FactEdge("eq(*param#0.*Phase," + p.ConstVal(pkgResource, "PhaseTearingDown") + ")")}, 1)
		c.Check(ok, "R05.7", "FilterDestroyReady == (Phase == TearingDown && FinalizersEmpty)", fpos(f), "yes", "predicate changed")
	}

	if f := p.Func(pkgReduced, "NewMetadata"); c.NeedFunc("R05.7", f, "reduced.NewMetadata") {
		ok := 0

		for _, in := range Find(f, func(in ssa.Instruction) bool { _, isSt := in.(*ssa.Store); return isSt }) {
			st := in.(*ssa.Store)

			fa, isFA := st.Addr.(*ssa.FieldAddr)
			if !isFA {
				continue
			}

			_, n := FieldOf(fa.X, fa.Field)
			d := p.Desc(st.Val)

			switch n {
			case "FinalizersEmpty":
				if Glob("call:(pkg/resource.Finalizers).Empty(*call:(*pkg/resource.Metadata).Finalizers(param#0))", d) {
					ok++
				}
			case "Phase":
				if Glob("call:(pkg/resource.Metadata).Phase(*param#0)", d) {
					ok++
				}
			}
		}

		c.Check(ok == 2, "R05.7", "reduced.NewMetadata takes Phase and FinalizersEmpty from the resource's metadata", fpos(f), "yes", "reduced value no longer reflects phase/finalizers")
	}

	// ---------- R05.8 queue routing
	c.Rule("R05.8", "E4", "qruntime.WatchTrigger routing table: QPrimary→reconcile, QMapped→map, QMappedDestroyReady→filter then map", 4)

	if f := p.Method(pkgQRuntime, "Adapter", "WatchTrigger"); c.NeedFunc("R05.8", f, "qruntime.WatchTrigger") {
		jobs := p.ConstsOfType(pkgQRuntime, "QJob")
		kinds := p.ConstsByPrefix("pkg/controller", "InputQ")
		want := map[string]string{"InputQPrimary": "QJobReconcile", "InputQMapped": "QJobMap", "InputQMappedDestroyReady": "QJobMap"}
		got := map[string]string{}

		for _, call := range p.Calls(f, pkgQRuntime+".NewQItemFromReduced") {
			job := strings.TrimPrefix(p.ArgDesc(call, 1), "const:")
			jname := ""

			for n, v := range jobs {
				if v == job {
					jname = n
				}
			}

			for kname, kval := range kinds {
				if bad, _ := p.Reach(Entry(f), func(i ssa.Instruction) bool { return i == call.(ssa.Instruction) }, CutSpec{Edges: FactEdge("eq(*.Kind,const:" + kval + ")")}); !bad {
					got[kname] = jname
				}
			}

			c.Check(p.ArgDesc(call, 0) == "param#1", "R05.8", FuncName(f)+" :: queue item is built from the event's metadata", call.Pos(), "md", "item built from "+p.ArgDesc(call, 0))
		}

		okT := len(got) == 3

		for k, v := range want {
			if got[k] != v {
				okT = false
			}
		}

		c.Check(okT, "R05.8", FuncName(f)+" :: routing table", fpos(f), fmt.Sprint(got), fmt.Sprintf("routing table is %v, expected %v", got, want))

		put := p.CallTo("(*" + pkgQueue + ".Queue[*]).Put")
		c.MustCut("R05.8", "Put ⊣ {input namespace and type match the event}", f, put, CutSpec{Edges: FactEdge("eq(*.Type,*param#1.*Typ)")}, 3)
		// every NewQItemFromReduced is followed by a Put of that item before the next routing decision
		c.MustFollow("R05.8", "every built item is Put", f, p.CallTo(pkgQRuntime+".NewQItemFromReduced"), OrInstr(IsReturn, p.CallTo(pkgQRuntime+".NewQItemFromReduced")), CutSpec{Nodes: put}, 3)
		c.NoReach("R05.8", "QMappedDestroyReady: Put only behind FilterDestroyReady(md)", f, p.EdgeSuccs(f, "eq(*.Kind,"+p.ConstVal("pkg/controller", "InputQMappedDestroyReady")+")"), 1, put,
			CutSpec{Edges: FactEdge("true(call:" + pkgReduced + ".FilterDestroyReady(param#1))"), Nodes: func(in ssa.Instruction) bool {
				// the next loop iteration
				ifi, ok := in.(*ssa.If)

				return ok && strings.HasPrefix(p.Facts(ifi.Cond, true)[0], "lt((phi(")
			}})
	}

	// ---------- R05.9 start-up list & mapping
	c.Rule("R05.9", "E1", "queue controllers: list + enqueue every primary input at start; every mapped pointer becomes a reconcile job", 5)

	if f := p.Method(pkgQRuntime, "Adapter", "Run"); c.NeedFunc("R05.9", f, "qruntime.Run") {
		g := ClosureWith(f, p.CallTo("(*"+pkgQRuntime+".Adapter).listPrimary"))
		if c.NeedFunc("R05.9", g, "qruntime.Run start-up list closure") {
			qp := p.ConstVal("pkg/controller", "InputQPrimary")
			c.MustCut("R05.9", "listPrimary ⊣ {Kind == QPrimary}", g, p.CallTo("(*"+pkgQRuntime+".Adapter).listPrimary"), CutSpec{Edges: FactEdge("eq(*.Kind," + qp + ")")}, 1)
			c.NoReach("R05.9", "a QPrimary input is listed before moving on", g, p.EdgeSuccs(g, "eq(*.Kind,"+qp+")"), 1, func(in ssa.Instruction) bool {
				ifi, ok := in.(*ssa.If)

				return ok && strings.HasPrefix(p.Facts(ifi.Cond, true)[0], "lt((phi(")
			}, CutSpec{Nodes: p.CallTo("(*" + pkgQRuntime + ".Adapter).listPrimary")})

			for _, call := range p.Calls(g, "(*"+pkgQRuntime+".Adapter).listPrimary") {
				a, b := p.ArgDesc(call, 2), p.ArgDesc(call, 3)
				c.Check(strings.HasSuffix(a, ".Namespace") && strings.HasSuffix(b, ".Type"), "R05.9", FuncName(g)+" :: lists the input's own (namespace, type)", call.Pos(), a+" / "+b, "lists "+a+" / "+b)
			}
		}
	}

	if f := p.Method(pkgQRuntime, "Adapter", "listPrimary"); c.NeedFunc("R05.9", f, "qruntime.listPrimary") {
		put := p.CallTo("(*" + pkgQueue + ".Queue[*]).Put")
		c.MustCut("R05.9", "return nil (listed) ⊣ {List ok}", f, ReturnsNilConst(0), CutSpec{Edges: FactEdge("nil(call:(*"+pkgCtrlState+".StateAdapter).List(*)#1)", "eq(select#0,const:0)")}, 1)

		puts := p.Calls(f, "(*"+pkgQueue+".Queue[*]).Put")
		items := p.Calls(f, pkgQRuntime+".NewQItem")
		ok := len(puts) == 1 && len(items) == 1 && strings.Contains(p.DescN(CallArgs(items[0])[0], 8), ".Items") && p.ArgDesc(items[0], 1) == p.ConstVal(pkgQRuntime, "QJobReconcile") &&
			(strings.Contains(p.DescN(CallArgs(puts[0])[1], 4), "var:"+pkgQRuntime+".QItem") || strings.Contains(p.DescN(CallArgs(puts[0])[1], 4), pkgQRuntime+".NewQItem("))
		c.Check(ok, "R05.9", FuncName(f)+" :: every listed item is Put as a reconcile job", fpos(f), "yes", "listed items are not all enqueued as reconcile jobs")
		// no path skips the Put inside the loop
		c.MustFollow("R05.9", "each NewQItem is Put before the next item", f, p.CallTo(pkgQRuntime+".NewQItem"), OrInstr(p.CallTo(pkgQRuntime+".NewQItem"), IsReturn), CutSpec{Nodes: put}, 1)
	}

	if f := p.Method(pkgQRuntime, "Adapter", "runOnce"); c.NeedFunc("R05.9", f, "qruntime.runOnce") {
		puts := p.Calls(f, "(*"+pkgQueue+".Queue[*]).Put")
		ok := len(puts) == 1
		c.Check(ok, "R05.9", FuncName(f)+" :: mapped pointers are Put", fpos(f), "1 Put site", fmt.Sprintf("%d Put sites", len(puts)))
		c.MustCut("R05.9", "mapped Put ⊣ {MapInput err == nil}", f, p.CallTo("(*"+pkgQueue+".Queue[*]).Put"), CutSpec{Edges: FactEdge("nil(*var:error)", "nil(*var:error#*)", "nil(call:(pkg/controller.QController).MapInput(*)#1)")}, 1)

		for _, call := range p.Calls(f, pkgQRuntime+".NewQItem") {
			c.Check(p.ArgDesc(call, 1) == p.ConstVal(pkgQRuntime, "QJobReconcile"), "R05.9", FuncName(f)+" :: a mapped pointer becomes a reconcile job", call.Pos(), "QJobReconcile", "job "+p.ArgDesc(call, 1))
		}
	}

	// ---------- R05.10 watch filter table under its mutex
	c.Rule("R05.10", "E2", "rruntime.Adapter.watchFilters (written by UpdateInputs, read by the runtime's event loop) only under watchFilterMu", 3)
	c.LocksetReport("R05.10", p.Lockset(LockSpec{Rel: pkgRRuntime, Struct: "Adapter", Mutex: "watchFilterMu", Guarded: []string{"watchFilters"}}, pkgRRuntime), nil)

	// ---------- R05.11 (shared with C17 R17.5)
	c.Import(runC17, "R17.5", "", "R05.11", "E1", "a rejected registration never reaches the dependency-database rollback of the controller that holds the name: its inputs stay registered, its wake-ups continue", 4)

}
