package lint

import (
	"fmt"
	"go/token"
	"sort"
	"strings"

	"golang.org/x/tools/go/ssa"
)

// ---------- E5 error discipline ----------
//
// Rule template: inside the packages a property is anchored in, the error result of a call never
// turns into a success of the enclosing function, except at the listed (package, callee) pairs and
// there only behind the listed error-class test. "Turns into success" means: from just after the
// call a `return …, nil` is reachable without passing
//   - the edge on which this error is nil,
//   - the same call again (a retry loop: the old error is replaced by the new attempt's),
//   - a call that never returns (panic helpers),
//   - a hand-over of the error into another error value (multierror.Append, errors.Join, fmt.Errorf),
//   - an edge on which an allowed class test of this error is true.
// The rows are the census of the pinned tree (cosilint -dump census), each confirmed by reading.

// ErrRow allows one way of turning an error into success.
type ErrRow struct {
	Pkg    string   // module-relative package the call is in
	Callee string   // glob on the callee name
	Allow  []string // fact templates, $E = the error value; "dropped" = may be ignored altogether; "site" = exempt, see Why
	Why    string
}

func (p *Program) neverReturns(call ssa.CallInstruction) bool {
	f := StaticOrClosureCallee(call)
	if f == nil || len(f.Blocks) == 0 {
		return false
	}

	for _, b := range f.Blocks {
		for _, in := range b.Instrs {
			if _, ok := in.(*ssa.Return); ok {
				return false
			}
		}
	}

	return true
}

var handOverGlobs = []string{"github.com/hashicorp/go-multierror.Append", "errors.Join", "fmt.Errorf", "go.uber.org/multierr.Append"}

// errDescs: the descriptions under which the error value of a call appears in edge facts: the value
// itself and loads of the locals it is stored in.
func (p *Program) errDescs(errVal ssa.Value) []string {
	out := []string{p.Desc(errVal)}

	if errVal.Referrers() != nil {
		for _, r := range *errVal.Referrers() {
			if st, ok := r.(*ssa.Store); ok && st.Val == errVal {
				out = append(out, "*"+p.Desc(st.Addr))
			}
		}
	}

	return out
}

func errResultOf(call *ssa.Call) (ssa.Value, int, bool) {
	sig := call.Common().Signature()
	n := sig.Results().Len()

	if n == 0 || !isErrorType(sig.Results().At(n-1).Type()) {
		return nil, n, false
	}

	if n == 1 {
		return call, n, true
	}

	if call.Referrers() != nil {
		for _, r := range *call.Referrers() {
			if ex, ok := r.(*ssa.Extract); ok && ex.Index == n-1 {
				return ex, n, true
			}
		}
	}

	return nil, n, true
}

// errorFate classifies what happens to the error result of call inside f: "" (it cannot become a
// success), "dropped" (never looked at) or "swallowed" (with a witness path).
func (p *Program) errorFate(f *ssa.Function, call *ssa.Call, allow []string) (string, []string) {
	errVal, n, isErr := errResultOf(call)
	if !isErr {
		return "", nil
	}

	if errVal == nil || errVal.Referrers() == nil || len(*errVal.Referrers()) == 0 {
		return "dropped", nil
	}

	fnRes := f.Signature.Results().Len()
	if fnRes == 0 || !isErrorType(f.Signature.Results().At(fnRes-1).Type()) {
		return "", nil
	}

	this := func(in ssa.Instruction) bool { return in == ssa.Instruction(call) }
	nilLoad := func(e EdgeInfo) bool {
		t, nilWhenTrue, ok := nilTest(e.Cond)
		if !ok || e.Taken != nilWhenTrue {
			return false
		}

		cl, idx := CallOf(t)

		return cl == ssa.CallInstruction(call) && (idx == -1 || idx == n-1)
	}

	var globs []string

	for _, d := range p.errDescs(errVal) {
		for _, a := range allow {
			if strings.Contains(a, "$E") {
				globs = append(globs, strings.ReplaceAll(a, "$E", d))
			}
		}
	}

	edges := OrEdge(NilEdgeOf(errVal), nilLoad)
	if len(globs) > 0 {
		edges = OrEdge(NilEdgeOf(errVal), nilLoad, FactEdge(globs...))
	}

	errDesc := p.Desc(errVal)
	sameErr := func(v ssa.Value) bool {
		v = stripIface(v)

		return v == errVal || Fwd(v) == errVal || p.Desc(v) == errDesc
	}

	nodes := func(in ssa.Instruction) bool {
		c, ok := in.(*ssa.Call)
		if !ok {
			return false
		}

		if c == call || p.neverReturns(c) {
			return true
		}

		if GlobAny(handOverGlobs, p.CalleeName(c)) {
			for _, a := range c.Call.Args {
				if sameErr(a) {
					return true
				}

				// variadic tail
				if sl, ok := a.(*ssa.Slice); ok {
					if al, ok := sl.X.(*ssa.Alloc); ok && al.Referrers() != nil {
						for _, r := range *al.Referrers() {
							ia, ok := r.(*ssa.IndexAddr)
							if !ok || ia.Referrers() == nil {
								continue
							}

							for _, rr := range *ia.Referrers() {
								if st, ok := rr.(*ssa.Store); ok && sameErr(st.Val) {
									return true
								}
							}
						}
					}
				}
			}
		}

		return false
	}

	if found, w := p.Reach(After(f, this), ReturnsNilConst(fnRes-1), CutSpec{Edges: edges, Nodes: nodes}); found {
		return "swallowed", w
	}

	return "", nil
}

func pkgOfFunc(f *ssa.Function) string {
	for f.Parent() != nil {
		f = f.Parent()
	}

	if f.Pkg != nil {
		return strings.TrimPrefix(f.Pkg.Pkg.Path(), Mod)
	}

	if o := f.Origin(); o != nil && o.Pkg != nil {
		return strings.TrimPrefix(o.Pkg.Pkg.Path(), Mod)
	}

	return ""
}

// ErrDiscipline states the rule for the given packages.
func (c *Ctx) ErrDiscipline(rule string, pkgs []string, rows []ErrRow) {
	p := c.P

	used := make([]int, len(rows))

	for _, rel := range pkgs {
		fs := p.PkgFuncs(rel)
		if len(fs) == 0 {
			c.Unknown(rule, rel+" :: error discipline", token.NoPos, "anchor-unresolved: package has no functions")

			continue
		}

		sites, clean := 0, 0

		var first token.Pos

		for _, f := range fs {
			for _, b := range f.Blocks {
				for _, in := range b.Instrs {
					call, ok := in.(*ssa.Call)
					if !ok {
						continue
					}

					if _, _, isErr := errResultOf(call); !isErr {
						continue
					}

					c.Touch(f)

					sites++

					if first == token.NoPos {
						first = call.Pos()
					}

					callee := p.CalleeName(call)

					var (
						allow []string
						hit   []int
					)

					for i, r := range rows {
						if r.Pkg == rel && Glob(r.Callee, callee) {
							allow = append(allow, r.Allow...)
							hit = append(hit, i)
						}
					}

					exempt, mayDrop := false, false

					for _, a := range allow {
						exempt = exempt || a == "site"
						mayDrop = mayDrop || a == "dropped"
					}

					if exempt {
						for _, i := range hit {
							used[i]++
						}

						continue
					}

					fate, w := p.errorFate(f, call, allow)

					if len(hit) > 0 {
						construct := rel + " :: error of " + callee + " becomes success only behind its listed class test"

						for _, i := range hit {
							used[i]++
						}

						switch {
						case fate == "swallowed":
							c.Bad(rule, construct, call.Pos(), "in "+FuncName(f)+" a success return is reachable on the error side outside the allowed class: "+strings.Join(w, " "))
						case fate == "dropped" && !mayDrop:
							c.Bad(rule, construct, call.Pos(), "in "+FuncName(f)+" the error is not looked at")
						default:
							c.OK(rule, construct, call.Pos(), "in "+FuncName(f)+": allowed "+strings.Join(allow, " | "))
						}

						continue
					}

					switch fate {
					case "swallowed":
						c.Bad(rule, rel+" :: error of "+callee+" never becomes success", call.Pos(), "in "+FuncName(f)+" a success return is reachable on the error side: "+strings.Join(w, " "))
					case "dropped":
						c.Bad(rule, rel+" :: error of "+callee+" is looked at", call.Pos(), "in "+FuncName(f)+" the error result is ignored")
					default:
						clean++
					}
				}
			}
		}

		c.OK(rule, rel+" :: every other error result is propagated, retried or handed over", first, fmt.Sprintf("%d of %d error-returning call sites need no row", clean, sites))
	}

	for i, r := range rows {
		if used[i] == 0 {
			c.Unknown(rule, r.Pkg+" :: error of "+r.Callee+" becomes success only behind its listed class test", token.NoPos, "anchor-unresolved: no call site matches this row any more")
		}
	}
}

// SwallowSite is one place where an error returned by a call does not reach the caller of the
// enclosing function as an error.
type SwallowSite struct {
	Func, Callee, Kind string
	Pos                string
	Witness            string
}

// SwallowCensus lists the swallow sites of the packages below the given module-relative prefixes.
func SwallowCensus(p *Program, prefixes ...string) []SwallowSite {
	var (
		out  []SwallowSite
		rels []string
	)

	for path := range p.SSAPkg {
		rel := strings.TrimPrefix(path, Mod)
		for _, pre := range prefixes {
			if strings.HasPrefix(rel, pre) {
				rels = append(rels, rel)
			}
		}
	}

	sort.Strings(rels)

	for _, rel := range rels {
		for _, f := range p.PkgFuncs(rel) {
			for _, b := range f.Blocks {
				for _, in := range b.Instrs {
					call, ok := in.(*ssa.Call)
					if !ok {
						continue
					}

					kind, w := p.errorFate(f, call, nil)
					if kind == "" {
						continue
					}

					out = append(out, SwallowSite{Func: FuncName(f), Callee: p.CalleeName(call), Kind: kind, Pos: p.Pos(call.Pos()), Witness: strings.Join(w, " ")})
				}
			}
		}
	}

	sort.Slice(out, func(i, j int) bool {
		if out[i].Func != out[j].Func {
			return out[i].Func < out[j].Func
		}

		return out[i].Callee < out[j].Callee
	})

	return out
}

// DumpCensus prints the census.
func DumpCensus(p *Program) {
	for _, s := range SwallowCensus(p, "pkg/") {
		fmt.Printf("%-9s %s <- %s  @%s\n    %s\n", s.Kind, s.Func, s.Callee, s.Pos, s.Witness)
	}
}
