package lint

import (
	"fmt"
	"go/token"
	"go/types"
	"sort"
	"strings"

	"golang.org/x/tools/go/ssa"
)

// ---------- E8 error discipline ----------
//
// Rule template: inside the packages a property is anchored in, the error result of a call never
// turns into a success of the enclosing function, except at the listed (package, callee) pairs and
// there only behind the listed error-class test. "Turns into success" means: from just after the
// call a `return …, nil` is reachable without passing
//   - the edge on which this error is nil,
//   - the same call again (a retry loop: the old error is replaced by the new attempt's),
//   - a call that never returns (panic helpers),
//   - a hand-over of the error into another error value (multierror.Append, errors.Join, fmt.Errorf),
//   - an edge on which an allowed class test of this error is true.
// The rows are the census of the pinned tree (cosilint -dump census), each confirmed by reading.

// ErrRow allows one way of turning an error into success.
type ErrRow struct {
	Pkg    string   // module-relative package the call is in
	Callee string   // glob on the callee name
	Allow  []string // fact templates, $E = the error value; "dropped" = may be ignored altogether; "site" = exempt, see Why
	Why    string
}

func (p *Program) neverReturns(call ssa.CallInstruction) bool {
	f := StaticOrClosureCallee(call)
	if f == nil || len(f.Blocks) == 0 {
		return false
	}

	for _, b := range f.Blocks {
		for _, in := range b.Instrs {
			if _, ok := in.(*ssa.Return); ok {
				return false
			}
		}
	}

	return true
}

var handOverGlobs = []string{"github.com/hashicorp/go-multierror.Append", "errors.Join", "fmt.Errorf", "go.uber.org/multierr.Append"}

// errDescs: the descriptions under which the error value of a call appears in edge facts: the value
// itself and loads of the locals it is stored in.
func (p *Program) errDescs(errVal ssa.Value) []string {
	out := []string{p.Desc(errVal)}

	if errVal.Referrers() != nil {
		for _, r := range *errVal.Referrers() {
			if st, ok := r.(*ssa.Store); ok && st.Val == errVal {
				out = append(out, "*"+p.Desc(st.Addr))
			}
		}
	}

	return out
}

func errResultOf(call *ssa.Call) (ssa.Value, int, bool) {
	sig := call.Common().Signature()
	n := sig.Results().Len()

	if n == 0 || !isErrorType(sig.Results().At(n-1).Type()) {
		return nil, n, false
	}

	if n == 1 {
		return call, n, true
	}

	if call.Referrers() != nil {
		for _, r := range *call.Referrers() {
			if ex, ok := r.(*ssa.Extract); ok && ex.Index == n-1 {
				return ex, n, true
			}
		}
	}

	return nil, n, true
}

// errorFate classifies what happens to the error result of call inside f: "" (it cannot become a
// success), "dropped" (never looked at) or "swallowed" (with a witness path).
func (p *Program) errorFate(f *ssa.Function, call *ssa.Call, allow []string) (string, []string) {
	errVal, n, isErr := errResultOf(call)
	if !isErr {
		return "", nil
	}

	if errVal == nil || errVal.Referrers() == nil || len(*errVal.Referrers()) == 0 {
		return "dropped", nil
	}

	fnRes := f.Signature.Results().Len()
	if fnRes == 0 || !isErrorType(f.Signature.Results().At(fnRes-1).Type()) {
		return "", nil
	}

	this := func(in ssa.Instruction) bool { return in == ssa.Instruction(call) }
	nilLoad := func(e EdgeInfo) bool {
		t, nilWhenTrue, ok := nilTest(e.Cond)
		if !ok || e.Taken != nilWhenTrue {
			return false
		}

		cl, idx := CallOf(t)

		return cl == ssa.CallInstruction(call) && (idx == -1 || idx == n-1)
	}

	var globs []string

	for _, d := range p.errDescs(errVal) {
		for _, a := range allow {
			if a != "site" && a != "dropped" {
				globs = append(globs, strings.ReplaceAll(a, "$E", d))
			}
		}
	}

	edges := OrEdge(NilEdgeOf(errVal), nilLoad)
	if len(globs) > 0 {
		edges = OrEdge(NilEdgeOf(errVal), nilLoad, FactEdge(globs...))
	}

	errDesc := p.Desc(errVal)
	homes := map[ssa.Value]bool{} // locals the error is assigned to

	for _, r := range *errVal.Referrers() {
		if st, ok := r.(*ssa.Store); ok && st.Val == errVal {
			homes[st.Addr] = true
		}
	}

	sameErr := func(v ssa.Value) bool {
		v = stripIface(v)
		if v == errVal || Fwd(v) == errVal || p.Desc(v) == errDesc {
			return true
		}

		ld, ok := v.(*ssa.UnOp)

		return ok && ld.Op == token.MUL && homes[ld.X]
	}

	nodes := func(in ssa.Instruction) bool {
		c, ok := in.(*ssa.Call)
		if !ok {
			return false
		}

		if c == call || p.neverReturns(c) {
			return true
		}

		if GlobAny(handOverGlobs, p.CalleeName(c)) {
			for _, a := range c.Call.Args {
				if sameErr(a) {
					return true
				}

				// variadic tail
				if sl, ok := a.(*ssa.Slice); ok {
					if al, ok := sl.X.(*ssa.Alloc); ok && al.Referrers() != nil {
						for _, r := range *al.Referrers() {
							ia, ok := r.(*ssa.IndexAddr)
							if !ok || ia.Referrers() == nil {
								continue
							}

							for _, rr := range *ia.Referrers() {
								if st, ok := rr.(*ssa.Store); ok && sameErr(st.Val) {
									return true
								}
							}
						}
					}
				}
			}
		}

		return false
	}

	if found, w := p.Reach(After(f, this), ReturnsNilConst(fnRes-1), CutSpec{Edges: edges, Nodes: nodes}); found {
		return "swallowed", w
	}

	return "", nil
}

func pkgOfFunc(f *ssa.Function) string {
	for f.Parent() != nil {
		f = f.Parent()
	}

	if f.Pkg != nil {
		return strings.TrimPrefix(f.Pkg.Pkg.Path(), Mod)
	}

	if o := f.Origin(); o != nil && o.Pkg != nil {
		return strings.TrimPrefix(o.Pkg.Pkg.Path(), Mod)
	}

	return ""
}

// ErrDiscipline states the rule for the given packages.
func (c *Ctx) ErrDiscipline(rule string, pkgs []string, rows []ErrRow) {
	p := c.P

	used := make([]int, len(rows))

	for _, rel := range pkgs {
		fs := p.PkgFuncs(rel)
		if len(fs) == 0 {
			c.Unknown(rule, rel+" :: error discipline", token.NoPos, "anchor-unresolved: package has no functions")

			continue
		}

		sites, clean := 0, 0

		var first token.Pos

		for _, f := range fs {
			for _, b := range f.Blocks {
				for _, in := range b.Instrs {
					call, ok := in.(*ssa.Call)
					if !ok {
						continue
					}

					if _, _, isErr := errResultOf(call); !isErr {
						continue
					}

					c.Touch(f)

					sites++

					if first == token.NoPos {
						first = call.Pos()
					}

					callee := p.CalleeName(call)

					var (
						allow []string
						hit   []int
					)

					for i, r := range rows {
						if r.Pkg == rel && Glob(r.Callee, callee) {
							allow = append(allow, r.Allow...)
							hit = append(hit, i)
						}
					}

					exempt, mayDrop := false, false

					for _, a := range allow {
						exempt = exempt || a == "site"
						mayDrop = mayDrop || a == "dropped"
					}

					if exempt {
						for _, i := range hit {
							used[i]++
						}

						continue
					}

					fate, w := p.errorFate(f, call, allow)

					if len(hit) > 0 {
						construct := rel + " :: error of " + callee + " becomes success only behind its listed class test"

						for _, i := range hit {
							used[i]++
						}

						switch {
						case fate == "swallowed":
							c.Bad(rule, construct, call.Pos(), "in "+FuncName(f)+" a success return is reachable on the error side outside the allowed class: "+strings.Join(w, " "))
						case fate == "dropped" && !mayDrop:
							c.Bad(rule, construct, call.Pos(), "in "+FuncName(f)+" the error is not looked at")
						default:
							c.OK(rule, construct, call.Pos(), "in "+FuncName(f)+": allowed "+strings.Join(allow, " | "))
						}

						continue
					}

					switch fate {
					case "swallowed":
						c.Bad(rule, rel+" :: error of "+callee+" never becomes success", call.Pos(), "in "+FuncName(f)+" a success return is reachable on the error side: "+strings.Join(w, " "))
					case "dropped":
						c.Bad(rule, rel+" :: error of "+callee+" is looked at", call.Pos(), "in "+FuncName(f)+" the error result is ignored")
					default:
						clean++
					}
				}
			}
		}

		c.OK(rule, rel+" :: every other error result is propagated, retried or handed over", first, fmt.Sprintf("%d of %d error-returning call sites need no row", clean, sites))
	}

	for i, r := range rows {
		if used[i] == 0 {
			c.Unknown(rule, r.Pkg+" :: error of "+r.Callee+" becomes success only behind its listed class test", token.NoPos, "anchor-unresolved: no call site matches this row any more")
		}
	}
}

// SwallowSite is one place where an error returned by a call does not reach the caller of the
// enclosing function as an error.
type SwallowSite struct {
	Func, Callee, Kind string
	Pos                string
	Witness            string
}

// SwallowCensus lists the swallow sites of the packages below the given module-relative prefixes.
func SwallowCensus(p *Program, prefixes ...string) []SwallowSite {
	var (
		out  []SwallowSite
		rels []string
	)

	for path := range p.SSAPkg {
		rel := strings.TrimPrefix(path, Mod)
		for _, pre := range prefixes {
			if strings.HasPrefix(rel, pre) {
				rels = append(rels, rel)
			}
		}
	}

	sort.Strings(rels)

	for _, rel := range rels {
		for _, f := range p.PkgFuncs(rel) {
			for _, b := range f.Blocks {
				for _, in := range b.Instrs {
					call, ok := in.(*ssa.Call)
					if !ok {
						continue
					}

					kind, w := p.errorFate(f, call, nil)
					if kind == "" {
						continue
					}

					out = append(out, SwallowSite{Func: FuncName(f), Callee: p.CalleeName(call), Kind: kind, Pos: p.Pos(call.Pos()), Witness: strings.Join(w, " ")})
				}
			}
		}
	}

	sort.Slice(out, func(i, j int) bool {
		if out[i].Func != out[j].Func {
			return out[i].Func < out[j].Func
		}

		return out[i].Callee < out[j].Callee
	})

	return out
}

// DumpCensus prints the census.
func DumpCensus(p *Program) {
	for _, s := range SwallowCensus(p, "pkg/") {
		fmt.Printf("%-9s %s <- %s  @%s\n    %s\n", s.Kind, s.Func, s.Callee, s.Pos, s.Witness)
	}
}

// ---------- failure atomicity census ----------

// receiverWrite selects instructions that change state reachable from the receiver (or a package
// global): map updates / deletes on maps loaded from fields, stores to fields of non-local structs.
func (p *Program) sharedWrite(f *ssa.Function) InstrPred {
	isShared := func(v ssa.Value) bool {
		d := p.Desc(v)

		return strings.Contains(d, "param#0") || strings.Contains(d, "global:")
	}

	return func(in ssa.Instruction) bool {
		switch x := in.(type) {
		case *ssa.MapUpdate:
			return isShared(x.Map)
		case *ssa.Call:
			if b, ok := x.Call.Value.(*ssa.Builtin); ok && b.Name() == "delete" {
				return isShared(x.Call.Args[0])
			}
		case *ssa.Store:
			if fa, ok := x.Addr.(*ssa.FieldAddr); ok {
				return isShared(fa.X)
			}
		}

		return false
	}
}

// DumpAtomicity prints, per function with an error result, the shared writes after which a failure
// return is reachable.
func DumpAtomicity(p *Program, prefixes ...string) {
	var rels []string

	for path := range p.SSAPkg {
		rel := strings.TrimPrefix(path, Mod)
		for _, pre := range prefixes {
			if strings.HasPrefix(rel, pre) && !strings.Contains(rel, "conformance") {
				rels = append(rels, rel)
			}
		}
	}

	sort.Strings(rels)

	for _, rel := range rels {
		for _, f := range p.PkgFuncs(rel) {
			n := f.Signature.Results().Len()
			if n == 0 || !isErrorType(f.Signature.Results().At(n-1).Type()) || f.Signature.Recv() == nil && f.Parent() == nil {
				continue
			}

			w := p.sharedWrite(f)

			for _, in := range Find(f, w) {
				this := func(i ssa.Instruction) bool { return i == in }
				if found, path := p.Reach(After(f, this), ReturnsNonNil(n-1), CutSpec{}); found {
					fmt.Printf("%s :: %s @%s\n    %s\n", FuncName(f), p.Pos(in.Pos()), in.String(), strings.Join(path, " "))
				}
			}
		}
	}
}

// FailureAtomicity: in the given packages, no method with an error result changes state reachable
// from its receiver (map update / delete on a field's map, store to a receiver field) and can still
// fail afterwards — a rejected operation leaves no trace. `allowed` lists fields (
// written field "Struct.field" → reason) where a write before a fallible step is part of the design. control is a
// package where such writes are known to exist on the pinned tree: the detector must find them on
// every run, otherwise the zero in the other packages means nothing.
func (c *Ctx) FailureAtomicity(rule string, pkgs []string, allowed map[string]string, control string, minControl int) {
	p := c.P

	sites := func(rel string, report bool) int {
		n := 0

		for _, f := range p.PkgFuncs(rel) {
			nr := f.Signature.Results().Len()
			if nr == 0 || !isErrorType(f.Signature.Results().At(nr-1).Type()) || f.Signature.Recv() == nil && f.Parent() == nil {
				continue
			}

			if report {
				c.Touch(f)
			}

			for _, in := range Find(f, p.sharedWrite(f)) {
				why := allowed[writtenField(in)]
				this := func(i ssa.Instruction) bool { return i == in }

				found, path := p.Reach(After(f, this), ReturnsNonNil(nr-1), CutSpec{})
				if !found {
					continue
				}

				n++

				if !report {
					continue
				}

				if why != "" {
					c.OK(rule, FuncName(f)+" :: state written before a fallible step (listed)", in.Pos(), why)
				} else {
					c.Bad(rule, FuncName(f)+" :: a failed call leaves no trace", in.Pos(), "state reachable from the receiver is written and the function can still fail afterwards: "+strings.Join(path, " "))
				}
			}
		}

		return n
	}

	for _, rel := range pkgs {
		if len(p.PkgFuncs(rel)) == 0 {
			c.Unknown(rule, rel+" :: failure atomicity", token.NoPos, "anchor-unresolved: package has no functions")

			continue
		}

		before := len(c.Obls)
		sites(rel, true)

		bad := false

		for _, o := range c.Obls[before:] {
			if o.Status != Discharged {
				bad = true
			}
		}

		if !bad {
			c.OK(rule, rel+" :: no method writes receiver state and fails afterwards (other than listed)", token.NoPos, "every method with an error result examined")
		}
	}

	n := sites(control, false)
	c.Check(n >= minControl, rule, "positive control: the detector finds the known write-then-fail sites of "+control, token.NoPos, fmt.Sprintf("%d sites", n), fmt.Sprintf("only %d sites found, expected >= %d: the detector no longer sees such writes", n, minControl))
}

// ---------- loop-carried state census ----------

// carriedPhis lists the joins at loop headers of f that carry a non-integer value from one iteration
// into the next (accumulators, cached objects, reused buffers), described by type.
func carriedPhis(f *ssa.Function) []*ssa.Phi {
	var out []*ssa.Phi

	for _, b := range f.Blocks {
		isHeader := false

		for _, pr := range b.Preds {
			if dominates(b, pr) {
				isHeader = true
			}
		}

		if !isHeader {
			continue
		}

		for _, in := range b.Instrs {
			ph, ok := in.(*ssa.Phi)
			if !ok {
				break
			}

			if bt, ok := ph.Type().Underlying().(*types.Basic); ok && bt.Info()&(types.IsInteger|types.IsBoolean) != 0 {
				continue
			}

			// carried: some back-edge operand differs from the phi itself and from the entry operand
			carried := false

			for i, pr := range b.Preds {
				if dominates(b, pr) && ph.Edges[i] != ssa.Value(ph) {
					carried = true
				}
			}

			if carried {
				out = append(out, ph)
			}
		}
	}

	return out
}

// DumpCarried prints the loop-carried census.
func DumpCarried(p *Program, prefixes ...string) {
	var rels []string

	for path := range p.SSAPkg {
		rel := strings.TrimPrefix(path, Mod)
		for _, pre := range prefixes {
			if strings.HasPrefix(rel, pre) && !strings.Contains(rel, "conformance") {
				rels = append(rels, rel)
			}
		}
	}

	sort.Strings(rels)

	for _, rel := range rels {
		for _, f := range p.PkgFuncs(rel) {
			for _, ph := range carriedPhis(f) {
				fmt.Printf("%s :: %s %s @%s\n", FuncName(f), ph.Comment, types.TypeString(ph.Type(), func(pk *types.Package) string { return pk.Name() }), p.Pos(ph.Pos()))
			}
		}
	}
}

// writtenField names the struct field a shared write goes to ("Struct.field"): the stored field, or the
// field holding the map that is updated.
func writtenField(in ssa.Instruction) string {
	fieldOfAddr := func(v ssa.Value) string {
		switch x := v.(type) {
		case *ssa.FieldAddr:
			sn, fn := FieldOf(x.X, x.Field)

			return sn + "." + fn
		case *ssa.UnOp:
			if fa, ok := x.X.(*ssa.FieldAddr); ok {
				sn, fn := FieldOf(fa.X, fa.Field)

				return sn + "." + fn
			}
		case *ssa.Field:
			sn, fn := FieldOf(x.X, x.Field)

			return sn + "." + fn
		}

		return ""
	}

	switch x := in.(type) {
	case *ssa.Store:
		return fieldOfAddr(x.Addr)
	case *ssa.MapUpdate:
		return fieldOfAddr(x.Map)
	case *ssa.Call:
		if len(x.Call.Args) > 0 {
			return fieldOfAddr(x.Call.Args[0])
		}
	}

	return ""
}
