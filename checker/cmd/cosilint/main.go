// Command cosilint decides the structural obligations of the cosi-project/runtime properties by
// static analysis of /repo's current working tree.
package main

import (
	"encoding/json"
	"flag"
	"fmt"
	"os"
	"path/filepath"
	"runtime/debug"
	"sort"
	"strconv"
	"strings"
	"time"

	"cosilint/lint"
)

func main() {
	repo := flag.String("repo", "/repo", "repository root to analyse")
	verif := flag.String("verif", "/verif", "verification directory (evidence, known findings)")
	prop := flag.String("prop", "all", "property id (C01..C20), comma list, or all")
	tier := flag.String("tier", "quick", "quick or thorough")
	overlay := flag.String("overlay", "", "self-test only: JSON [file,old,new] replacement applied in memory")
	overlayDir := flag.String("overlay-dir", "", "self-test only: directory mirroring /repo whose .go files replace the tree's in memory")
	noEvidence := flag.Bool("no-evidence", false, "do not write evidence/replay files (used for mutant self-tests)")
	dump := flag.String("dump", "", "debug: dump SSA of functions whose name contains this string")
	only := flag.String("only", "", "replay: print only obligations whose rule|construct contains this string")
	verbose := flag.Bool("v", false, "print every obligation")
	genAnchors := flag.Bool("gen-anchors", false, "maintenance: print the anchor table (functions rules refer to by name) as Go source")
	noInline := flag.Bool("no-inline", false, "debug: skip the inlining normal form")
	flag.Parse()

	t0 := time.Now()

	seed, _ := strconv.ParseInt(os.Getenv("VERIF_SEED"), 10, 64)

	var ov map[string][]byte

	if *overlay != "" {
		// JSON array ["file","old","new"]
		var parts []string
		if err := json.Unmarshal([]byte(*overlay), &parts); err != nil || len(parts) != 3 {
			fatal("bad -overlay (want JSON [file,old,new])")
		}

		path := parts[0]
		if !filepath.IsAbs(path) {
			path = filepath.Join(*repo, path)
		}

		src, err := os.ReadFile(path)
		if err != nil {
			fatal(err.Error())
		}

		if strings.Count(string(src), parts[1]) != 1 {
			fmt.Println("MUTANT-SKIPPED anchor does not match exactly once in", path)
			os.Exit(3)
		}

		ov = map[string][]byte{path: []byte(strings.Replace(string(src), parts[1], parts[2], 1))}
	}

	if *overlayDir != "" {
		ov = map[string][]byte{}

		err := filepath.Walk(*overlayDir, func(path string, info os.FileInfo, err error) error {
			if err != nil || info.IsDir() || !strings.HasSuffix(path, ".go") {
				return err
			}

			rel, _ := filepath.Rel(*overlayDir, path)

			b, err := os.ReadFile(path)
			if err != nil {
				return err
			}

			ov[filepath.Join(*repo, rel)] = b

			return nil
		})
		if err != nil {
			fatal(err.Error())
		}
	}

	props := lint.Properties()

	var ids []string

	if *prop == "all" {
		for id := range props {
			ids = append(ids, id)
		}

		sort.Strings(ids)
	} else {
		ids = strings.Split(*prop, ",")
	}

	for _, id := range ids {
		if _, ok := props[id]; !ok {
			fatal("unknown property " + id)
		}
	}

	prog, err := lint.Load(*repo, ov, false)
	if err != nil {
		// a tree that does not load cannot be judged: fail every requested property loudly
		for _, id := range ids {
			fmt.Printf("UNDECIDED property=%s: %v\n", id, err)
			fmt.Printf("VIOLATION property=%s replay=evidence/replay/%s-load.json\n", id, id)
		}

		os.Exit(1)
	}

	if *genAnchors {
		lint.GenAnchors(prog, os.Stdout)

		return
	}

	if !*noInline {
		prog.Normalize()
	}

	if strings.HasPrefix(*dump, "chain:") {
		lint.DebugChain(prog, strings.TrimPrefix(*dump, "chain:")) // debug-chain

		return
	}

	if *dump == "carried" {
		lint.DumpCarried(prog, "pkg/")

		return
	}

	if *dump == "atomicity" {
		lint.DumpAtomicity(prog, "pkg/")

		return
	}

	if *dump == "census" {
		lint.DumpCensus(prog)

		return
	}

	if *dump == "inline-stats" {
		lint.DumpInline(prog)

		return
	}

	if *dump != "" {
		lint.Dump(prog, *dump)

		return
	}

	findings, err := lint.LoadFindings(filepath.Join(*verif, "known_findings.json"))
	if err != nil {
		fatal("known_findings.json: " + err.Error())
	}

	exit := 0

	for _, id := range ids {
		info := props[id]
		tp := time.Now()
		ctx := lint.NewCtx(prog, id)

		func() {
			defer func() {
				if r := recover(); r != nil {
					ctx.Unknown("engine", "analysis-panic", 0, fmt.Sprintf("%v\n%s", r, debug.Stack()))
				}
			}()

			info.Run(ctx)
		}()

		extra := map[string]any{}
		if !*noInline {
			extra["normal_form"] = map[string]any{
				"what": "IR rewrites applied before the rules run (inline.go, pathsense.go): calls to unexported same-package helpers that no rule names, to " +
					"slices.Contains/ContainsFunc/Index/IndexFunc and to function literals passed to those are replaced by the callee's blocks; " +
					"locals are named by type; reachability is path-sensitive on SSA value identity",
				"call_sites_inlined":    prog.Inline.Sites,
				"functions_rewritten":   prog.Inline.Functions,
				"helpers_inlined":       prog.Inline.Callees,
				"helpers_kept_as_calls": prog.Inline.Skipped,
				"anchors_found_renamed": prog.Renames,
			}
		}

		res := ctx.Finish(info, *tier, seed, findings, *verif, tp.Add(-prog.LoadDur), extra, !*noEvidence)

		fmt.Printf("== %s: %d obligations, %d violations, %d known findings (%s tier)\n", id, len(ctx.Obls), res.Violations, res.Known, *tier)

		if *verbose {
			for _, o := range ctx.Obls {
				fmt.Printf("    %-10s %-7s %s  [%s] %s\n", o.Status, o.Rule, o.Construct, o.Pos, o.Detail)
			}
		}

		for _, l := range res.Lines {
			if *only != "" && !strings.Contains(l, *only) {
				continue
			}

			fmt.Println(l)
		}

		if res.Violations > 0 {
			exit = 1
		}
	}

	for _, l := range prog.StaleAnchors() {
		fmt.Printf("UNDECIDED engine: %s\n", l)

		for _, id := range ids {
			fmt.Printf("VIOLATION property=%s replay=evidence/replay/%s-anchors.json\n", id, id)
		}

		exit = 1
	}

	for _, r := range prog.Renames {
		fmt.Printf("-- anchor found under a new name (same package, receiver and signature): %s\n", r)
	}

	fmt.Printf("-- normal form: %d call sites inlined in %d functions (%d helpers)\n", prog.Inline.Sites, prog.Inline.Functions, len(prog.Inline.Callees))
	fmt.Printf("-- %d properties, load %.1fs, total %.1fs\n", len(ids), prog.LoadDur.Seconds(), time.Since(t0).Seconds())
	os.Exit(exit)
}

func fatal(msg string) {
	fmt.Fprintln(os.Stderr, "cosilint:", msg)
	os.Exit(2)
}
