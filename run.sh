#!/bin/bash
# Usage: ./run.sh <Cxx|all> [quick|thorough]     -- decide a property on /repo's current working tree
#        ./run.sh replay <evidence/replay/file.json> -- re-evaluate the obligation recorded in a replay file
# Static analysis only: /repo is loaded and type-checked, never executed.
set -u
cd "$(dirname "$0")"
export GOTOOLCHAIN=local GOFLAGS=-mod=mod GOPROXY=off GOWORK=off
export PATH=/opt/veriftools/go1.26.8/bin:$PATH
REPO=${VERIF_REPO:-/repo}

build() {
  if [ ! -x bin/cosilint ] || [ -n "$(find checker -newer bin/cosilint -name '*.go' -print -quit 2>/dev/null)" ]; then
    (cd checker && go build -o ../bin/cosilint ./cmd/cosilint) || { echo "cosilint build failed" >&2; exit 2; }
  fi
}

case "${1:-}" in
  replay)
    build
    f=${2:?replay file}
    prop=$(python3 -c "import json,sys; print(json.load(open(sys.argv[1]))['property'])" "$f") || exit 2
    key=$(python3 -c "import json,sys; o=json.load(open(sys.argv[1]))['obligation']; print(o['rule'])" "$f")
    exec bin/cosilint -repo "$REPO" -verif "$PWD" -prop "$prop" -tier quick -no-evidence -only "$key"
    ;;
  "" ) echo "usage: $0 <Cxx|all> [quick|thorough] | replay <file>" >&2; exit 2 ;;
  *)
    build
    prop=$1; tier=${2:-${VERIF_TIER:-quick}}
    if [ "$tier" = thorough ]; then
      exec python3 thorough.py "$prop" "$REPO"
    fi
    exec bin/cosilint -repo "$REPO" -verif "$PWD" -prop "$prop" -tier "$tier"
    ;;
esac
