#!/usr/bin/env python3
"""Regenerates MANIFEST.json from the table below (kept next to the rules so both change together)."""
import json, subprocess, sys

SETUP = ("cd /verif/checker && GOTOOLCHAIN=local GOFLAGS=-mod=mod GOPROXY=off GOWORK=off "
         "PATH=/opt/veriftools/go1.26.8/bin:$PATH go build -o ../bin/cosilint ./cmd/cosilint")

TRUST = ("Trusted: go/types + go/ssa of x/tools v0.50.0 (the program model), the rule tables in /verif/checker/lint, "
         "and the named assumptions in the evidence file. Paths are over-approximated (no feasibility check). "
         "Third-party libraries (bbolt, gRPC, protobuf-go, OpenPGP, zstd, backoff) are not analysed.")

# properties that also carry the error-discipline / failure-atomicity rules (engine E8)
E8 = {p: " + error-discipline census (an error result becomes success only behind a listed class test)" for p in
      ("C01", "C04", "C06", "C07", "C08", "C10", "C11", "C15", "C16", "C17", "C18", "C20")}
for p in ("C01", "C15", "C17", "C20"):
    E8[p] += " + failure-atomicity scan (no receiver-state write before a failure return)"

# id -> (technique, level text, design ref)
CLAIMS = {
    "C01": ("lockset (guarded-by) analysis + path-cut guard chains + value provenance + type-level error tables + delegation shape",
            "Decides per-operation atomicity (one critical section of the collection mutex at every access site), the precondition set and "
            "its precedence before any effect, failed => untouched, the stated effects (version +1 / 1, creation time kept, deep copy stored, "
            "published and persisted), classifiability of every error type, and transparency of every CoreState wrapper. "
            "Full sequential correctness and cross-process real-time order are not decided.", "§3 C01"),
    "C10": ("write-ahead path-cut on go/ssa + transaction-shape and error-propagation checks over the bolt store + load-gate cut",
            "Decides, for every failure position, that memory/watchers never observe a write the backing store rejected and that an acknowledged "
            "write went through one bbolt Update transaction first; that loading is gated and flagged only on success. "
            "bbolt's own crash atomicity and reload equality are trusted / not decided.", "§3 C10"),
    "C14": ("operator-table extraction and round-trip agreement + who-may-interpret + decision-table cuts (path-sensitive on the operator) on the rewrite and matcher code",
            "Decides that the operator tables (evaluator, client and server translators) are exhaustive and compose to the identity, that "
            "selector terms are interpreted in one place and every filtered view (List, kind-watch bootstrap and live, cache list) keeps an item "
            "only via both predicates on that item, the Updated-event rewrite table row by row, and the combinator / indeterminate / "
            "value-less / missing-label cases of the evaluator. The algebra over all label maps and histories is not decided.", "§3 C14"),
    "C15": ("lockset on the cache handler + path-cut on the bootstrap gate, cache-before-notify order and waiter pairing",
            "Decides that cached reads wait for the bootstrap channel, that the cache is updated before the notification entry of the same "
            "event, the append-only/silent bootstrap phase, lock discipline, copies out, and the teardown-waiter protocol (close/delete "
            "pairing, no overwrite, immediate cancel). Monotonicity under schedules and equality at quiescence are not decided.", "§3 C15"),
    "C20": ("lockset (incl. helpers must not release the caller's lock) + guard/seal/verify path-cuts on the key storage",
            "Decides lock discipline, the three mutation guards (zero storage / absent slot / more than one slot, each with a recovered key), "
            "re-sealing with the verified key after every mutation, and that a key leaves getKey only through an unconditional constant-time "
            "HMAC verification after version/presence/algorithm checks; canonical hash order. OpenPGP/HMAC semantics are trusted.", "§3 C20"),
    "C16": ("recover-fence and restart-loop path-cuts + who-may-spawn + blocking-operation scan",
            "Decides that every piece of user code runs below a deferred function that itself calls recover() and reports the panic, that the "
            "restart loops end only on success or cancellation and take a backoff + cancellable wait (+ re-trigger) in between, that a failing "
            "queue item cannot leave the worker loop and is always released, that a failed watch reaches Run as an error and stops event "
            "processing, that Run cancels and waits for its errgroup before returning, that no goroutine escapes the group and every blocking "
            "channel operation has a done arm. Backoff growth and convergence after faults are not decided.", "§3 C16"),
    "C17": ("lockset on the dependency database + conflict-guard path-cuts + key-literal agreement + table exhaustiveness + rollback shape",
            "Decides that exclusive/shared claims are written only behind their conflict guards, that inputs are inserted only without an "
            "equal-key neighbour, that all lookup keys are built from one input's own (namespace,type,id), that notifications get a fresh "
            "slice, the export table, and that a rejected registration is rolled back exactly on the constructor-failure path and that "
            "delivery is nil-safe. The sorted-merge algorithm of UpdateInputs is not decided.", "§3 C17"),
    "C18": ("writer/reader table and constant agreement + decoder bounds (guard normal forms) + error-propagation and AEAD-discipline path-cuts",
            "Claims only the structural necessary conditions of the codec property: inverse text tables, equal key/field sets on both sides, "
            "agreeing framing constants, length guards in front of every constant access to input bytes, panics confined to a converting "
            "recover, every layer propagating the inner error, AEAD nonce/Open/version discipline, and no aliasing of compressor state. "
            "decode(encode(x)) == x for all inputs and totality of third-party decoders are NOT decided.", "§3 C18"),
    "C19": ("value provenance (fresh-copy) analysis on go/ssa + copy-on-write path-cut + who-may-write for raw maps",
            "Decides that nothing but DeepCopy results enters or leaves the store and the read cache, that every in-place write of the "
            "copy-on-write metadata containers targets storage created in the same call, that the module's DeepCopy implementations copy "
            "their mutable parts, and that raw maps are never written. DeepCopy of user spec types is the user's obligation.", "§3 C19"),
    "C02": ("lockset + guard-normal-form (linear atoms) path-cut on the ring-buffer reader/writer code",
            "Decides the ring-buffer protocol: publish shape, first-lap-only growth, atomic snapshot+position, an overrun guard with normal "
            "form writePos-pos<=capacity in front of every slot read in the same critical section, terminal Errored on overrun, "
            "reader/writer index agreement, wait-loop discipline, ID filter and event contents. Exactly-once in-order DELIVERY for all "
            "consumer speeds and 'replay == state' are not decided.", "§3 C02"),
    "C11": ("table extraction and agreement (status codes, event types, option fields) + wire-taint sink rules + delegation shape + sticky-flag path-cuts",
            "Decides that error classes survive the wire (server class->code and client code->class tables compose to the identity per RPC), "
            "that no request can crash a handler through a nil sub-message, an unguarded index, an unchecked assertion or an explicit panic, "
            "that every option the client sends is read and forwarded 1:1, the metadata write-back, the sticky capability fallback and the "
            "event-type tables. Observational equivalence on arbitrary sequences is not decided.", "§3 C11"),
    "C13": ("path-cut on the client's receive/retry helper + field-coverage agreement between initial and resume requests",
            "Decides the resume mechanism: the re-established watch clears bootstrap/tail, starts from the last recorded bookmark and carries "
            "every other field of the initial request; retries happen only with a bookmark and end loudly on an invalid bookmark, exhausted "
            "backoff or a done context; bookmarks are recorded per event before delivery; errors are terminal; batches are delivered whole. "
            "Equality with the server's log over all fault sequences is not decided.", "§3 C13"),
    "C12": ("table/constant agreement of the bookmark codec + guard-normal-form path-cut on the range and tail guards",
            "Decides codec agreement and bounds, that a bookmark is accepted only inside the stated window (exact linear normal forms, so "
            "an off-by-one or a dropped gap is a violation) and rejected with the invalid-bookmark class before any goroutine exists, that "
            "every event gets the bookmark of its own position, the tail bounds and option exclusivity, and that no snapshot is re-sent on "
            "resume. Equality of resumed and original streams over all histories is not decided.", "§3 C12"),
    "C03": ("path-cut + lockset on the store's Destroy/Watch, decision-table cuts on the blocking helpers, value provenance of the ready flag",
            "Decides that removal is gated by an empty finalizer set inside the collection's critical section, that a plain watch captures "
            "and sends the current state atomically with its start position (the mechanism behind 'no missed wake-up'), the event decision "
            "tables of waitFinalizersEmpty / ContextWithTeardown, the control shape of TeardownAndDestroy and that Teardown's ready flag "
            "comes from the committed update. Liveness ('always completes') is not decided.", "§3 C03"),
    "C04": ("path-cut on the retry loop + value provenance of the mutated copy + option-table checks",
            "Decides the mechanism that makes the helpers atomic: mutate a deep copy of the value just read, submit and return exactly "
            "it, retry only on a plain version conflict after re-reading, test the expected phase before anything else, never report an "
            "error after a successful write. Serializability as a whole follows with C01's version token and is argued, not mechanised.", "§3 C04"),
    "C05": ("path-cut / typestate checks on the wake-up pipeline + routing-table extraction (necessary structure only)",
            "Liveness is NOT decided. Decides the structure every wake-up depends on: watches before controllers, a watch for every added "
            "input, no event class silently skipped, the single dedup map parked only when empty and never used after hand-off, every "
            "dependent triggered, a capacity-1 non-blocking reconcile signal raised from every source, destroy-ready filter bookkeeping, the "
            "queue routing table and the start-up listing of primaries.", "§3 C05"),
    "C06": ("declared-input table checks + path-cut bookkeeping rules + error-use and conflict-scope checks (necessary structure only)",
            "Convergence is NOT decided. Decides what convergence depends on: the feedback inputs are declared, outputs are marked touched "
            "before being written, cleanup reaches every untouched or tearing-down owned output, finalizer release does not depend on an "
            "output being destroyed in the same cycle, runtime errors are never dropped, conflict-skips are scoped to the primary output, and "
            "a failed cycle is returned as an error so that the runtime retries it.", "§3 C06"),
    "C09": ("confinement (who-may-access) + per-select-arm path-cuts + guard normal forms on the queue containers (necessary structure only)",
            "Interleavings and time are NOT decided. Decides that the queue's state is confined to one goroutine, and arm by arm the "
            "discipline the property's sentences rest on: hand-out (ready key only; on-hold, pop, length), put (park vs push), release "
            "(un-hold, requeue without overwrite, re-push parked value), one hand-back per item, backoff table, length pairing, readiness "
            "guard and Push's update/early-return order.", "§3 C09"),
    "C07": ("path-cut (must-precede) analysis on go/ssa control-flow graphs",
            "Decides, for every path of every generic controller's reconcile code, the write-order clauses of the property "
            "(finalizer before output, destroy only when ready/empty, finalizer released only after destroy/handler success) "
            "plus the store-level finalizer guard. Orders across reconciles are not decided.", "§3 C07"),
    "C08": ("guard-before-delegate path-cut on go/ssa + who-may-access over the resolved program + value provenance of owner options",
            "Decides the access-control shape: every delegated read/write/finalizer call of the controller-facing adapter is behind the "
            "matching guard on the same target, the guards accept only through the comparisons the property names, the adapters expose "
            "nothing but those guarded methods to user callbacks, and owned.State stamps/checks the controller's own name as owner. "
            "Loop logic inside the guards beyond accepting-path comparisons is not decided.", "§3 C08"),
}

# properties not (yet) claimed: id -> reason
NOT_APPLICABLE = {}

ALL = ["C%02d" % i for i in range(1, 21)]


def main():
    checks = []
    for pid in ALL:
        if pid not in CLAIMS:
            continue
        tech, text, ref = CLAIMS[pid]
        checks.append({
            "property_id": pid,
            "quick_cmd": "./run.sh %s quick" % pid,
            "thorough_cmd": "./run.sh %s thorough" % pid,
            "evidence_file": "/verif/evidence/%s.json" % pid,
            "replay_cmd_template": "./run.sh replay {path}",
            "engine": "cosilint",
            "level_claimed": {"category": "other", "text": text, "design_ref": "DESIGN.md " + ref},
            "level_note": TRUST,
            "technique": "static analysis: " + tech + E8.get(pid, "") + " (evaluated on go/ssa after helper inlining; reachability is path-sensitive on SSA value identity, no solver)",
        })
    na = []
    for pid in ALL:
        if pid in CLAIMS:
            continue
        na.append({"property_id": pid, "reason": NOT_APPLICABLE.get(pid, "no check registered in this commit (rules under construction); nothing is claimed")})
    m = {
        "version": 1,
        "setup_cmd": SETUP,
        "hooks": {
            "guard": "verif",
            "enable": "none needed: the checker reads /repo's working tree as it is (no instrumentation, no guarded source)",
            "baseline_off_cmd": "cd /repo && GOTOOLCHAIN=local GOFLAGS=-mod=mod GOPROXY=off PATH=/opt/veriftools/go1.26.8/bin:$PATH go test -vet=off -count=1 -timeout 25m ./...",
            "source_commits": [],
            "add_only": True,
        },
        "engines": [{
            "name": "cosilint",
            "path": "checker/",
            "serves_properties": sorted(CLAIMS),
            "kind_free_text": "repository-specific static analyser (go/packages + go/ssa): path-cut reachability, lockset, value provenance/taint, table agreement, who-may-access, guard normal forms, error-discipline census",
        }],
        "checks": checks,
        "not_applicable": na,
        "notes": "All verdicts come from static analysis of /repo's current source; nothing in /repo is executed. "
                 "Genuine defects found and repaired are listed in known_findings.json (status=fixed) and DESIGN.md §4.",
    }
    json.dump(m, open("/verif/MANIFEST.json", "w"), indent=1)
    print("wrote MANIFEST.json: %d checks, %d not_applicable" % (len(checks), len(na)))


if __name__ == "__main__":
    main()
