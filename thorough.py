#!/usr/bin/env python3
"""Thorough tier for one property (or all).

1. Runs the property's rules on /repo's current tree. This is the verdict (same rules as the quick
   tier; what the thorough tier adds is steps 2 and 3, which measure the checker, not the tree).
2. Self-test of the checker, detection side (never part of the verdict about /repo): replays the
   mutant corpus (mutants/*.json: anchored in-memory edits; seeded/*/patch.diff: independently
   written breaking changes) through packages.Config.Overlay -- nothing is written under /repo --
   and records which rule reported which mutant (kill matrix) in the evidence file. A mutant whose
   anchor no longer matches the current tree is skipped and reported as skipped.
3. Self-test of the checker, false-alarm side: replays refactors/*/patch.diff (independently
   written behaviour-preserving refactorings) the same way; every rule must stay silent.

Exit status and VIOLATION lines come from step 1 only.
"""
import glob, json, os, re, shutil, subprocess, sys, tempfile, time
from concurrent.futures import ThreadPoolExecutor

FULL_REFACTOR_CORPUS = False  # set by main() for `all`

VERIF = os.path.dirname(os.path.abspath(__file__))
BIN = os.path.join(VERIF, "bin", "cosilint")


def run(cmd, **kw):
    return subprocess.run(cmd, stdout=subprocess.PIPE, stderr=subprocess.STDOUT, text=True, **kw)


def corpus_for(prop):
    out = []
    for f in sorted(glob.glob(os.path.join(VERIF, "mutants", "*.json"))):
        for m in json.load(open(f)):
            if prop in m.get("properties", [m.get("property")]):
                out.append(("anchored", m))
    for d in sorted(glob.glob(os.path.join(VERIF, "seeded", "*"))):
        meta = os.path.join(d, "meta.json")
        patch = os.path.join(d, "patch.diff")
        if os.path.exists(meta) and os.path.exists(patch):
            m = json.load(open(meta))
            props = m.get("properties") or [m.get("property")]
            if prop in props:
                out.append(("seeded", {"id": os.path.basename(d), "patch": patch, "note": m.get("needs", "")}))
    return out


def refactors_for(prop):
    """Behaviour-preserving refactorings (refactors/<id>/patch.diff): every check must stay silent on them."""
    out = []
    relevant = None
    if prop is not None and not FULL_REFACTOR_CORPUS:
        try:
            relevant = set(json.load(open(os.path.join(VERIF, "refactors", "relevance.json")))["relevant"][prop])
        except Exception:
            relevant = None
    for d in sorted(glob.glob(os.path.join(VERIF, "refactors", "*"))):
        patch = os.path.join(d, "patch.diff")
        meta = os.path.join(d, "meta.json")
        if not os.path.exists(patch):
            continue
        # a single-property run applies the refactorings that touch a package the property has obligations in
        # (refactors/relevance.json, regenerated with tools/refactor_relevance.py); `all` applies every one of them
        if relevant is not None and os.path.basename(d) not in relevant:
            continue
        props = None
        if os.path.exists(meta):
            props = json.load(open(meta)).get("properties")
        if props is None or prop is None or prop in props:
            out.append({"id": os.path.basename(d), "patch": patch})
    return out


def run_refactor(repo, props, m):
    """Runs the rules of the given properties (list) on one refactoring; returns {prop: result}."""
    tmp = overlay_dir_for_patch(repo, m["patch"])
    if tmp is None:
        return {p: {"id": m["id"], "status": "skipped", "why": "patch does not apply to the current tree"} for p in props}
    try:
        r = run([BIN, "-repo", repo, "-verif", VERIF, "-prop", ",".join(props), "-tier", "quick", "-no-evidence", "-overlay-dir", tmp])
    finally:
        shutil.rmtree(tmp, ignore_errors=True)
    if "UNDECIDED property=" in r.stdout:
        why = "does not type-check: " + r.stdout.strip().splitlines()[0][:160]
        return {p: {"id": m["id"], "status": "skipped", "why": why} for p in props}
    out = {}
    cur = None
    per = {p: set() for p in props}
    for line in r.stdout.splitlines():
        h = re.match(r"^== (C\d\d):", line)
        if h:
            cur = h.group(1)
            continue
        a = re.match(r"^(?:VIOLATED|UNDECIDED) rule=(\S+) construct=\"([^\"]*)\"", line)
        if a and cur in per:
            per[cur].add((a.group(1), a.group(2)))
        if line.startswith("UNDECIDED engine:"):
            for p in props:
                per[p].add(("engine", line[len("UNDECIDED engine: "):][:120]))
    for p in props:
        alarms = sorted(per[p])
        out[p] = {"id": m["id"], "status": "alarm" if alarms else "silent", "alarms": [list(a) for a in alarms]}
    return out


def overlay_dir_for_patch(repo, patch):
    """Applies patch to copies of the files it touches; returns dir or None if it does not apply."""
    tmp = tempfile.mkdtemp(prefix="cosilint-ov-")
    files = set()
    for line in open(patch):
        m = re.match(r"^(?:---|\+\+\+) [ab]/(\S+)", line)
        if m:
            files.add(m.group(1))
    for f in files:
        src = os.path.join(repo, f)
        if os.path.exists(src):
            os.makedirs(os.path.dirname(os.path.join(tmp, f)), exist_ok=True)
            shutil.copy(src, os.path.join(tmp, f))
    r = run(["patch", "-p1", "-s", "-f", "-d", tmp, "-i", patch])
    if r.returncode != 0:
        shutil.rmtree(tmp, ignore_errors=True)
        return None
    # only .go non-test files matter for the overlay
    return tmp


def run_mutant(repo, prop, kind, m):
    base = [BIN, "-repo", repo, "-verif", VERIF, "-prop", prop, "-tier", "quick", "-no-evidence"]
    tmp = None
    if kind == "anchored":
        cmd = base + ["-overlay", json.dumps([m["file"], m["old"], m["new"]])]
    else:
        tmp = overlay_dir_for_patch(repo, m["patch"])
        if tmp is None:
            return {"id": m["id"], "kind": kind, "status": "skipped", "why": "patch does not apply to the current tree"}
        cmd = base + ["-overlay-dir", tmp]
    try:
        r = run(cmd)
    finally:
        if tmp:
            shutil.rmtree(tmp, ignore_errors=True)
    if r.returncode == 3 or "MUTANT-SKIPPED" in r.stdout:
        return {"id": m["id"], "kind": kind, "status": "skipped", "why": "anchor does not match the current tree"}
    rules = sorted(set(re.findall(r"^(?:VIOLATED|UNDECIDED) rule=(\S+)", r.stdout, re.M)))
    if "UNDECIDED property=" in r.stdout:
        return {"id": m["id"], "kind": kind, "status": "invalid", "why": "mutant does not type-check: " + r.stdout.strip().splitlines()[0][:200]}
    res = {"id": m["id"], "kind": kind, "status": "killed" if rules else "survived", "rules": rules}
    if m.get("expect_rule") and rules and m["expect_rule"] not in rules:
        res["note"] = "killed by another rule than expected (%s)" % m["expect_rule"]
    return res


def one(prop, repo, ref_cache=None):
    t0 = time.time()
    r = run([BIN, "-repo", repo, "-verif", VERIF, "-prop", prop, "-tier", "thorough"])
    sys.stdout.write(r.stdout)
    verdict = r.returncode
    ev_path = os.path.join(VERIF, "evidence", prop + ".json")
    corpus = corpus_for(prop)
    results = []
    if corpus:
        with ThreadPoolExecutor(max_workers=6) as ex:
            results = list(ex.map(lambda km: run_mutant(repo, prop, km[0], km[1]), corpus))
    killed = [x for x in results if x["status"] == "killed"]
    survived = [x for x in results if x["status"] == "survived"]
    skipped = [x for x in results if x["status"] in ("skipped", "invalid")]
    print("-- checker self-test for %s: %d mutants applied, %d killed, %d survived, %d skipped" % (
        prop, len(killed) + len(survived), len(killed), len(survived), len(skipped)))
    for x in survived:
        print("   SELFTEST-SURVIVED %s (%s): the rules do not see this change" % (x["id"], x["kind"]))
    if ref_cache is not None:
        ref_results = [ref_cache[m["id"]][prop] for m in refactors_for(prop) if m["id"] in ref_cache]
    else:
        refs = refactors_for(prop)
        ref_results = []
        if refs:
            with ThreadPoolExecutor(max_workers=6) as ex:
                ref_results = [r[prop] for r in ex.map(lambda m: run_refactor(repo, [prop], m), refs)]
    alarmed = [x for x in ref_results if x["status"] == "alarm"]
    silent = [x for x in ref_results if x["status"] == "silent"]
    if ref_results:
        print("-- false-alarm self-test for %s: %d behaviour-preserving refactorings applied, %d silent, %d alarmed" % (prop, len(silent) + len(alarmed), len(silent), len(alarmed)))
    for x in alarmed:
        print("   SELFTEST-FALSE-ALARM %s: %s" % (x["id"], "; ".join("%s %s" % (a[0], a[1][:90]) for a in x["alarms"])))
    try:
        ev = json.load(open(ev_path))
        ev["coverage"]["refactor_selftest"] = {
            "what": "behaviour-preserving refactorings of /repo written by independent sub-agents (r*) and repaired versions of the seeded changes (rp_*); every check should stay silent on them; the alarms are listed; not part of the verdict",
            "applied": len(silent) + len(alarmed),
            "silent": len(silent),
            "alarmed": {x["id"]: x["alarms"] for x in alarmed},
            "skipped": [{"id": x["id"], "why": x.get("why", "")} for x in ref_results if x["status"] == "skipped"],
        }
        ev["coverage"]["checker_selftest"] = {
            "what": "in-memory overlay mutants of /repo (anchored edits and independently seeded patches); not part of the verdict",
            "mutants_applied": len(killed) + len(survived),
            "mutants_killed": len(killed),
            "mutants_survived": [x["id"] for x in survived],
            "mutants_skipped": [{"id": x["id"], "why": x.get("why", "")} for x in skipped],
            "kill_matrix": {x["id"]: x["rules"] for x in killed},
        }
        ev["wall_s"] = round(ev.get("wall_s", 0) + (time.time() - t0), 2)
        json.dump(ev, open(ev_path, "w"), indent=1)
    except Exception as e:  # evidence must exist after step 1
        print("ERROR updating evidence:", e)
        verdict = verdict or 1
    return verdict


def main():
    prop = sys.argv[1]
    repo = sys.argv[2] if len(sys.argv) > 2 else "/repo"
    props = ["C%02d" % i for i in range(1, 21)] if prop == "all" else prop.split(",")
    ref_cache = None
    if len(props) > 3:
        global FULL_REFACTOR_CORPUS
        FULL_REFACTOR_CORPUS = True
        # one load per refactoring for all requested properties instead of one per (property, refactoring)
        refs = refactors_for(None)
        with ThreadPoolExecutor(max_workers=6) as ex:
            res = list(ex.map(lambda m: run_refactor(repo, props, m), refs))
        ref_cache = {m["id"]: r for m, r in zip(refs, res)}
    rc = 0
    for p in props:
        rc = max(rc, one(p, repo, ref_cache))
    sys.exit(rc)


if __name__ == "__main__":
    main()
