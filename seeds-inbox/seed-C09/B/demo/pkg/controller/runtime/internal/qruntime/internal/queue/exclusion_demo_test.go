// This Source Code Form is subject to the terms of the Mozilla Public
// License, v. 2.0. If a copy of the MPL was not distributed with this
// file, You can obtain one at http://mozilla.org/MPL/2.0/.

package queue_test

import (
	"context"
	"testing"
	"time"

	"github.com/stretchr/testify/assert"
	"github.com/stretchr/testify/require"

	"github.com/cosi-project/runtime/pkg/controller/runtime/internal/qruntime/internal/queue"
)

func mustGet[K comparable, V any](t *testing.T, q *queue.Queue[K, V]) *queue.Item[K, V] {
	t.Helper()

	select {
	case item := <-q.Get():
		return item
	case <-time.After(5 * time.Second):
		require.FailNow(t, "timeout waiting for an item")

		return nil
	}
}

func tryGet[K comparable, V any](q *queue.Queue[K, V], wait time.Duration) *queue.Item[K, V] {
	select {
	case item := <-q.Get():
		return item
	case <-time.After(wait):
		return nil
	}
}

// TestExclusionRequeueThenRelease replays the hand-back sequence used by the reconcile loop
// (Requeue followed by a deferred Release of the same Item) interleaved with a second worker
// and fresh notifications, and verifies that the key is never handed to two workers at once.
func TestExclusionRequeueThenRelease(t *testing.T) {
	ctx, cancel := context.WithCancel(t.Context())
	defer cancel()

	q := queue.NewQueue[string, int]()

	done := make(chan struct{})

	go func() {
		defer close(done)

		q.Run(ctx)
	}()

	// worker 1 picks up the key
	q.Put("k", 1)

	w1 := mustGet(t, q)
	require.Equal(t, "k", w1.Key())

	// a notification arrives while worker 1 is processing the key
	q.Put("k", 2)

	// worker 1 finishes with a requeue request...
	w1.Requeue(time.Now().Add(time.Hour))

	// ...the notification received in the meantime is re-delivered right away, and worker 2 picks it up
	w2 := mustGet(t, q)
	k, v := w2.Get()
	require.Equal(t, "k", k)
	require.Equal(t, 2, v)

	// ...and only now the deferred Release of worker 1 runs, which should be a no-op
	w1.Release()

	// another notification arrives while worker 2 is still processing the key
	q.Put("k", 3)

	// worker 2 still holds the key, so nobody else should get it
	if dup := tryGet(q, 250*time.Millisecond); dup != nil {
		dk, dv := dup.Get()

		assert.Fail(t, "item handed to two workers at once", "key %q value %d delivered while the key is still held", dk, dv)

		dup.Release()
	}

	assert.EqualValues(t, 1, q.Len(), "one notification is pending behind the held item")

	// once worker 2 releases, the pending notification is delivered exactly once
	w2.Release()

	w3 := mustGet(t, q)
	k, v = w3.Get()
	assert.Equal(t, "k", k)
	assert.Equal(t, 3, v)
	w3.Release()

	assert.Nil(t, tryGet(q, 100*time.Millisecond))
	assert.EqualValues(t, 0, q.Len())

	cancel()
	<-done
}
