// This Source Code Form is subject to the terms of the Mozilla Public
// License, v. 2.0. If a copy of the MPL was not distributed with this
// file, You can obtain one at http://mozilla.org/MPL/2.0/.

package queue_test

import (
	"context"
	"testing"
	"time"

	"github.com/stretchr/testify/assert"
	"github.com/stretchr/testify/require"

	"github.com/cosi-project/runtime/pkg/controller/runtime/internal/qruntime/internal/queue"
)

func getItem[K comparable, V any](t *testing.T, q *queue.Queue[K, V]) *queue.Item[K, V] {
	t.Helper()

	select {
	case item := <-q.Get():
		return item
	case <-time.After(5 * time.Second):
		require.FailNow(t, "timeout waiting for an item")

		return nil
	}
}

func assertNoItem[K comparable, V any](t *testing.T, q *queue.Queue[K, V]) {
	t.Helper()

	select {
	case item := <-q.Get():
		k, v := item.Get()

		item.Release()

		require.FailNow(t, "unexpected item", "key %v value %v", k, v)
	case <-time.After(100 * time.Millisecond):
	}
}

// TestCoalesceCarriesLatestValue verifies that several notifications for the same key
// which arrive while no worker is available are coalesced into a single delivery which
// carries the value of the most recent notification.
func TestCoalesceCarriesLatestValue(t *testing.T) {
	ctx, cancel := context.WithCancel(t.Context())
	defer cancel()

	q := queue.NewQueue[string, int]()

	done := make(chan struct{})

	go func() {
		defer close(done)

		q.Run(ctx)
	}()

	// no worker is reading from Get() yet: all notifications pile up in the queue
	q.Put("busy", 0)

	for gen := 1; gen <= 3; gen++ {
		// make sure the wall clock advances between notifications
		time.Sleep(time.Millisecond)

		q.Put("a", gen)
	}

	assert.EqualValues(t, 2, q.Len())

	item := getItem(t, q)
	assert.Equal(t, "busy", item.Key())
	item.Release()

	item = getItem(t, q)
	k, v := item.Get()
	assert.Equal(t, "a", k)
	assert.Equal(t, 3, v, "coalesced delivery should carry the most recent value")
	item.Release()

	// exactly one delivery for the coalesced notifications
	assertNoItem(t, q)
	assert.EqualValues(t, 0, q.Len())

	// same, but with the notifications arriving while the item is held back by a requeue-after
	q.Put("b", 1)

	item = getItem(t, q)
	item.Requeue(time.Now().Add(200 * time.Millisecond))

	time.Sleep(time.Millisecond)
	q.Put("b", 2) // fresh notification makes the item ready immediately
	time.Sleep(time.Millisecond)
	q.Put("b", 3) // item is ready already, this should still update the value

	item = getItem(t, q)
	k, v = item.Get()
	assert.Equal(t, "b", k)
	assert.Equal(t, 3, v, "coalesced delivery should carry the most recent value")
	item.Release()

	assertNoItem(t, q)
	assert.EqualValues(t, 0, q.Len())

	cancel()
	<-done
}
