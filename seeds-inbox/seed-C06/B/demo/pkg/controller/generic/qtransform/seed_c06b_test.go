// This Source Code Form is subject to the terms of the Mozilla Public
// License, v. 2.0. If a copy of the MPL was not distributed with this
// file, You can obtain one at http://mozilla.org/MPL/2.0/.

package qtransform_test

import (
	"context"
	"fmt"
	"strings"
	"testing"
	"time"

	"github.com/stretchr/testify/assert"
	"github.com/stretchr/testify/require"
	"go.uber.org/zap"

	"github.com/cosi-project/runtime/pkg/controller"
	"github.com/cosi-project/runtime/pkg/controller/generic/qtransform"
	"github.com/cosi-project/runtime/pkg/controller/runtime"
	"github.com/cosi-project/runtime/pkg/resource"
	"github.com/cosi-project/runtime/pkg/resource/rtestutils"
	"github.com/cosi-project/runtime/pkg/safe"
	"github.com/cosi-project/runtime/pkg/state"
)

// newSeedC06BController builds a QTransform controller A -> B which additionally maintains an auxiliary output C:
//   - for even input Int the auxiliary output should exist and carry the Int value;
//   - for odd input Int the auxiliary output is not needed and it is removed (honoring finalizers).
func newSeedC06BController() *qtransform.QController[*A, *B] {
	return qtransform.NewQController(
		qtransform.Settings[*A, *B]{
			Name: "SeedC06BController",
			MapMetadataFunc: func(in *A) *B {
				return NewB("transformed-"+in.Metadata().ID(), BSpec{})
			},
			UnmapMetadataFunc: func(in *B) *A {
				return NewA(strings.TrimPrefix(in.Metadata().ID(), "transformed-"), ASpec{})
			},
			TransformExtraOutputFunc: func(ctx context.Context, rw controller.ReaderWriter, _ *zap.Logger, in *A, out *B) error {
				aux := NewC("aux-"+in.Metadata().ID(), CSpec{})

				if in.TypedSpec().Int%2 != 0 {
					ready, err := rw.Teardown(ctx, aux.Metadata())
					if err != nil && !state.IsNotFoundError(err) {
						return err
					}

					if err == nil && ready {
						if err = rw.Destroy(ctx, aux.Metadata()); err != nil && !state.IsNotFoundError(err) {
							return err
						}
					}
				} else {
					// finish the pending teardown of the previous auxiliary output (if any)
					existing, err := rw.Get(ctx, aux.Metadata())
					if err != nil && !state.IsNotFoundError(err) {
						return err
					}

					if existing != nil && existing.Metadata().Phase() == resource.PhaseTearingDown && existing.Metadata().Finalizers().Empty() {
						if err = rw.Destroy(ctx, aux.Metadata()); err != nil && !state.IsNotFoundError(err) {
							return err
						}
					}

					// if the previous auxiliary output is still held by someone, this fails and the item is retried later
					if err = safe.WriterModify(ctx, rw, aux, func(c *C) error {
						c.TypedSpec().Aux = in.TypedSpec().Int

						return nil
					}); err != nil {
						return err
					}
				}

				out.TypedSpec().Out = fmt.Sprintf("%q-%d", in.TypedSpec().Str, in.TypedSpec().Int)

				return nil
			},
		},
		qtransform.WithExtraOutputs(controller.Output{
			Type: CType,
			Kind: controller.OutputExclusive,
		}),
	)
}

// TestSeedC06BTransientExtraOutputConflict checks that the primary output converges to the latest input content
// after the transform transiently failed on its auxiliary output being held by a foreign finalizer.
func TestSeedC06BTransientExtraOutputConflict(t *testing.T) {
	setup(t, func(ctx context.Context, st state.State, rt *runtime.Runtime) {
		require.NoError(t, rt.RegisterQController(newSeedC06BController()))

		updateInput := func(value int) {
			_, err := safe.StateUpdateWithConflicts(ctx, st, NewA("1", ASpec{}).Metadata(), func(a *A) error {
				a.TypedSpec().Int = value

				return nil
			})
			require.NoError(t, err)
		}

		require.NoError(t, st.Create(ctx, NewA("1", ASpec{Str: "v", Int: 2})))

		rtestutils.AssertResource(ctx, t, st, "transformed-1", func(r *B, assert *assert.Assertions) {
			assert.Equal(`"v"-2`, r.TypedSpec().Out)
		})
		rtestutils.AssertResource(ctx, t, st, "aux-1", func(r *C, assert *assert.Assertions) {
			assert.Equal(2, r.TypedSpec().Aux)
		})

		// a third party puts a finalizer on the auxiliary output
		const finalizer = "foreign.cosi"

		require.NoError(t, st.AddFinalizer(ctx, NewC("aux-1", CSpec{}).Metadata(), finalizer))

		// odd value: the auxiliary output is being torn down, but held by the foreign finalizer
		updateInput(3)

		rtestutils.AssertResource(ctx, t, st, "transformed-1", func(r *B, assert *assert.Assertions) {
			assert.Equal(`"v"-3`, r.TypedSpec().Out)
		})
		rtestutils.AssertResource(ctx, t, st, "aux-1", func(r *C, assert *assert.Assertions) {
			assert.Equal(resource.PhaseTearingDown, r.Metadata().Phase())
		})

		// even value again: the transform can't proceed while the old auxiliary output is still around
		updateInput(4)

		sleep(ctx, 300*time.Millisecond)

		rtestutils.AssertResource(ctx, t, st, "transformed-1", func(r *B, assert *assert.Assertions) {
			assert.Equal(`"v"-3`, r.TypedSpec().Out)
		})

		// the third party releases the auxiliary output, everything should converge now
		require.NoError(t, st.RemoveFinalizer(ctx, NewC("aux-1", CSpec{}).Metadata(), finalizer))

		convergeCtx, cancel := context.WithTimeout(ctx, 7*time.Second)
		defer cancel()

		rtestutils.AssertResource(convergeCtx, t, st, "transformed-1", func(r *B, assert *assert.Assertions) {
			assert.Equal(`"v"-4`, r.TypedSpec().Out, "primary output is stale")
		})
		rtestutils.AssertResource(convergeCtx, t, st, "aux-1", func(r *C, assert *assert.Assertions) {
			assert.Equal(resource.PhaseRunning, r.Metadata().Phase())
			assert.Equal(4, r.TypedSpec().Aux)
		})
	})
}
