// This Source Code Form is subject to the terms of the Mozilla Public
// License, v. 2.0. If a copy of the MPL was not distributed with this
// file, You can obtain one at http://mozilla.org/MPL/2.0/.

package transform_test

import (
	"context"
	"fmt"
	"testing"
	"time"

	"github.com/siderolabs/gen/xerrors"
	"github.com/stretchr/testify/assert"
	"github.com/stretchr/testify/require"
	"go.uber.org/zap"

	"github.com/cosi-project/runtime/pkg/controller"
	"github.com/cosi-project/runtime/pkg/controller/generic/transform"
	"github.com/cosi-project/runtime/pkg/controller/runtime"
	"github.com/cosi-project/runtime/pkg/resource"
	"github.com/cosi-project/runtime/pkg/resource/rtestutils"
	"github.com/cosi-project/runtime/pkg/state"
)

const seedC06AControllerName = "SeedC06AController"

// newSeedC06AController builds a transform controller with input finalizers:
//   - transform is "not ready" (SkipReconcileTag) while the input Int is negative, so no output is produced for such inputs;
//   - finalizer removal never objects.
func newSeedC06AController() *transform.Controller[*A, *B] {
	return transform.NewController(
		transform.Settings[*A, *B]{
			Name: seedC06AControllerName,
			MapMetadataFunc: func(in *A) *B {
				return NewB("transformed-"+in.Metadata().ID(), BSpec{})
			},
			TransformFunc: func(_ context.Context, _ controller.Reader, _ *zap.Logger, in *A, out *B) error {
				if in.TypedSpec().Int < 0 {
					return xerrors.NewTaggedf[transform.SkipReconcileTag]("input %q is not ready yet", in.Metadata().ID())
				}

				out.TypedSpec().Out = fmt.Sprintf("%q-%d", in.TypedSpec().Str, in.TypedSpec().Int)

				return nil
			},
			FinalizerRemovalFunc: func(context.Context, controller.Reader, *zap.Logger, *A) error {
				return nil
			},
		},
		transform.WithInputFinalizers(),
	)
}

func seedC06AAssertInputReleased(ctx context.Context, t *testing.T, st state.State, id resource.ID) {
	t.Helper()

	watchCtx, cancel := context.WithTimeout(ctx, 5*time.Second)
	defer cancel()

	_, err := st.WatchFor(watchCtx, NewA(id, ASpec{}).Metadata(), state.WithFinalizerEmpty())
	require.NoError(t, err, "controller finalizer was never removed from the torn down input %q", id)

	require.NoError(t, st.Destroy(ctx, NewA(id, ASpec{}).Metadata()))
}

// TestSeedC06ATeardownInputNeverTransformed tears down an input for which the transform never produced an output.
//
// The output is gone (it never existed), so the torn down input should be released by the controller.
func TestSeedC06ATeardownInputNeverTransformed(t *testing.T) {
	setup(t, func(ctx context.Context, st state.State, rt *runtime.Runtime) {
		require.NoError(t, rt.RegisterController(newSeedC06AController()))

		require.NoError(t, st.Create(ctx, NewA("1", ASpec{Str: "ok", Int: 1})))
		require.NoError(t, st.Create(ctx, NewA("2", ASpec{Str: "pending", Int: -1})))

		rtestutils.AssertResources(ctx, t, st, []resource.ID{"transformed-1"}, func(r *B, assert *assert.Assertions) {
			assert.Equal(`"ok"-1`, r.TypedSpec().Out)
		})

		// the controller puts finalizers on both inputs
		rtestutils.AssertResources(ctx, t, st, []resource.ID{"1", "2"}, func(r *A, assert *assert.Assertions) {
			assert.True(r.Metadata().Finalizers().Has(seedC06AControllerName))
		})

		rtestutils.AssertNoResource[*B](ctx, t, st, "transformed-2")

		// tear down the input which never had an output
		_, err := st.Teardown(ctx, NewA("2", ASpec{}).Metadata())
		require.NoError(t, err)

		seedC06AAssertInputReleased(ctx, t, st, "2")

		// sanity: the regular flow still works
		_, err = st.Teardown(ctx, NewA("1", ASpec{}).Metadata())
		require.NoError(t, err)

		rtestutils.AssertNoResource[*B](ctx, t, st, "transformed-1")
		seedC06AAssertInputReleased(ctx, t, st, "1")
	})
}

// TestSeedC06ATeardownInputOutputAlreadyGone simulates a controller which was interrupted right after destroying the output,
// but before releasing the input: on the next start it finds a tearing down input with its finalizer and no output.
func TestSeedC06ATeardownInputOutputAlreadyGone(t *testing.T) {
	setup(t, func(ctx context.Context, st state.State, rt *runtime.Runtime) {
		in := NewA("1", ASpec{Str: "ok", Int: 1})
		in.Metadata().Finalizers().Add(seedC06AControllerName)

		require.NoError(t, st.Create(ctx, in))

		ready, err := st.Teardown(ctx, in.Metadata())
		require.NoError(t, err)
		require.False(t, ready)

		require.NoError(t, rt.RegisterController(newSeedC06AController()))

		seedC06AAssertInputReleased(ctx, t, st, "1")

		rtestutils.AssertNoResource[*B](ctx, t, st, "transformed-1")
	})
}
