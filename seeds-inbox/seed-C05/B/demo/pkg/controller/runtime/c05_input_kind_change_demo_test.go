// This Source Code Form is subject to the terms of the Mozilla Public
// License, v. 2.0. If a copy of the MPL was not distributed with this
// file, You can obtain one at http://mozilla.org/MPL/2.0/.

package runtime_test

import (
	"context"
	"sync"
	"testing"
	"time"

	"github.com/stretchr/testify/require"
	"go.uber.org/zap"
	"go.uber.org/zap/zaptest"

	"github.com/cosi-project/runtime/pkg/controller"
	"github.com/cosi-project/runtime/pkg/controller/conformance"
	"github.com/cosi-project/runtime/pkg/controller/runtime"
	"github.com/cosi-project/runtime/pkg/state"
	"github.com/cosi-project/runtime/pkg/state/impl/inmem"
	"github.com/cosi-project/runtime/pkg/state/impl/namespaced"
)

// kindSwitchingController starts with a destroy-ready input, and switches the same input to weak on request.
//
// On each reconcile it records the value of the resource 'x' as it sees it.
type kindSwitchingController struct {
	switchCh chan struct{}

	mu         sync.Mutex
	lastValue  int
	reconciles int
}

const notFoundValue = -1

func (ctrl *kindSwitchingController) Name() string { return "KindSwitchingController" }

func (ctrl *kindSwitchingController) Inputs() []controller.Input {
	return []controller.Input{
		{
			Namespace: "src",
			Type:      conformance.IntResourceType,
			Kind:      controller.InputDestroyReady,
		},
	}
}

func (ctrl *kindSwitchingController) Outputs() []controller.Output { return nil }

func (ctrl *kindSwitchingController) Run(ctx context.Context, r controller.Runtime, _ *zap.Logger) error {
	for {
		select {
		case <-ctx.Done():
			return nil
		case <-ctrl.switchCh:
			if err := r.UpdateInputs([]controller.Input{
				{
					Namespace: "src",
					Type:      conformance.IntResourceType,
					Kind:      controller.InputWeak,
				},
			}); err != nil {
				return err
			}
		case <-r.EventCh():
		}

		value := notFoundValue

		res, err := r.Get(ctx, conformance.NewIntResource("src", "x", 0).Metadata())

		switch {
		case err == nil:
			value = res.(*conformance.IntResource).Value() //nolint:forcetypeassert
		case state.IsNotFoundError(err):
		default:
			return err
		}

		ctrl.mu.Lock()
		ctrl.lastValue = value
		ctrl.reconciles++
		ctrl.mu.Unlock()
	}
}

func (ctrl *kindSwitchingController) observed() (lastValue, reconciles int) {
	ctrl.mu.Lock()
	defer ctrl.mu.Unlock()

	return ctrl.lastValue, ctrl.reconciles
}

// TestC05InputKindChange verifies that once a controller re-declares its destroy-ready input as a weak input,
// every change to the input is delivered to the controller.
func TestC05InputKindChange(t *testing.T) {
	st := state.WrapCore(namespaced.NewState(inmem.Build))

	rt, err := runtime.NewRuntime(st, zaptest.NewLogger(t))
	require.NoError(t, err)

	ctx, cancel := context.WithTimeout(t.Context(), time.Minute)
	t.Cleanup(cancel)

	ctrl := &kindSwitchingController{
		switchCh: make(chan struct{}),
	}

	require.NoError(t, rt.RegisterController(ctrl))

	runErrCh := make(chan error, 1)

	go func() { runErrCh <- rt.Run(ctx) }()

	// initial reconcile
	require.Eventually(t, func() bool {
		lastValue, reconciles := ctrl.observed()

		return reconciles > 0 && lastValue == notFoundValue
	}, 10*time.Second, 10*time.Millisecond)

	x := conformance.NewIntResource("src", "x", 1)
	require.NoError(t, st.Create(ctx, x))

	// switch the input from destroy-ready to weak, the controller reconciles right after the switch
	ctrl.switchCh <- struct{}{}

	require.Eventually(t, func() bool {
		lastValue, _ := ctrl.observed()

		return lastValue == 1
	}, 10*time.Second, 10*time.Millisecond)

	// verify that the new kind made it to the dependency graph
	graph, err := rt.GetDependencyGraph()
	require.NoError(t, err)
	require.Equal(t, []controller.DependencyEdge{
		{
			ControllerName:    "KindSwitchingController",
			EdgeType:          controller.EdgeInputWeak,
			ResourceNamespace: "src",
			ResourceType:      conformance.IntResourceType,
		},
	}, graph.Edges)

	// now change the (weak) input
	current, err := st.Get(ctx, x.Metadata())
	require.NoError(t, err)

	current.(*conformance.IntResource).SetValue(2) //nolint:forcetypeassert
	require.NoError(t, st.Update(ctx, current))

	// no more writes, the system goes quiet: the controller should observe the current state of the input
	require.Eventually(t, func() bool {
		lastValue, _ := ctrl.observed()

		return lastValue == 2
	}, 5*time.Second, 10*time.Millisecond, "the controller missed the change to its weak input")

	cancel()

	require.NoError(t, <-runErrCh)
}
