// This Source Code Form is subject to the terms of the Mozilla Public
// License, v. 2.0. If a copy of the MPL was not distributed with this
// file, You can obtain one at http://mozilla.org/MPL/2.0/.

package runtime_test

import (
	"context"
	"fmt"
	"sync"
	"sync/atomic"
	"testing"
	"time"

	"github.com/stretchr/testify/require"
	"go.uber.org/zap"
	"go.uber.org/zap/zaptest"

	"github.com/cosi-project/runtime/pkg/controller"
	"github.com/cosi-project/runtime/pkg/controller/conformance"
	"github.com/cosi-project/runtime/pkg/controller/runtime"
	"github.com/cosi-project/runtime/pkg/resource"
	"github.com/cosi-project/runtime/pkg/state"
	"github.com/cosi-project/runtime/pkg/state/impl/inmem"
	"github.com/cosi-project/runtime/pkg/state/impl/namespaced"
)

// gatedState lets the test hold WatchKindAggregated calls (i.e. a slow state backend).
type gatedState struct {
	state.State

	entered chan resource.Namespace
	release chan struct{}
	enabled atomic.Bool
}

func (st *gatedState) WatchKindAggregated(ctx context.Context, kind resource.Kind, ch chan<- []state.Event, opts ...state.WatchKindOption) error {
	if st.enabled.Load() {
		st.entered <- kind.Namespace()

		<-st.release
	}

	return st.State.WatchKindAggregated(ctx, kind, ch, opts...)
}

// countingController records how many resources of its (single) input kind it saw on the last reconcile.
type countingController struct {
	name string
	ns   resource.Namespace

	mu         sync.Mutex
	seen       int
	reconciles int
}

func (ctrl *countingController) Name() string { return ctrl.name }

func (ctrl *countingController) Inputs() []controller.Input {
	return []controller.Input{
		{
			Namespace: ctrl.ns,
			Type:      conformance.IntResourceType,
			Kind:      controller.InputWeak,
		},
	}
}

func (ctrl *countingController) Outputs() []controller.Output { return nil }

func (ctrl *countingController) Run(ctx context.Context, r controller.Runtime, _ *zap.Logger) error {
	for {
		select {
		case <-ctx.Done():
			return nil
		case <-r.EventCh():
		}

		list, err := r.List(ctx, resource.NewMetadata(ctrl.ns, conformance.IntResourceType, "", resource.VersionUndefined))
		if err != nil {
			return err
		}

		ctrl.mu.Lock()
		ctrl.seen = len(list.Items)
		ctrl.reconciles++
		ctrl.mu.Unlock()
	}
}

func (ctrl *countingController) observed() (seen, reconciles int) {
	ctrl.mu.Lock()
	defer ctrl.mu.Unlock()

	return ctrl.seen, ctrl.reconciles
}

// twoInputController has two inputs of kinds which nobody watched before.
type twoInputController struct{}

func (ctrl *twoInputController) Name() string { return "LateController" }

func (ctrl *twoInputController) Inputs() []controller.Input {
	return []controller.Input{
		{
			Namespace: "late1",
			Type:      conformance.IntResourceType,
			Kind:      controller.InputWeak,
		},
		{
			Namespace: "late2",
			Type:      conformance.IntResourceType,
			Kind:      controller.InputWeak,
		},
	}
}

func (ctrl *twoInputController) Outputs() []controller.Output { return nil }

func (ctrl *twoInputController) Run(ctx context.Context, r controller.Runtime, _ *zap.Logger) error {
	for {
		select {
		case <-ctx.Done():
			return nil
		case <-r.EventCh():
		}
	}
}

// TestC05NoLostWakeupOnLateRegistration registers a controller with new input kinds while the runtime
// has input changes pending for delivery to the other controllers.
//
// When the system goes quiet, every controller should have observed the current state of its inputs.
func TestC05NoLostWakeupOnLateRegistration(t *testing.T) {
	const numResources = 5

	st := &gatedState{
		State:   state.WrapCore(namespaced.NewState(inmem.Build)),
		entered: make(chan resource.Namespace),
		release: make(chan struct{}),
	}

	rt, err := runtime.NewRuntime(st, zaptest.NewLogger(t))
	require.NoError(t, err)

	ctx, cancel := context.WithTimeout(t.Context(), time.Minute)
	t.Cleanup(cancel)

	ctrlA := &countingController{name: "CounterA", ns: "a"}
	ctrlB := &countingController{name: "CounterB", ns: "b"}

	require.NoError(t, rt.RegisterController(ctrlA))
	require.NoError(t, rt.RegisterController(ctrlB))

	runErrCh := make(chan error, 1)

	go func() { runErrCh <- rt.Run(ctx) }()

	// wait for the initial reconcile of both controllers (they see nothing yet)
	require.Eventually(t, func() bool {
		_, reconcilesA := ctrlA.observed()
		_, reconcilesB := ctrlB.observed()

		return reconcilesA > 0 && reconcilesB > 0
	}, 10*time.Second, 10*time.Millisecond)

	// from now on, watch setup is slow (held by the test)
	st.enabled.Store(true)

	registerErrCh := make(chan error, 1)

	go func() { registerErrCh <- rt.RegisterController(&twoInputController{}) }()

	// registration is now in progress, setting up the first watch
	require.Equal(t, "late1", <-st.entered)

	// meanwhile, inputs of CounterA and CounterB change
	for i := range numResources {
		require.NoError(t, st.Create(ctx, conformance.NewIntResource("a", fmt.Sprintf("a%d", i), i)))
		require.NoError(t, st.Create(ctx, conformance.NewIntResource("b", fmt.Sprintf("b%d", i), i)))
	}

	// let the events flow into the runtime
	time.Sleep(500 * time.Millisecond)

	// first watch is established
	st.release <- struct{}{}

	// registration proceeds to the second watch
	require.Equal(t, "late2", <-st.entered)

	time.Sleep(500 * time.Millisecond)

	st.release <- struct{}{}

	require.NoError(t, <-registerErrCh)

	// the system goes quiet now: no more writes
	//
	// each controller should have observed the current state of its inputs
	require.Eventually(t, func() bool {
		seenA, _ := ctrlA.observed()
		seenB, _ := ctrlB.observed()

		return seenA == numResources && seenB == numResources
	}, 5*time.Second, 10*time.Millisecond, "some controller missed changes to its inputs")

	cancel()

	require.NoError(t, <-runErrCh)
}
