// This Source Code Form is subject to the terms of the Mozilla Public
// License, v. 2.0. If a copy of the MPL was not distributed with this
// file, You can obtain one at http://mozilla.org/MPL/2.0/.

package cache_test

import (
	"context"
	"testing"
	"time"

	"github.com/stretchr/testify/require"

	"github.com/cosi-project/runtime/pkg/controller/runtime/internal/cache"
	"github.com/cosi-project/runtime/pkg/controller/runtime/options"
	"github.com/cosi-project/runtime/pkg/resource"
	"github.com/cosi-project/runtime/pkg/state/conformance"
)

// TestDemoTeardownContextSurvivesSiblingCancel checks that a teardown-bound context is canceled when the resource
// is torn down (or removed), even if another reader of the same resource has abandoned its own
// teardown-bound context before that.
func TestDemoTeardownContextSurvivesSiblingCancel(t *testing.T) {
	ctx, cancel := context.WithTimeout(t.Context(), 30*time.Second)
	defer cancel()

	for _, tc := range []struct {
		name   string
		finish func(c *cache.ResourceCache, r resource.Resource)
	}{
		{
			name: "teardown",
			finish: func(c *cache.ResourceCache, r resource.Resource) {
				r = r.DeepCopy()
				r.Metadata().SetPhase(resource.PhaseTearingDown)
				c.CachePut(r)
			},
		},
		{
			name: "remove",
			finish: func(c *cache.ResourceCache, r resource.Resource) {
				c.CacheRemove(r)
			},
		},
	} {
		t.Run(tc.name, func(t *testing.T) {
			c := cache.NewResourceCache([]options.CachedResource{
				{
					Namespace: "a",
					Type:      conformance.PathResourceType,
				},
			})

			p := conformance.NewPathResource("a", "shared/1")

			c.CacheAppend(p.DeepCopy())
			c.MarkBootstrapped("a", conformance.PathResourceType)

			// two independent readers are interested in the teardown of the same resource
			shortLivedParent, shortLivedCancel := context.WithCancel(ctx)
			defer shortLivedCancel()

			shortLived, err := c.ContextWithTeardown(shortLivedParent, p.Metadata())
			require.NoError(t, err)

			longLived, err := c.ContextWithTeardown(ctx, p.Metadata())
			require.NoError(t, err)

			// the first reader finishes its work (e.g. a reconcile call returns) long before the resource is torn down
			shortLivedCancel()

			<-shortLived.Done()

			// give the cache a chance to notice that the first reader is gone
			time.Sleep(300 * time.Millisecond)

			select {
			case <-longLived.Done():
				t.Fatal("the context of the second reader should not be canceled: the resource is still running")
			default:
			}

			// now the resource goes away
			tc.finish(c, p)

			select {
			case <-longLived.Done():
			case <-time.After(2 * time.Second):
				t.Fatal("teardown-bound context was not canceled after the resource was torn down/removed")
			}
		})
	}
}
