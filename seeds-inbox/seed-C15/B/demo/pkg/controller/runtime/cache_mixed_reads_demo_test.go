// This Source Code Form is subject to the terms of the Mozilla Public
// License, v. 2.0. If a copy of the MPL was not distributed with this
// file, You can obtain one at http://mozilla.org/MPL/2.0/.

package runtime_test

import (
	"context"
	"fmt"
	"sync"
	"testing"
	"time"

	"github.com/stretchr/testify/assert"
	"github.com/stretchr/testify/require"
	"go.uber.org/zap"
	"go.uber.org/zap/zaptest"

	"github.com/cosi-project/runtime/pkg/controller"
	"github.com/cosi-project/runtime/pkg/controller/conformance"
	"github.com/cosi-project/runtime/pkg/controller/runtime"
	"github.com/cosi-project/runtime/pkg/controller/runtime/options"
	"github.com/cosi-project/runtime/pkg/resource"
	"github.com/cosi-project/runtime/pkg/safe"
	"github.com/cosi-project/runtime/pkg/state"
	"github.com/cosi-project/runtime/pkg/state/impl/inmem"
	"github.com/cosi-project/runtime/pkg/state/impl/namespaced"
)

const demoNamespace = "mixed"

// slowWatchState delays delivery of aggregated watch batches for a single namespace: each batch is
// only delivered after the test releases it explicitly.
//
// This models a slow/remote state backend, nothing more: events are neither dropped nor reordered.
type slowWatchState struct {
	state.CoreState

	release     chan struct{}
	started     chan struct{}
	startedOnce sync.Once
}

func (st *slowWatchState) WatchKindAggregated(ctx context.Context, kind resource.Kind, ch chan<- []state.Event, opts ...state.WatchKindOption) error {
	if kind.Namespace() != demoNamespace {
		return st.CoreState.WatchKindAggregated(ctx, kind, ch, opts...)
	}

	inner := make(chan []state.Event)

	if err := st.CoreState.WatchKindAggregated(ctx, kind, inner, opts...); err != nil {
		return err
	}

	st.startedOnce.Do(func() { close(st.started) })

	go func() {
		for {
			var batch []state.Event

			select {
			case <-ctx.Done():
				return
			case batch = <-inner:
			}

			select {
			case <-ctx.Done():
				return
			case <-st.release:
			}

			select {
			case <-ctx.Done():
				return
			case ch <- batch:
			}
		}
	}()

	return nil
}

type probeKind int

const (
	probeGet probeKind = iota
	probeGetWithOptions
	probeList
	probeListWithOptions
)

type probeResult struct {
	err   error
	value int
}

type probeRequest struct {
	result chan probeResult
	kind   probeKind
}

// probeController performs reads of a single cached resource on request from the test.
type probeController struct {
	requests chan probeRequest
}

func (ctrl *probeController) Name() string { return "ProbeController" }

func (ctrl *probeController) Inputs() []controller.Input {
	return []controller.Input{
		{
			Namespace: demoNamespace,
			Type:      conformance.IntResourceType,
			Kind:      controller.InputWeak,
		},
	}
}

func (ctrl *probeController) Outputs() []controller.Output { return nil }

func probe(ctx context.Context, r state.CoreState, kind probeKind) probeResult {
	ptr := conformance.NewIntResource(demoNamespace, "x", 0).Metadata()

	var (
		res resource.Resource
		err error
	)

	switch kind {
	case probeGet:
		res, err = r.Get(ctx, ptr)
	case probeGetWithOptions:
		res, err = r.Get(ctx, ptr, state.WithGetUnmarshalOptions(state.WithSkipProtobufUnmarshal()))
	case probeList, probeListWithOptions:
		var (
			opts []state.ListOption
			list resource.List
		)

		if kind == probeListWithOptions {
			opts = append(opts, state.WithListUnmarshalOptions(state.WithSkipProtobufUnmarshal()))
		}

		list, err = r.List(ctx, ptr, opts...)

		if err == nil {
			if len(list.Items) != 1 {
				err = fmt.Errorf("unexpected number of items: %d", len(list.Items))
			} else {
				res = list.Items[0]
			}
		}
	}

	if err != nil {
		return probeResult{err: err}
	}

	intRes, ok := res.(*conformance.IntResource)
	if !ok {
		return probeResult{err: fmt.Errorf("unexpected resource type %T", res)}
	}

	return probeResult{value: intRes.Value()}
}

// readerAsCoreState adapts the reader part of the controller runtime to the probe function.
type readerAsCoreState struct {
	state.CoreState

	r controller.Reader
}

func (a readerAsCoreState) Get(ctx context.Context, ptr resource.Pointer, opts ...state.GetOption) (resource.Resource, error) {
	return a.r.Get(ctx, ptr, opts...)
}

func (a readerAsCoreState) List(ctx context.Context, kind resource.Kind, opts ...state.ListOption) (resource.List, error) {
	return a.r.List(ctx, kind, opts...)
}

func (ctrl *probeController) Run(ctx context.Context, r controller.Runtime, _ *zap.Logger) error {
	for {
		select {
		case <-ctx.Done():
			return nil
		case <-r.EventCh():
		case req := <-ctrl.requests:
			readCtx, cancel := context.WithTimeout(ctx, 5*time.Second)

			req.result <- probe(readCtx, readerAsCoreState{r: r}, req.kind)

			cancel()
		}
	}
}

func (ctrl *probeController) read(ctx context.Context, t *testing.T, kind probeKind) probeResult {
	t.Helper()

	req := probeRequest{
		result: make(chan probeResult, 1),
		kind:   kind,
	}

	select {
	case ctrl.requests <- req:
	case <-ctx.Done():
		require.FailNow(t, "timeout sending the read request")
	}

	select {
	case res := <-req.result:
		return res
	case <-ctx.Done():
		require.FailNow(t, "timeout waiting for the read result")
	}

	panic("unreachable")
}

// monotonic tracks values read by a single reader: they should never go backwards.
//
// Reads which fail (e.g. as not supported) are not observations and are ignored.
type monotonic struct {
	name    string
	highest int
	last    int
}

func (m *monotonic) observe(t *testing.T, stage string, res probeResult) {
	t.Helper()

	if res.err != nil {
		t.Logf("%s: %s: read failed: %v", m.name, stage, res.err)

		return
	}

	t.Logf("%s: %s: read value %d", m.name, stage, res.value)

	if res.value < m.highest {
		t.Errorf("%s: %s: read of a cached resource went backwards: %d after %d", m.name, stage, res.value, m.highest)
	}

	m.highest = max(m.highest, res.value)
	m.last = res.value
}

// TestDemoCachedReadsNeverGoBackwards verifies that the reads of a cached resource (done with any set of
// read options) never go backwards while the cache is lagging behind the state, and converge to the state
// afterwards.
func TestDemoCachedReadsNeverGoBackwards(t *testing.T) {
	ctx, cancel := context.WithTimeout(t.Context(), 30*time.Second)
	defer cancel()

	slow := &slowWatchState{
		CoreState: namespaced.NewState(inmem.Build),
		release:   make(chan struct{}, 16),
		started:   make(chan struct{}),
	}
	st := state.WrapCore(slow)

	require.NoError(t, st.Create(ctx, conformance.NewIntResource(demoNamespace, "x", 1)))

	rt, err := runtime.NewRuntime(st, zaptest.NewLogger(t), options.WithCachedResource(demoNamespace, conformance.IntResourceType))
	require.NoError(t, err)

	ctrl := &probeController{requests: make(chan probeRequest)}
	require.NoError(t, rt.RegisterController(ctrl))

	errCh := make(chan error, 1)

	go func() { errCh <- rt.Run(ctx) }()

	t.Cleanup(func() {
		cancel()

		assert.NoError(t, <-errCh)
	})

	select {
	case <-slow.started:
	case <-ctx.Done():
		require.FailNow(t, "runtime did not start the watch")
	}

	cachedState := rt.CachedState()

	// three independent readers: a controller doing Get, a controller doing List, a user of the CachedState
	var (
		ctrlGet  = &monotonic{name: "controller Get"}
		ctrlList = &monotonic{name: "controller List"}
		wrapped  = &monotonic{name: "CachedState Get"}
	)

	readAll := func(stage string, withOptions bool) {
		t.Helper()

		getKind, listKind := probeGet, probeList
		if withOptions {
			getKind, listKind = probeGetWithOptions, probeListWithOptions
		}

		ctrlGet.observe(t, stage, ctrl.read(ctx, t, getKind))
		ctrlList.observe(t, stage, ctrl.read(ctx, t, listKind))
		wrapped.observe(t, stage, probe(ctx, cachedState, getKind))
	}

	// deliver initial contents, the cache should be readable now
	slow.release <- struct{}{}

	readAll("bootstrapped", false)

	require.Equal(t, 1, ctrlGet.last)
	require.Equal(t, 1, ctrlList.last)
	require.Equal(t, 1, wrapped.last)

	// update the resource, but the event is stuck on its way to the runtime
	_, err = safe.StateUpdateWithConflicts(ctx, st, conformance.NewIntResource(demoNamespace, "x", 0).Metadata(), func(r *conformance.IntResource) error {
		r.SetValue(2)

		return nil
	})
	require.NoError(t, err)

	// readers mix reads with and without unmarshal options
	readAll("cache lagging, with options", true)
	readAll("cache lagging, plain", false)

	// deliver the update, the cache should converge to the state
	slow.release <- struct{}{}

	deadline := time.Now().Add(5 * time.Second)

	for {
		readAll("update delivered", false)

		if ctrlGet.last == 2 && ctrlList.last == 2 && wrapped.last == 2 {
			break
		}

		require.True(t, time.Now().Before(deadline), "cache did not converge to the state")

		time.Sleep(10 * time.Millisecond)
	}

	readAll("quiet", true)
	readAll("quiet", false)
}
