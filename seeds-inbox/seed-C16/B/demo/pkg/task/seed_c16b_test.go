// This Source Code Form is subject to the terms of the Mozilla Public
// License, v. 2.0. If a copy of the MPL was not distributed with this
// file, You can obtain one at http://mozilla.org/MPL/2.0/.

package task_test

import (
	"context"
	"fmt"
	"sync/atomic"
	"testing"
	"time"

	"github.com/stretchr/testify/assert"
	"github.com/stretchr/testify/require"
	"go.uber.org/zap"
	"go.uber.org/zap/zaptest"

	"github.com/cosi-project/runtime/pkg/task"
)

type flakyInput struct {
	failures int32
	calls    atomic.Int32
	healthy  atomic.Bool
}

type flakySpec task.ID

func (spec flakySpec) ID() task.ID { return task.ID(spec) }

// RunTask fails on the first invocations: an inner operation which runs with its own (derived) context
// is aborted, and the error of the inner operation is returned as the task error.
//
// The task context itself is not canceled at that moment, so this is a regular task failure.
func (spec flakySpec) RunTask(ctx context.Context, _ *zap.Logger, in *flakyInput) error {
	if in.calls.Add(1) <= in.failures {
		opCtx, abort := context.WithCancel(ctx)
		abort() // the inner operation gives up

		<-opCtx.Done()

		return fmt.Errorf("inner operation failed: %w", opCtx.Err())
	}

	in.healthy.Store(true)
	defer in.healthy.Store(false)

	<-ctx.Done()

	return nil
}

// TestSeedC16BFailedTaskIsRestarted verifies that a task which returns an error while it is
// not being stopped is restarted (with a backoff), whatever the error is.
func TestSeedC16BFailedTaskIsRestarted(t *testing.T) {
	logger := zaptest.NewLogger(t)

	in := &flakyInput{failures: 2}

	tsk := task.New(logger, flakySpec("flaky"), in)
	tsk.Start(t.Context())

	// two failures, backoff is 0.5s*[0.5,1.5] + 0.75s*[0.5,1.5], so 10 seconds is more than enough
	require.Eventually(t, in.healthy.Load, 10*time.Second, 10*time.Millisecond, "task was not restarted after a failure")
	assert.EqualValues(t, 3, in.calls.Load())

	tsk.Stop()

	assert.False(t, in.healthy.Load())
	assert.EqualValues(t, 3, in.calls.Load())
}

// TestSeedC16BRunnerFailedTaskIsRestarted is the same check via the task runner, with a healthy task running side by side.
func TestSeedC16BRunnerFailedTaskIsRestarted(t *testing.T) {
	logger := zaptest.NewLogger(t)

	flaky := &flakyInput{failures: 1}

	runner := task.NewRunner(func(a, b flakySpec) bool { return a == b })

	runner.Reconcile(t.Context(), logger, map[task.ID]flakySpec{"flaky": "flaky"}, flaky)

	require.Eventually(t, flaky.healthy.Load, 10*time.Second, 10*time.Millisecond, "task was not restarted after a failure")

	runner.Stop()

	assert.False(t, flaky.healthy.Load())
}
