// This Source Code Form is subject to the terms of the Mozilla Public
// License, v. 2.0. If a copy of the MPL was not distributed with this
// file, You can obtain one at http://mozilla.org/MPL/2.0/.

package runtime_test

import (
	"context"
	"strconv"
	"sync/atomic"
	"testing"
	"time"

	"github.com/siderolabs/gen/optional"
	"github.com/stretchr/testify/assert"
	"github.com/stretchr/testify/require"
	"go.uber.org/zap"
	"go.uber.org/zap/zaptest"

	"github.com/cosi-project/runtime/pkg/controller"
	"github.com/cosi-project/runtime/pkg/controller/conformance"
	"github.com/cosi-project/runtime/pkg/controller/runtime"
	"github.com/cosi-project/runtime/pkg/resource"
	"github.com/cosi-project/runtime/pkg/safe"
	"github.com/cosi-project/runtime/pkg/state"
	"github.com/cosi-project/runtime/pkg/state/impl/inmem"
	"github.com/cosi-project/runtime/pkg/state/impl/namespaced"
)

// hookPanicsController is a QController which copies ints to strings,
// and its run hook panics on the first invocations.
type hookPanicsController struct {
	hookPanics  int32
	hookCalls   atomic.Int32
	hookHealthy atomic.Bool
}

func (ctrl *hookPanicsController) Name() string { return "HookPanicsController" }

func (ctrl *hookPanicsController) Settings() controller.QSettings {
	return controller.QSettings{
		Inputs: []controller.Input{
			{
				Namespace: "c16a-hook-in",
				Type:      conformance.IntResourceType,
				Kind:      controller.InputQPrimary,
			},
		},
		Outputs: []controller.Output{
			{
				Type: conformance.StrResourceType,
				Kind: controller.OutputShared,
			},
		},
		Concurrency: optional.Some(uint(1)),
		RunHook: func(ctx context.Context, _ *zap.Logger, _ controller.QRuntime) error {
			if ctrl.hookCalls.Add(1) <= ctrl.hookPanics {
				panic("run hook panics as requested")
			}

			ctrl.hookHealthy.Store(true)

			<-ctx.Done()

			return nil
		},
	}
}

func (ctrl *hookPanicsController) Reconcile(ctx context.Context, _ *zap.Logger, r controller.QRuntime, ptr resource.Pointer) error {
	return copyIntToStr(ctx, r, ptr, "c16a-hook-out")
}

func (ctrl *hookPanicsController) MapInput(context.Context, *zap.Logger, controller.QRuntime, controller.ReducedResourceMetadata) ([]resource.Pointer, error) {
	return nil, nil
}

// bystanderController is a QController which has nothing to do with the failing one.
type bystanderController struct{}

func (ctrl *bystanderController) Name() string { return "BystanderController" }

func (ctrl *bystanderController) Settings() controller.QSettings {
	return controller.QSettings{
		Inputs: []controller.Input{
			{
				Namespace: "c16a-by-in",
				Type:      conformance.IntResourceType,
				Kind:      controller.InputQPrimary,
			},
		},
		Outputs: []controller.Output{
			{
				Type: conformance.StrResourceType,
				Kind: controller.OutputShared,
			},
		},
	}
}

func (ctrl *bystanderController) Reconcile(ctx context.Context, _ *zap.Logger, r controller.QRuntime, ptr resource.Pointer) error {
	return copyIntToStr(ctx, r, ptr, "c16a-by-out")
}

func (ctrl *bystanderController) MapInput(context.Context, *zap.Logger, controller.QRuntime, controller.ReducedResourceMetadata) ([]resource.Pointer, error) {
	return nil, nil
}

func copyIntToStr(ctx context.Context, r controller.QRuntime, ptr resource.Pointer, targetNS resource.Namespace) error {
	src, err := safe.ReaderGet[*conformance.IntResource](ctx, r, ptr)
	if err != nil {
		if state.IsNotFoundError(err) {
			return nil
		}

		return err
	}

	val := strconv.Itoa(src.Value())

	return safe.WriterModify(ctx, r, conformance.NewStrResource(targetNS, src.Metadata().ID(), val), func(r *conformance.StrResource) error {
		r.SetValue(val)

		return nil
	})
}

// TestSeedC16ARunHookPanicIsContained verifies that a panic in the QController run hook
// is contained: the hook is restarted, the controller itself and other controllers keep working,
// and the runtime keeps running until it is canceled.
func TestSeedC16ARunHookPanicIsContained(t *testing.T) {
	st := state.WrapCore(namespaced.NewState(inmem.Build))

	rt, err := runtime.NewRuntime(st, zaptest.NewLogger(t))
	require.NoError(t, err)

	failing := &hookPanicsController{hookPanics: 2}

	require.NoError(t, rt.RegisterQController(failing))
	require.NoError(t, rt.RegisterQController(&bystanderController{}))

	ctx, cancel := context.WithTimeout(t.Context(), 30*time.Second)
	defer cancel()

	errCh := make(chan error, 1)

	go func() { errCh <- rt.Run(ctx) }()

	require.NoError(t, st.Create(ctx, conformance.NewIntResource("c16a-hook-in", "one", 1)))
	require.NoError(t, st.Create(ctx, conformance.NewIntResource("c16a-by-in", "two", 2)))

	assertStr := func(ns resource.Namespace, id resource.ID, expected string) {
		t.Helper()

		require.EventuallyWithT(t, func(collect *assert.CollectT) {
			res, err := safe.StateGet[*conformance.StrResource](ctx, st, resource.NewMetadata(ns, conformance.StrResourceType, id, resource.VersionUndefined))
			if !assert.NoError(collect, err) {
				return
			}

			assert.Equal(collect, expected, res.Value())
		}, 10*time.Second, 10*time.Millisecond)
	}

	// both the controller with the failing hook and the bystander controller should work
	assertStr("c16a-hook-out", "one", "1")
	assertStr("c16a-by-out", "two", "2")

	// the hook should be restarted (with a backoff) until it stops panicking
	require.Eventually(t, failing.hookHealthy.Load, 15*time.Second, 10*time.Millisecond)
	assert.EqualValues(t, 3, failing.hookCalls.Load())

	// the runtime is still alive and processing inputs
	select {
	case err = <-errCh:
		require.FailNow(t, "runtime stopped", "error %v", err)
	default:
	}

	require.NoError(t, st.Create(ctx, conformance.NewIntResource("c16a-hook-in", "three", 3)))
	require.NoError(t, st.Create(ctx, conformance.NewIntResource("c16a-by-in", "four", 4)))

	assertStr("c16a-hook-out", "three", "3")
	assertStr("c16a-by-out", "four", "4")

	cancel()

	require.NoError(t, <-errCh)
}
