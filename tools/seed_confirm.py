#!/usr/bin/env python3
"""Confirm an independently written breaking change and file it under /verif/seeded/<id>/.

usage: seed_confirm.py <seed-id> <property> <src-dir with patch.diff, notes.md, demo/> <demo target dir (repo-relative)> [--full]

Steps (all in a scratch worktree outside /repo and /verif, removed afterwards):
  1. pristine HEAD + demo          -> demo must PASS
  2. patch applied: go build ./... -> must succeed; demo must FAIL
  3. patch applied, demo removed: existing tests of the touched packages (or the full suite with --full) must PASS
Then copies patch.diff, the demo and a meta.json (what it breaks, what it needs, what was run) to /verif/seeded/<id>/.
Nothing is ever applied to /repo here.
"""
import json, os, re, shutil, subprocess, sys, glob

ENV = dict(os.environ, GOFLAGS="-mod=mod", GOPROXY="off", GOTOOLCHAIN="local",
           PATH="/opt/veriftools/go1.26.8/bin:" + os.environ["PATH"])


def sh(cmd, cwd, timeout=1500):
    r = subprocess.run(cmd, cwd=cwd, env=ENV, shell=True, stdout=subprocess.PIPE, stderr=subprocess.STDOUT, text=True, timeout=timeout)
    return r.returncode, r.stdout


def main():
    sid, prop, src, target = sys.argv[1:5]
    full = "--full" in sys.argv
    wt = "/tmp/wt-confirm-" + sid
    subprocess.run(["git", "-C", "/repo", "worktree", "remove", "--force", wt], stdout=subprocess.DEVNULL, stderr=subprocess.DEVNULL)
    sh("git -C /repo worktree add --detach %s HEAD -q" % wt, "/")
    log = {}
    try:
        demos = [f for f in glob.glob(os.path.join(src, "demo", "**", "*"), recursive=True) if os.path.isfile(f)]
        if target == "auto":
            # demo files are stored under demo/<repo-relative dir>/file; all must share one directory
            dirs = set(os.path.dirname(os.path.relpath(d, os.path.join(src, "demo"))) for d in demos)
            if len(dirs) != 1:
                # keep the first directory only (one demonstration is enough)
                keep = sorted(dirs)[0]
                demos = [d for d in demos if os.path.dirname(os.path.relpath(d, os.path.join(src, "demo"))) == keep]
                dirs = {keep}
            target = dirs.pop()
        names = []
        for d in demos:
            shutil.copy(d, os.path.join(wt, target, os.path.basename(d)))
            names += re.findall(r"^func (Test\w+)\(", open(d).read(), re.M)
        run = "^(%s)$" % "|".join(names)
        rc, out = sh("go test -count=1 -timeout 300s -run '%s' ./%s/" % (run, target), wt)
        log["demo_on_pristine"] = {"rc": rc, "tail": out[-600:]}
        if rc != 0:
            print("FAIL: demo does not pass on pristine HEAD\n" + out[-2000:]); return 1
        rc, out = sh("git apply %s" % os.path.join(src, "patch.diff"), wt)
        if rc != 0:
            print("FAIL: patch does not apply\n" + out); return 1
        rc, out = sh("go build ./... ", wt)
        log["build_with_patch"] = {"rc": rc, "tail": out[-300:]}
        if rc != 0:
            print("FAIL: does not build\n" + out[-2000:]); return 1
        rc, out = sh("go test -count=1 -timeout 300s -run '%s' ./%s/" % (run, target), wt)
        log["demo_with_patch"] = {"rc": rc, "tail": out[-1200:]}
        if rc == 0:
            print("FAIL: demo passes with the patch"); return 1
        for d in demos:
            os.remove(os.path.join(wt, target, os.path.basename(d)))
        touched = sorted(set(os.path.dirname(m) for m in re.findall(r"^\+\+\+ b/(\S+)", open(os.path.join(src, "patch.diff")).read(), re.M)))
        pk = "./..." if full else " ".join("./%s/..." % t for t in touched)
        rc, out = sh("go test -vet=off -count=1 -timeout 25m %s" % pk, wt, timeout=1800)
        log["existing_tests_with_patch"] = {"cmd": "go test -vet=off -count=1 " + pk, "rc": rc, "tail": out[-800:]}
        if rc != 0:
            print("NOTE: existing tests fail with the patch (rc=%d):\n%s" % (rc, out[-1500:]))
            # flaky tests under load exist; caller decides
        dst = os.path.join("/verif/seeded", sid)
        os.makedirs(os.path.join(dst, "demo"), exist_ok=True)
        shutil.copy(os.path.join(src, "patch.diff"), dst)
        for d in demos:
            shutil.copy(d, os.path.join(dst, "demo"))
        if os.path.exists(os.path.join(src, "notes.md")):
            shutil.copy(os.path.join(src, "notes.md"), dst)
        meta = {"id": sid, "property": prop, "demo_target_dir": target, "demo_tests": names, "touched": touched,
                "confirmed": {"demo_passes_on_pristine": True, "builds_with_patch": True, "demo_fails_with_patch": True,
                              "existing_tests_pass_with_patch": rc == 0},
                "ran": log, "needs": "", "breaks": ""}
        json.dump(meta, open(os.path.join(dst, "meta.json"), "w"), indent=1)
        print("OK %s: demo %s pass/fail confirmed; existing tests rc=%d (%s)" % (sid, names, rc, pk))
        return 0
    finally:
        subprocess.run(["git", "-C", "/repo", "worktree", "remove", "--force", wt], stdout=subprocess.DEVNULL, stderr=subprocess.DEVNULL)


if __name__ == "__main__":
    sys.exit(main())
