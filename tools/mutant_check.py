#!/usr/bin/env python3
"""Replays every anchored mutant and seeded change once (against the properties it is registered
for) and prints the ones no rule reports. Usage: mutant_check.py [bin] [ids...]"""
import sys, os, json, glob
sys.path.insert(0, "/verif")
import thorough
from concurrent.futures import ThreadPoolExecutor

bin_ = sys.argv[1] if len(sys.argv) > 1 else thorough.BIN
ids = set(sys.argv[2:])
thorough.BIN = bin_
items = {}
for p in ["C%02d" % i for i in range(1, 21)]:
    for kind, m in thorough.corpus_for(p):
        k = (kind, m["id"])
        items.setdefault(k, (kind, m, []))[2].append(p)
work = [v for k, v in sorted(items.items()) if not ids or k[1] in ids]


def one(v):
    kind, m, props = v
    r = thorough.run_mutant("/repo", ",".join(props), kind, m)
    return m["id"], kind, props, r


surv = 0
with ThreadPoolExecutor(max_workers=5) as ex:
    for mid, kind, props, r in ex.map(one, work):
        if r["status"] != "killed":
            surv += 1
            print("%-28s %-8s %-12s %s %s" % (mid, kind, ",".join(props), r["status"], r.get("why", "")), flush=True)
        elif ids:
            print("%-28s killed by %s" % (mid, ",".join(r["rules"])))
print("total %d, not killed %d" % (len(work), surv))
