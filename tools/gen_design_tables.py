#!/usr/bin/env python3
"""Regenerates the machine-derived parts of DESIGN.md (rule tables per property, kill matrix of the
checker self-test) from the evidence files of the last `./run.sh all thorough` run, and splices them
between the markers <!-- GENERATED:RULES --> / <!-- GENERATED:KILLS --> ... <!-- /GENERATED -->."""
import glob, json, os, re

V = "/verif"


def rules_md():
    out = []
    for f in sorted(glob.glob(V + "/evidence/C*.json")):
        e = json.load(open(f))
        cov = e["coverage"]
        out.append("#### %s — %d obligations over %d functions (%d call sites)\n" % (e["property_id"], cov["obligations"], cov["functions_analysed"], cov["call_sites"]))
        out.append("| rule | engine | instances (min) | obligation |\n|---|---|---|---|")
        for r in cov["rules"]:
            out.append("| %s | %s | %d (%d) | %s |" % (r["id"], r["engine"], r["instances"], r["min_instances"], r["doc"].replace("|", "\\|")))
        out.append("\nNot covered: " + cov.get("not_covered", "") + "\n")
    return "\n".join(out)


def kills_md():
    seeds = {}
    for d in sorted(glob.glob(V + "/seeded/*")):
        m = json.load(open(os.path.join(d, "meta.json")))
        seeds[m["id"]] = m
    killed_by = {}
    anchored = {}
    for f in sorted(glob.glob(V + "/evidence/C*.json")):
        e = json.load(open(f))
        st = e["coverage"].get("checker_selftest")
        if not st:
            continue
        pid = e["property_id"]
        anchored[pid] = (st["mutants_applied"], st["mutants_killed"], st["mutants_survived"], st["mutants_skipped"])
        for mid, rules in st["kill_matrix"].items():
            if mid in seeds:
                killed_by.setdefault(mid, {})[pid] = rules
    out = ["| seeded change | written for | what it needs to manifest | reported by (property: rules) |", "|---|---|---|---|"]
    for sid, m in sorted(seeds.items()):
        kb = "; ".join("%s: %s" % (p, ", ".join(r)) for p, r in sorted(killed_by.get(sid, {}).items())) or "**not reported**"
        out.append("| %s | %s | %s | %s |" % (sid, m["property"], (m.get("needs") or "").replace("|", "/"), kb))
    out.append("")
    out.append("| property | mutants+seeds applied | reported | survived | skipped |")
    out.append("|---|---|---|---|---|")
    for pid, (a, k, s, sk) in sorted(anchored.items()):
        out.append("| %s | %d | %d | %s | %s |" % (pid, a, k, ", ".join(s) or "—", ", ".join(x["id"] for x in sk) or "—"))
    return "\n".join(out)


def refactors_md():
    alarmed = {}
    applied = 0
    for f in sorted(glob.glob(V + "/evidence/C*.json")):
        e = json.load(open(f))
        st = e["coverage"].get("refactor_selftest")
        if not st:
            continue
        applied = max(applied, st["applied"])
        for rid, alarms in st["alarmed"].items():
            alarmed.setdefault(rid, {})[e["property_id"]] = sorted(set(a[0] for a in alarms))
    ids = sorted(os.path.basename(d) for d in glob.glob(V + "/refactors/*") if os.path.exists(d + "/patch.diff"))
    out = ["%d refactorings replayed against all 20 checks in the last thorough run; %d silent, %d alarmed." % (len(ids), len(ids) - len(alarmed), len(alarmed)), "",
           "| refactoring | files | result |", "|---|---|---|"]
    for rid in ids:
        files = sorted(set(l[6:].strip() for l in open(V + "/refactors/" + rid + "/patch.diff") if l.startswith("+++ b/")))
        res = "silent"
        if rid in alarmed:
            res = "**alarm**: " + "; ".join("%s (%s)" % (p, ", ".join(r)) for p, r in sorted(alarmed[rid].items()))
        out.append("| %s | %s | %s |" % (rid, ", ".join(f.replace("pkg/", "") for f in files), res))
    return "\n".join(out)


def splice(text, tag, body):
    pat = re.compile(r"(<!-- GENERATED:%s -->).*?(<!-- /GENERATED -->)" % tag, re.S)
    return pat.sub(lambda m: m.group(1) + "\n" + body + "\n" + m.group(2), text)


def main():
    p = V + "/DESIGN.md"
    t = open(p).read()
    t = splice(t, "RULES", rules_md())
    t = splice(t, "KILLS", kills_md())
    t = splice(t, "REFACTORS", refactors_md())
    open(p, "w").write(t)
    print("DESIGN.md tables regenerated")


if __name__ == "__main__":
    main()
