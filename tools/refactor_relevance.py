import subprocess, re, json, os, glob
from concurrent.futures import ThreadPoolExecutor
props=["C%02d"%i for i in range(1,21)]
def files(p):
    out=subprocess.run(['/verif/bin/cosilint','-repo','/repo','-verif','/verif','-prop',p,'-no-evidence','-v'],capture_output=True,text=True).stdout
    fs=set(re.findall(r'\[((?:pkg|api|cmd)/[\w/.\-]+\.go):\d+\]',out))
    return p,fs
with ThreadPoolExecutor(max_workers=5) as ex:
    pf=dict(ex.map(files,props))
rel={p:[] for p in props}
for d in sorted(glob.glob('/verif/refactors/*')):
    pd=os.path.join(d,'patch.diff')
    if not os.path.exists(pd): continue
    touched=set(re.findall(r'^\+\+\+ b/(\S+)',open(pd).read(),re.M))
    # same package counts as touching (helpers move between files of a package)
    tdirs={os.path.dirname(t) for t in touched}
    for p in props:
        pdirs={os.path.dirname(f) for f in pf[p]}
        if tdirs & pdirs:
            rel[p].append(os.path.basename(d))
json.dump({"what":"per property: the refactorings whose patch touches a package in which the property has obligations (used by the per-property thorough run; `all` applies every refactoring)","relevant":rel},open('/verif/refactors/relevance.json','w'),indent=1)
print({p:len(v) for p,v in rel.items()})
