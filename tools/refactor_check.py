#!/usr/bin/env python3
"""Runs every rule of every property over each behaviour-preserving refactoring in refactors/ (one load per
refactoring) and prints the alarms. Usage: refactor_check.py [bin] [ids...]"""
import sys, os, re, json, shutil
sys.path.insert(0, "/verif")
import thorough
from concurrent.futures import ThreadPoolExecutor
bin_ = sys.argv[1] if len(sys.argv) > 1 else thorough.BIN
ids = sys.argv[2:]
def one(d):
    rid = os.path.basename(d)
    tmp = thorough.overlay_dir_for_patch("/repo", os.path.join(d, "patch.diff"))
    if tmp is None:
        return rid, None, "patch does not apply"
    try:
        r = thorough.run([bin_, "-repo", "/repo", "-verif", "/verif", "-prop", "all", "-tier", "quick", "-no-evidence", "-overlay-dir", tmp])
    finally:
        shutil.rmtree(tmp, ignore_errors=True)
    al = sorted(set(re.findall(r"^((?:VIOLATED|UNDECIDED) rule=\S+ construct=\"[^\"]*\".*)$", r.stdout, re.M)))
    al += sorted(set(re.findall(r"^(UNDECIDED engine:.*)$", r.stdout, re.M)))
    und = re.findall(r"^UNDECIDED property=.*$", r.stdout, re.M)
    return rid, al, und
import glob
ds = sorted(glob.glob("/verif/refactors/*"))
if ids: ds = [d for d in ds if os.path.basename(d) in ids]
with ThreadPoolExecutor(max_workers=5) as ex:
    for rid, al, und in ex.map(one, ds):
        if al is None:
            print("%s SKIPPED %s" % (rid, und)); continue
        print("%s: %d alarms %s" % (rid, len(al), ("UNDECIDED-LOAD " + und[0][:200]) if und else ""))
        for a in al: print("    " + a[:330])
